#!/bin/bash
# Builds the harness (plain and -race) from files on disk only; offline.
set -eu
ROOT="$(cd "$(dirname "$0")" && pwd)"
export GOFLAGS=-mod=mod GOPROXY=off GOSUMDB=off GOTOOLCHAIN=local
mkdir -p "$ROOT/bin" "$ROOT/evidence"
cd "$ROOT/harness"
go build -tags verif -o "$ROOT/bin/vcheck" ./cmd/vcheck
go build -tags verif -race -o "$ROOT/bin/vcheck-race" ./cmd/vcheck
(cd "$ROOT/harness" && go test -count=1 ./internal/ref/ ./internal/fw/ >/dev/null) || { echo "oracle self-tests failed"; exit 1; }
echo "setup ok"
