#!/usr/bin/env python3
"""Regenerates /verif/MANIFEST.json from the table below (kept in one place so
that MANIFEST.json is always schema-valid)."""
import json, os, subprocess
ROOT = os.path.dirname(os.path.dirname(os.path.abspath(__file__)))

CHECKS = {
 # id: (level, technique, level_text, level_note, design_ref)
 "C01": ("exploration", "runtime monitoring: differential oracle (reference filter) + metamorphic laws over real executions in crash-isolated children",
         "Held on every generated (table, predicate) pair explored: the real New+Exec output is compared row-for-row with an independent reference filter, plus three metamorphic laws between real executions. Columns include natively typed Go integers and IN-subqueries correlated to the outer row; columns named plainly, by the table's alias, without it, or by the table's own name; string and numeric constants of one statement spelled alike; dual as a one-row source; a share of the cases under IdomaticArrays; column names that are not plain words; long tables; one Query re-executed while a variable or the document changes. Sampled, not exhaustive, over the predicate grammar.",
         "Trusted: the reference predicate evaluator in harness/internal/ref, the generator's domain restrictions listed in the evidence assumptions.", "DESIGN.md §6 C01"),
}

TRUST = "Trusted: the harness's reference model / metamorphic relation for this property (harness/internal/ref, harness/props), the generator's stated domain restrictions (evidence.assumptions), the Go toolchain. Sampled exploration of the real code: says nothing about inputs the workload did not produce."
def expl(pid, tech, text):
    CHECKS[pid] = ("exploration", tech, text, TRUST, "DESIGN.md §6 " + pid)
expl("C02", "runtime monitoring: differential oracle (bit-exact reference expression evaluator) over real executions",
     "Held on every generated (table, select list, WHERE) explored: row count, exact key set and bit-exact values against a reference evaluator doing the same IEEE-754 operations; also under PostgresEscapingDialect, with every column naming mode, and over envelope rows whose only key holds the object the missing names live in; open-ended range paths over per-row arrays.")
expl("C03", "runtime monitoring: differential oracle (reference group-by, sequence-exact) + conservation law + repeated-run determinism",
     "Held on every generated grouped / whole-table aggregate query explored, each run several times on fresh copies: groups in first-appearance order, members in source order, exact aggregates, sum(COUNT(*)) = filtered rows; aliased tables with qualified column names; one Query re-executed while a variable read by WHERE changes, also across an execution that fails after its first aggregates; aggregates of grouping columns and of like-named nested members; every column naming mode.")
expl("C04", "runtime monitoring: differential oracle (nested-loop reference multiset) across every strategy spelling + metamorphic ON re-spellings; Go race detector with hook-injected yields for the PARALLEL variants",
     "Held on every generated (tables, ON tree, join type) explored under every strategy spelling; key columns of one kind or of mixed kinds (numbers vs numeric strings); 66..125 distinct keys in a share of the cases; natively typed keys, key names that are not plain words, BETWEEN / NOT in ON, operands swapped under one ON text; PARALLEL variants additionally repeated under -race with yields inside the join goroutines (distinct output orders observed are reported).")
expl("C05", "runtime monitoring: permutation + adjacent-pair order + window oracle over three real executions",
     "Held on every generated ORDER BY / LIMIT / OFFSET query explored: permutation of the unordered result, every adjacent pair ordered, NULL-last, exact window (length, key tuples, membership), never an error; windows are also cut from sequences shorter than the filtered source (DISTINCT, all-aggregate, GROUP BY, UNION) and keys include native integers beyond 2^53; aliases that shadow another selected source column; table-qualified and nullable keys among several keys; one windowed Query re-executed over sequences of changing length.")
expl("C06", "runtime monitoring: metamorphic oracle (first-occurrence dedup / left fold of the branches' real outputs) with deep typed equality",
     "Held on every generated DISTINCT query and UNION chain explored, including look-alike values that collide under textual fingerprints, strings that are not valid UTF-8, chains reading CTEs of the statement, tables of 250..1050 rows, statements built once and executed three times, union branches selecting background calls, windows incl. the all-rows idiom, negative zero.")
expl("C07", "runtime monitoring: metamorphic oracle (composed vs staged real executions), per-row standalone subquery executions, reference predicate for EXISTS",
     "Held on every generated CTE / derived-table / subquery / EXISTS pipeline explored (CTE names in any letter case; outer columns named bare or through the `<-` marker; nested WITH scopes; IN / NOT IN subqueries with bare, qualified and aliased items; EXISTS over dual).")
expl("C08", "runtime monitoring: metamorphic oracle (nested result vs per-inner-array real executions; mix=> vs concatenation)",
     "Held on every generated multi-dimensional FROM query explored (depth 2..3, ragged, empty inner arrays; select lists with plain, non-idempotent, aggregate, user-function and ASYNC items; per-query variables and constants; columns qualified by the table's own name over nested, flattened and flat sources, also under an alias of the source; rows carrying a column named like the table).")

expl("C09", "runtime monitoring: differential oracle (reference selector evaluator written from the README grammar) + totality/doc-unchanged monitor on arbitrary byte strings",
     "Held on every generated (document, selector) explored: value and error-ness agree with the documented meaning (cold and warm parse cache), never a panic, document unchanged; quoted keys whose text looks like a step; arbitrary byte strings: totality only.")
CHECKS["C15"] = ("exploration", "runtime monitoring over an exhaustively enumerated finite domain: exact rational order oracle, reflexivity, antisymmetry, transitivity on the real compare.Compare",
     "All ordered pairs of a representative boundary-value domain across every Go numeric type and strings are enumerated (exhaustive over that stated finite domain, not over all values); same-kind triples exhaustively in the thorough tier, sampled in quick. A further phase drives the comparison through the engine (WHERE, IN, BETWEEN, ORDER BY with one and two keys, hash and nested-loop joins) over key columns mixing Go numeric types (incl. float32 values that are not short in binary) and numeric strings.", TRUST, "DESIGN.md §6 C15")
expl("C16", "runtime monitoring: AST-shape oracle using the library's own parser + echo / row-level end-to-end injection monitors",
     "Held on every generated (template, arguments) explored: same statement shape as the template with sentinel literals, exact echo, exact filter, static text untouched, errors (not panics) for missing/unused/$0; two prepared commands alive at once and concurrent SanitizeSQL calls return what a lone call returns; sanitized text is also evaluated under PostgresEscapingDialect; line comments with TAB / CR / nothing after the introducer, # and // comments; array-literal templates evaluated under IdomaticArrays; numeric arguments of every Go type.")
expl("C17", "runtime monitoring: metamorphic oracle (option + matching or neutral spelling vs canonical spelling) + echo of literals/aliases/arrays",
     "Held on every generated query explored under all 2^3 option sets, a share of them right after a query text the option rewrite rejects; comments holding quotes and brackets; WITH scopes inside derived tables and CTE bodies under Wrapped.")
expl("C18", "runtime monitoring: per-function reference implementations compared with real `SELECT f(args)` executions (value and error-ness)",
     "Held on every generated (function, arguments) explored; CONCAT with NULL arguments is an open known finding (quarantined, witness re-run on every check). Open-ended DATERANGE; CONSTANT inside nested queries next to other options; arrays of more than a million elements.")
expl("C20", "runtime monitoring: sequential per-key register model replayed against real query histories sharing one variable map",
     "Held on every generated history (1..4 queries, 1..4 keys) explored: GETVAR values, no SETVAR column, caller's map after each Exec; ORDER BY does not reorder evaluation; grouped queries evaluate each group's select list once; numeric register keys; registers on both sides of UNION ALL whatever the right branch is made of; register-only predicates on re-executed queries and across inner arrays.")

expl("C10", "runtime monitoring: process-level crash/hang monitor (recover at the API, child exit status, watchdog, background-call quiescence) over seeded hostile workloads in crash-isolated children; thorough adds a -race pass",
     "Held on every generated (query, option set, document) explored across 32 families of valid, mutated, random and named-hostile inputs: control always returned with rows or an error; no escaped panic, process death or hang. 'Never loops forever' is decided as bounded progress.")
CHECKS["C11"] = ("fault_enumeration", "runtime monitoring: cycle-safe input snapshot before/after New+Exec; fault enumeration over every invocation index of an injected failing function (error and three panic kinds)",
     "Held on every generated query explored, on success and on error, with and without Wrapped; for queries with a fault position every crash point k = 1..N is enumerated (exhaustive in k per query, sampled in queries).", TRUST, "DESIGN.md §6 C11")
expl("C12", "runtime monitoring: plain-data type walk + encoding/json round trip + repeated evaluation, over the full (expression form x clause position) matrix",
     "Held on every successful query of the enumerated form x position matrix, of special select items (ASYNC in plain / UNION / CTE / derived / multi-dimensional sources, FUSE, SETVAR, tuples, dual-star) and of the rich grammar: only JSON-representable acyclic values, no engine-internal type or `<-` key, equal results on repetition with a fresh Query and on a second Exec of the same Query object; a LIMIT window over joins repeated (equal multisets); the same Query object executed again after an execution that failed part-way; grouping over look-alike keys repeated; heavy PARALLEL joins repeated for schedule-independence; async columns of derived tables and CTEs used by value in the outer query.")
expl("C13", "Go race detector over concurrent and internally-parallel workloads with hook-injected yields + per-goroutine result vs run-alone result + shared-document snapshot",
     "Held on every concurrent workload explored (5 workload kinds, 2..16 goroutines; plus a cold-start phase in which every case is a fresh process whose first use of the library is a concurrent burst): no race report with genql frames, no child death, no deadlock, no cross-talk, shared document unchanged. Says nothing about schedules the runs did not produce.")
expl("C14", "runtime monitoring: invocation ledger (atomic sequence numbers) of instrumented user functions vs exec-return, result vs pure-function reference, under injected latency profiles; -race pass with hook yields",
     "Held on every generated (table, select list, latency profile) explored: ASYNC/SPINASYNC invoked exactly once per row and completed before Exec returned, ASYNC values equal the unqualified call, no extra column, ONCE once per query, immediate functions (also mixed-case registrations) reject ASYNC/SPIN/SPINASYNC; LIMIT/OFFSET pages, also empty ones, leave no call running; ASYNC items of derived tables used as join operands are awaited and resolved; ORDER BY / DISTINCT over async columns equal the unqualified query; ASYNC over built-in functions with large payloads; no call is left running when Exec returns an error; ASYNC columns of nested queries consumed by the enclosing query (WHERE, aggregates, GROUP BY, ON, function arguments) equal the unqualified query; an immediate function registered late in the life of the process is rejected all the same; one Query re-executed with a failing background call in one of the executions; CTEs read twice run their calls once.")
CHECKS["C19"] = ("fault_enumeration", "runtime monitoring: fault enumeration - a failing user function placed in every clause position, every invocation index k = 1..N enumerated; RAISE_WHEN on every row index; type errors in every clause; follow-up query vs pristine copy",
     "Held for every fault point of every generated query explored: (no rows, error), an unaffected follow-up query on the same input, the same Query object usable again, and a failing query failing again when repeated; type errors include a reader error on a single row (ORDER BY path, later join key column) and natively typed integers where a boolean / string / array is required; follow-up queries show whole rows under an alias. Exhaustive in k per query, sampled in queries.", TRUST, "DESIGN.md §6 C19")

# what the seventh round of seeded validation added to each workload (DESIGN.md §11.6)
ROUND7 = {
 "C01": "IN-subqueries with an ORDER BY ... LIMIT of their own; constants at the ends of the 64-bit integer ranges against natively typed columns. Constants written with leading zeros; a share of the cases under PostgresEscapingDialect; the table under a dotted path with columns qualified by its last part or the whole path.",
 "C02": "The table also as inner arrays of a fan-out path (with and without WHERE); column names with letters beyond ASCII, plain and qualified. Finite results through an infinite intermediate; inner-array sources under the naming modes.",
 "C03": "GROUP BY spelling the grouping columns the other way than the select list; column names that are not plain words. Whole-number members around and beyond 2^63 (exact sums); column names that begin with the table's name.",
 "C05": "DISTINCT * / UNION of whole rows under a partial ORDER BY (a permutation of the unordered query); an aggregate next to plain columns under LIMIT. Equal keys under different Go types within one column (the next key decides); zero-padded LIMIT / OFFSET literals.",
 "C06": "DISTINCT over FUSE(obj). DISTINCT and UNION under an ORDER BY (same multiset); doubles that differ in their last digits only.",
 "C07": "Chains of CTEs that all carry names of document tables; EXISTS with the outer row named through its alias (also as the path to the nested table) or its table's own name. Derived tables whose ORDER BY shows through ties of the outer ORDER BY; ragged nested rows under an alias in EXISTS.",
 "C08": "IN lists whose items are computed from the row. keep=> without a function in front.",
 "C09": "A function behind a NULL continuation; zero-padded numeric strings, fractions and numbers under the reshape pipe. Keys that differ in blanks only; ranges with a bound left out.",
 "C10": "Background calls one of whose arguments fails or panics; background calls that read whole rows of a derived table. Union chains of 24..39 branches; DISTINCT * inside EXISTS.",
 "C11": "Columns spelled with the table's own name as select items, function arguments and in arithmetic; NOT over an un-aliased table with whole rows in the result. Aggregates called with an execution strategy over an array of the row; a subquery over an aliased dual.",
 "C12": "A later query showing whole rows of the same document object; stars over a scope with read and unread CTEs. Objects whose sibling sections flatten to one name under mix=> (24 evaluations).",
 "C13": "HASH / ENCODE over many rows on separate documents; PARALLEL joins whose ON holds a call followed by plain operands; background calls that read rows of a derived table. One text under two option sets at once (expected rows from the harness); stateful ONs under the hash-join spellings.",
 "C14": "ASYNC calls as the chosen branch of IF; a CTE read by both branches of a UNION; a name registered as plain first and immediate then. Phase 'once-spelling': one ONCE function in several letter cases.",
 "C15": "Sorts of 33..72 rows; comparisons with a computed operand over doubles that differ in their last bits; three-table joins with BETWEEN / NOT over the joined side's column.",
 "C16": "String arguments that are not valid UTF-8; block comments ending in several stars. A negative argument behind a minus sign in front of double-quoted identifiers.",
 "C17": "Double-quoted identifiers ending in a backslash. Wrapped over a document whose one top-level key is root.",
 "C18": "IF with computed branches and a NULL condition; decimal texts of numbers from 1e6 on and below 1e-4 in CONCAT / CHANGETYPE. Phase 'twins': two calls of one function that differ in letter case only, each alone and both together; IF guarding a branch that cannot be evaluated.",
 "C19": "A CTE first read at execution time as a fault position; type errors through alias-qualified paths on one row. A bare non-boolean column as a CASE condition; a panic in the ON of a PARALLEL join.",
 "C20": "DISTINCT over source rows that repeat as a whole; registers written in the arms of a CASE. A CTE with registers in its body read by every branch of a union chain.",
 "C04": "Whole-number keys from 2^63 on.",
}

def main():
    for pid, extra in ROUND7.items():
        level, tech, text, note, ref = CHECKS[pid]
        CHECKS[pid] = (level, tech, text.rstrip() + " Also: " + extra, note, ref)
    props = [json.loads(l) for l in open(os.path.join(ROOT, "properties.jsonl"))]
    hooks_commits = []
    try:
        out = subprocess.run(["git", "-C", "/repo", "log", "--format=%H %s"], capture_output=True, text=True).stdout
        hooks_commits = [l.split()[0] for l in out.splitlines() if " verif: " in l or l.split(" ",1)[1].startswith("verif")]
    except Exception:
        pass
    checks, na = [], []
    for p in props:
        pid = p["id"]
        if pid in CHECKS:
            level, tech, text, note, ref = CHECKS[pid]
            checks.append({
                "property_id": pid,
                "quick_cmd": f"./check {pid} quick",
                "thorough_cmd": f"./check {pid} thorough",
                "evidence_file": f"/verif/evidence/{pid}.json",
                "replay_cmd_template": f"./check {pid} --replay {{path}}",
                "engine": "vcheck",
                "level_claimed": {"category": level, "text": text, "design_ref": ref},
                "level_note": note,
                "technique": tech,
            })
        else:
            na.append({"property_id": pid, "reason": "check not built yet (work in progress; see DESIGN.md §6 for the planned monitor)"})
    m = {
        "version": 1,
        "setup_cmd": "./setup.sh",
        "hooks": {
            "guard": "verif (Go build tag)",
            "enable": "go build -tags verif (the harness module replaces github.com/vedadiyan/genql with /repo, so every check compiles /repo's working tree with the tag on)",
            "baseline_off_cmd": "cd /repo && GOFLAGS=-mod=mod GOPROXY=off GOSUMDB=off go test -vet=off -count=1 ./...",
            "source_commits": hooks_commits,
            "add_only": True,
        },
        "engines": [{"name": "vcheck", "path": "/verif/harness", "serves_properties": sorted(CHECKS),
                     "kind_free_text": "Go harness: seeded workload generators, reference models, boundary monitors; parent + crash-isolated child processes; -race children where schedules matter"}],
        "checks": checks,
        "not_applicable": na,
        "notes": "All checks: ./check <ID> quick|thorough, env VERIF_SEED. Exit 0 held / 1 VIOLATION / 2 INCONCLUSIVE. Known findings: /verif/known_findings.json.",
    }
    json.dump(m, open(os.path.join(ROOT, "MANIFEST.json"), "w"), indent=1)
    print("checks:", len(checks), "not_applicable:", len(na))

main()
