#!/bin/bash
# Validation helper (not part of any check): confirms a seeded change and runs checks against it.
#   tools/seed_test.sh <outdir> <n> <ID> [<ID>...]     e.g. tools/seed_test.sh /tmp/seed/C01.out 1 C01
# Confirms: applies cleanly, builds, existing suite passes with it, demo fails with it and passes without.
set -u
OUT="$1"; N="$2"; shift 2
export GOFLAGS=-mod=mod GOPROXY=off GOSUMDB=off GOTOOLCHAIN=local
TAG=$(basename "$OUT" .out)-$N
W="/tmp/sv-$TAG"
rm -rf "$W"; git -C /repo worktree prune
git -C /repo worktree add --detach "$W" HEAD >/dev/null 2>&1 || { echo "worktree failed"; exit 2; }
cleanup() { git -C /repo worktree remove --force "$W" >/dev/null 2>&1; }
PATCH="$OUT/change$N.diff"; DEMO="$OUT/demo${N}_test.go"
[ -f "$PATCH" ] || PATCH="$OUT/patch.diff"
[ -f "$DEMO" ] || DEMO=$(ls "$OUT"/*_test.go 2>/dev/null | head -1)
cp "$DEMO" "$W/zz_seed_demo_test.go"
RUN="^($(grep -o '^func Test[A-Za-z0-9_]*' "$DEMO" | sed 's/func //' | paste -sd'|'))\$"
base=$(cd "$W" && go test -vet=off -count=1 -run "$RUN" . 2>&1 | tail -1)
case "$base" in ok*) demo_without=pass;; *) demo_without="FAIL($base)";; esac
if ! git -C "$W" apply "$PATCH" 2>/tmp/sv-apply.err && ! git -C "$W" apply --3way "$PATCH" 2>/tmp/sv-apply.err; then echo "SEED $TAG: patch does not apply: $(head -2 /tmp/sv-apply.err)"; cleanup; exit 3; fi
if ! (cd "$W" && go build ./... 2>/dev/null); then echo "SEED $TAG: does not build"; cleanup; exit 3; fi
withd=$(cd "$W" && go test -vet=off -count=1 -run "$RUN" . 2>&1 | tail -1)
case "$withd" in ok*) demo_with=pass;; *) demo_with=fail;; esac
rm -f "$W/zz_seed_demo_test.go"
suite=$(cd "$W" && go test -vet=off -count=1 ./... 2>&1 | grep -c '^ok')
echo "SEED $TAG: suite_ok=$suite demo_without_change=$demo_without demo_with_change=$demo_with"
for ID in "$@"; do
  out=$(VERIF_REPO="$W" ${VERIF_ROOT:-/verif}/check "$ID" ${SEED_TIER:-quick} 2>&1); rc=$?
  n=$(echo "$out" | grep -c '^VIOLATION')
  kinds=$(echo "$out" | grep -o 'kind=[a-zA-Z().-]*' | sort | uniq -c | sort -rn | head -3 | tr '\n' ' ')
  echo "  check=$ID exit=$rc violations>=$n $kinds $(echo "$out" | grep '^INCONCLUSIVE' | head -1 | cut -c1-150)"
done
cleanup
