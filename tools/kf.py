#!/usr/bin/env python3
"""Development helper (never run by a check): appends or replaces one entry of
/verif/known_findings.json.  usage: kf.py '<json entry>'"""
import json, sys, os
P = '/verif/known_findings.json'
d = json.load(open(P)) if os.path.exists(P) else {"findings": []}
e = json.loads(sys.argv[1])
if e.get("status") == "fixed":
    e["line"] = "fixed: property=%s %s %s" % (e["property"], e["commit"], e["what"])
d["findings"] = [x for x in d["findings"] if x["id"] != e["id"]] + [e]
d["findings"].sort(key=lambda x: (x["property"], x["id"]))
json.dump(d, open(P, "w"), indent=1, ensure_ascii=False)
print(len(d["findings"]), "entries")
