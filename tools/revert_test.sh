#!/bin/bash
# Validation helper (not part of any check): reverts one fix commit of /repo on
# a scratch worktree and runs the given checks against it.
#   tools/revert_test.sh <commit> <ID> [<ID>...]
set -u
C="$1"; shift
W="/tmp/rv-$C"
rm -rf "$W"; git -C /repo worktree prune
git -C /repo worktree add --detach "$W" HEAD >/dev/null 2>&1 || { echo "worktree failed"; exit 2; }
if ! git -C "$W" revert -n "$C" >/dev/null 2>&1; then
  echo "REVERT-CONFLICT $C"; git -C "$W" revert --abort 2>/dev/null; git -C /repo worktree remove --force "$W"; exit 3
fi
if ! (cd "$W" && GOFLAGS=-mod=mod GOPROXY=off go build ./... 2>/dev/null); then
  echo "REVERT-NOBUILD $C"; git -C /repo worktree remove --force "$W"; exit 3
fi
T=$(cd "$W" && GOFLAGS=-mod=mod GOPROXY=off go test -vet=off -count=1 ./... 2>&1 | grep -c '^ok')
for ID in "$@"; do
  out=$(VERIF_REPO="$W" ${VERIF_ROOT:-/verif}/check "$ID" quick 2>&1)
  rc=$?
  n=$(echo "$out" | grep -c '^VIOLATION')
  kinds=$(echo "$out" | grep -o 'kind=[a-z().-]*' | sort | uniq -c | sort -rn | head -3 | tr '\n' ' ')
  echo "revert $C tests_ok=$T check=$ID exit=$rc violations>=$n $kinds"
done
git -C /repo worktree remove --force "$W"
