#!/bin/bash
# Development helper (never run by a check): ports a seeded patch that no longer
# applies to /repo HEAD. 3-way applies it on a scratch worktree, resolves every
# conflict as "ours, then the lines only theirs has" (the usual case: both sides
# added struct fields / initialisers at the same place), gofmt, build; on success
# the patch file is replaced (original kept as <name>.orig.diff).
#   tools/port3way.sh <patch>
set -u
P="$1"; W=/tmp/port3way.$$
export GOFLAGS=-mod=mod GOPROXY=off GOSUMDB=off GOTOOLCHAIN=local
git -C /repo worktree prune
git -C /repo worktree add --detach "$W" HEAD >/dev/null 2>&1 || exit 2
trap 'git -C /repo worktree remove --force "$W" >/dev/null 2>&1' EXIT
cd "$W"
if git apply "$P" 2>/dev/null; then echo "applies as it is"; exit 0; fi
git apply --3way "$P" >/dev/null 2>&1
for f in $(git diff --name-only --diff-filter=U); do
python3 - "$f" <<'PY'
import sys,re
f=sys.argv[1]; out=[]; mode=None; ours=[]; theirs=[]
for line in open(f):
    if line.startswith('<<<<<<< '): mode='o'; ours=[]; theirs=[]; continue
    if line.startswith('=======') and mode=='o': mode='t'; continue
    if line.startswith('>>>>>>> ') and mode=='t':
        norm=lambda l: re.sub(r'\s+','',l)
        have={norm(l) for l in ours}
        out+=ours+[l for l in theirs if norm(l) not in have]
        mode=None; continue
    if mode=='o': ours.append(line)
    elif mode=='t': theirs.append(line)
    else: out.append(line)
open(f,'w').writelines(out)
PY
git add "$f"
done
gofmt -l . >/dev/null
for f in $(git diff --cached --name-only; git diff --name-only); do case "$f" in *.go) gofmt -w "$f";; esac; done
if ! go build ./... ; then echo "PORT FAILED: does not build"; git diff HEAD | head -80; exit 3; fi
[ -f "${P%.diff}.orig.diff" ] || cp "$P" "${P%.diff}.orig.diff"
git diff HEAD > "$P"
echo "ported: $(git diff HEAD --stat | tail -1)"
