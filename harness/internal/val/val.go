// Package val holds the value-level monitors shared by every property:
// canonical encoding (deep typed equality, multisets), deep copy, cycle-safe
// snapshots of a document, and the plain-data type walk.
// It does not import genql.
package val

import (
	"encoding/json"
	"fmt"
	"math"
	"math/big"
	"reflect"
	"sort"
	"strconv"
	"strings"
)

// Copy returns a deep copy of a JSON-shaped value (maps and slices are copied,
// everything else is shared).
func Copy(v any) any {
	switch t := v.(type) {
	case map[string]any:
		if t == nil {
			return t
		}
		m := make(map[string]any, len(t))
		for k, x := range t {
			m[k] = Copy(x)
		}
		return m
	case []any:
		if t == nil {
			return t
		}
		s := make([]any, len(t))
		for i, x := range t {
			s[i] = Copy(x)
		}
		return s
	default:
		return v
	}
}

func CopyMap(m map[string]any) map[string]any {
	if m == nil {
		return nil
	}
	return Copy(m).(map[string]any)
}

// numText renders any Go numeric value as an exact canonical text.
func numText(rv reflect.Value) string {
	switch rv.Kind() {
	case reflect.Int, reflect.Int8, reflect.Int16, reflect.Int32, reflect.Int64:
		return strconv.FormatInt(rv.Int(), 10)
	case reflect.Uint, reflect.Uint8, reflect.Uint16, reflect.Uint32, reflect.Uint64, reflect.Uintptr:
		return strconv.FormatUint(rv.Uint(), 10)
	case reflect.Float32, reflect.Float64:
		f := rv.Float()
		if f == 0 {
			return "0"
		}
		if math.IsNaN(f) {
			return "NaN"
		}
		if math.IsInf(f, 0) {
			if f > 0 {
				return "+Inf"
			}
			return "-Inf"
		}
		if f == math.Trunc(f) && math.Abs(f) < 1e18 {
			return strconv.FormatInt(int64(f), 10)
		}
		return strconv.FormatFloat(f, 'g', -1, 64)
	}
	return "?"
}

// Canon is a canonical, typed, order-independent (for object keys) encoding.
// Numbers of every Go numeric type are normalised to their value, so int(3)
// and float64(3) are equal, but "3" (a string) differs from 3.
// Pointers are followed (an engine-internal *float64 would otherwise hide a
// wrong value); named string types encode as strings. Type *plainness* is the
// business of PlainWalk, not of Canon.
func Canon(v any) string {
	var b strings.Builder
	canon(&b, v, 0)
	return b.String()
}

func canon(b *strings.Builder, v any, depth int) {
	if depth > 200 {
		b.WriteString("<deep>")
		return
	}
	switch t := v.(type) {
	case nil:
		b.WriteString("n")
		return
	case bool:
		if t {
			b.WriteString("T")
		} else {
			b.WriteString("F")
		}
		return
	case string:
		fmt.Fprintf(b, "s%d:%s", len(t), t)
		return
	case float64:
		b.WriteString("#")
		b.WriteString(numText(reflect.ValueOf(t)))
		return
	case map[string]any:
		keys := make([]string, 0, len(t))
		for k := range t {
			keys = append(keys, k)
		}
		sort.Strings(keys)
		b.WriteString("{")
		for _, k := range keys {
			fmt.Fprintf(b, "%d:%s=", len(k), k)
			canon(b, t[k], depth+1)
			b.WriteString(",")
		}
		b.WriteString("}")
		return
	case []any:
		b.WriteString("[")
		for _, x := range t {
			canon(b, x, depth+1)
			b.WriteString(",")
		}
		b.WriteString("]")
		return
	}
	rv := reflect.ValueOf(v)
	switch rv.Kind() {
	case reflect.Int, reflect.Int8, reflect.Int16, reflect.Int32, reflect.Int64,
		reflect.Uint, reflect.Uint8, reflect.Uint16, reflect.Uint32, reflect.Uint64, reflect.Uintptr,
		reflect.Float32, reflect.Float64:
		b.WriteString("#")
		b.WriteString(numText(rv))
	case reflect.String:
		s := rv.String()
		fmt.Fprintf(b, "s%d:%s", len(s), s)
	case reflect.Bool:
		if rv.Bool() {
			b.WriteString("T")
		} else {
			b.WriteString("F")
		}
	case reflect.Ptr, reflect.Interface:
		if rv.IsNil() {
			b.WriteString("n")
			return
		}
		canon(b, rv.Elem().Interface(), depth+1)
	case reflect.Slice, reflect.Array:
		if rv.Kind() == reflect.Slice && rv.IsNil() {
			b.WriteString("[]")
			return
		}
		b.WriteString("[")
		for i := 0; i < rv.Len(); i++ {
			canon(b, rv.Index(i).Interface(), depth+1)
			b.WriteString(",")
		}
		b.WriteString("]")
	case reflect.Map:
		if rv.Type().Key().Kind() != reflect.String {
			fmt.Fprintf(b, "<%T>", v)
			return
		}
		keys := make([]string, 0, rv.Len())
		for _, k := range rv.MapKeys() {
			keys = append(keys, k.String())
		}
		sort.Strings(keys)
		b.WriteString("{")
		for _, k := range keys {
			fmt.Fprintf(b, "%d:%s=", len(k), k)
			canon(b, rv.MapIndex(reflect.ValueOf(k).Convert(rv.Type().Key())).Interface(), depth+1)
			b.WriteString(",")
		}
		b.WriteString("}")
	case reflect.Func:
		b.WriteString("<func>")
	default:
		fmt.Fprintf(b, "<%T>", v)
	}
}

// Equal is deep typed equality through Canon.
func Equal(a, b any) bool { return Canon(a) == Canon(b) }

// CanonSeq canonicalises each element of a slice.
func CanonSeq(rows []any) []string {
	out := make([]string, len(rows))
	for i, r := range rows {
		out[i] = Canon(r)
	}
	return out
}

// SameSeq / SameMultiset compare two row lists.
func SameSeq(a, b []any) bool {
	if len(a) != len(b) {
		return false
	}
	for i := range a {
		if Canon(a[i]) != Canon(b[i]) {
			return false
		}
	}
	return true
}

func SameMultiset(a, b []any) bool {
	if len(a) != len(b) {
		return false
	}
	ca, cb := CanonSeq(a), CanonSeq(b)
	sort.Strings(ca)
	sort.Strings(cb)
	for i := range ca {
		if ca[i] != cb[i] {
			return false
		}
	}
	return true
}

// IsNumber reports whether v is of a Go numeric kind.
func IsNumber(v any) bool {
	if v == nil {
		return false
	}
	switch reflect.ValueOf(v).Kind() {
	case reflect.Int, reflect.Int8, reflect.Int16, reflect.Int32, reflect.Int64,
		reflect.Uint, reflect.Uint8, reflect.Uint16, reflect.Uint32, reflect.Uint64,
		reflect.Float32, reflect.Float64:
		return true
	}
	return false
}

// Rat converts a Go numeric value exactly.
func Rat(v any) *big.Rat {
	rv := reflect.ValueOf(v)
	switch rv.Kind() {
	case reflect.Int, reflect.Int8, reflect.Int16, reflect.Int32, reflect.Int64:
		return new(big.Rat).SetInt64(rv.Int())
	case reflect.Uint, reflect.Uint8, reflect.Uint16, reflect.Uint32, reflect.Uint64:
		return new(big.Rat).SetInt(new(big.Int).SetUint64(rv.Uint()))
	case reflect.Float32, reflect.Float64:
		r := new(big.Rat)
		if r.SetFloat64(rv.Float()) == nil {
			return nil
		}
		return r
	}
	return nil
}

// ---------------------------------------------------------------------------
// Snapshot: a cycle-safe structural fingerprint of a document.

// Snapshot flattens a document into path -> description lines. Maps and slices
// already on the DFS stack are recorded as cycles instead of being followed.
type Snapshot map[string]string

func Snap(v any) Snapshot {
	s := Snapshot{}
	snap(s, "$", v, map[uintptr]bool{}, 0)
	return s
}

func snap(s Snapshot, path string, v any, onStack map[uintptr]bool, depth int) {
	if depth > 64 {
		s[path] = "<too deep>"
		return
	}
	switch t := v.(type) {
	case map[string]any:
		if t == nil {
			s[path] = "nilmap"
			return
		}
		id := reflect.ValueOf(t).Pointer()
		if onStack[id] {
			s[path] = "<cycle>"
			return
		}
		onStack[id] = true
		keys := make([]string, 0, len(t))
		for k := range t {
			keys = append(keys, k)
		}
		sort.Strings(keys)
		s[path] = "map" + strconv.Quote(strings.Join(keys, "\x00"))
		for _, k := range keys {
			snap(s, path+"."+strconv.Quote(k), t[k], onStack, depth+1)
		}
		delete(onStack, id)
	case []any:
		if t == nil {
			s[path] = "nilslice"
			return
		}
		var id uintptr
		if len(t) > 0 {
			id = reflect.ValueOf(t).Pointer()
			if onStack[id] {
				s[path] = "<cycle>"
				return
			}
			onStack[id] = true
		}
		s[path] = "slice" + strconv.Itoa(len(t))
		for i, x := range t {
			snap(s, path+"["+strconv.Itoa(i)+"]", x, onStack, depth+1)
		}
		if len(t) > 0 {
			delete(onStack, id)
		}
	default:
		s[path] = fmt.Sprintf("%T:%s", v, Canon(v))
	}
}

// Diff lists differences (at most max) between two snapshots.
func (a Snapshot) Diff(b Snapshot, max int) []string {
	var out []string
	keys := map[string]bool{}
	for k := range a {
		keys[k] = true
	}
	for k := range b {
		keys[k] = true
	}
	ks := make([]string, 0, len(keys))
	for k := range keys {
		ks = append(ks, k)
	}
	sort.Strings(ks)
	for _, k := range ks {
		x, okx := a[k]
		y, oky := b[k]
		switch {
		case !okx:
			out = append(out, fmt.Sprintf("added %s = %s", k, trunc(y, 80)))
		case !oky:
			out = append(out, fmt.Sprintf("removed %s (was %s)", k, trunc(x, 80)))
		case x != y:
			out = append(out, fmt.Sprintf("changed %s: %s -> %s", k, trunc(x, 80), trunc(y, 80)))
		}
		if len(out) >= max {
			break
		}
	}
	return out
}

func trunc(s string, n int) string {
	if len(s) <= n {
		return s
	}
	return s[:n] + "…"
}

// ---------------------------------------------------------------------------
// PlainWalk: accept only JSON-representable, acyclic values.

// PlainWalk returns a list of problems (empty when v is plain data).
// forbiddenKeys are object keys that must not appear (e.g. "<-").
func PlainWalk(v any, forbiddenKeys ...string) []string {
	var probs []string
	plain(&probs, "$", reflect.ValueOf(v), map[uintptr]bool{}, forbiddenKeys, 0)
	return probs
}

func plain(probs *[]string, path string, rv reflect.Value, onStack map[uintptr]bool, forb []string, depth int) {
	if len(*probs) > 8 {
		return
	}
	if depth > 100 {
		*probs = append(*probs, path+": nesting deeper than 100 (cycle?)")
		return
	}
	if !rv.IsValid() {
		return // nil
	}
	t := rv.Type()
	switch rv.Kind() {
	case reflect.Interface:
		if rv.IsNil() {
			return
		}
		plain(probs, path, rv.Elem(), onStack, forb, depth)
	case reflect.Bool, reflect.String,
		reflect.Int, reflect.Int8, reflect.Int16, reflect.Int32, reflect.Int64,
		reflect.Uint, reflect.Uint8, reflect.Uint16, reflect.Uint32, reflect.Uint64,
		reflect.Float32, reflect.Float64:
		if t.PkgPath() != "" {
			*probs = append(*probs, fmt.Sprintf("%s: engine-internal or named type %s", path, t.String()))
		}
		if rv.Kind() == reflect.Float64 || rv.Kind() == reflect.Float32 {
			f := rv.Float()
			if math.IsNaN(f) || math.IsInf(f, 0) {
				*probs = append(*probs, fmt.Sprintf("%s: non-finite number %v", path, f))
			}
		}
	case reflect.Map:
		if t.PkgPath() != "" && t.String() != "genql.Map" {
			*probs = append(*probs, fmt.Sprintf("%s: engine-internal or named map type %s", path, t.String()))
		}
		if t.Key().Kind() != reflect.String {
			*probs = append(*probs, fmt.Sprintf("%s: map with non-string keys %s", path, t.String()))
			return
		}
		if rv.IsNil() {
			return
		}
		id := rv.Pointer()
		if onStack[id] {
			*probs = append(*probs, path+": reference cycle")
			return
		}
		onStack[id] = true
		keys := rv.MapKeys()
		sort.Slice(keys, func(i, j int) bool { return keys[i].String() < keys[j].String() })
		for _, k := range keys {
			for _, f := range forb {
				if k.String() == f {
					*probs = append(*probs, fmt.Sprintf("%s: forbidden key %q", path, f))
				}
			}
			plain(probs, path+"."+k.String(), rv.MapIndex(k), onStack, forb, depth+1)
		}
		delete(onStack, id)
	case reflect.Slice, reflect.Array:
		if t.PkgPath() != "" {
			*probs = append(*probs, fmt.Sprintf("%s: named slice type %s", path, t.String()))
		}
		var id uintptr
		if rv.Kind() == reflect.Slice && rv.Len() > 0 {
			id = rv.Pointer()
			if onStack[id] {
				*probs = append(*probs, path+": reference cycle")
				return
			}
			onStack[id] = true
		}
		for i := 0; i < rv.Len(); i++ {
			plain(probs, path+"["+strconv.Itoa(i)+"]", rv.Index(i), onStack, forb, depth+1)
		}
		if id != 0 {
			delete(onStack, id)
		}
	default:
		*probs = append(*probs, fmt.Sprintf("%s: not JSON-representable: %s (kind %s)", path, t.String(), rv.Kind()))
	}
}

// JSONRoundTrip marshals and unmarshals v and checks the result is Canon-equal.
func JSONRoundTrip(v any) error {
	b, err := json.Marshal(v)
	if err != nil {
		return fmt.Errorf("json.Marshal: %v", err)
	}
	var back any
	if err := json.Unmarshal(b, &back); err != nil {
		return fmt.Errorf("json.Unmarshal: %v", err)
	}
	if c1, c2 := Canon(v), Canon(back); c1 != c2 {
		// nil slices marshal to null; treat [] and null alike only at that level
		if strings.ReplaceAll(c1, "[]", "n") != strings.ReplaceAll(c2, "[]", "n") {
			return fmt.Errorf("json round trip changed the value: %s -> %s", trunc(c1, 120), trunc(c2, 120))
		}
	}
	return nil
}

// Show renders a value for samples / replay files: JSON when possible,
// otherwise %#v.
func Show(v any) any {
	if !withinBudget(v, 20000) {
		return "<value too large to render>"
	}
	probs := PlainWalk(v)
	if len(probs) == 0 {
		if _, err := json.Marshal(v); err == nil {
			return v
		}
	}
	return trunc(fmt.Sprintf("%#v", v), 2000)
}

// Hash64 is FNV-1a over a string.
func Hash64(s string) uint64 {
	h := uint64(14695981039346656037)
	for i := 0; i < len(s); i++ {
		h ^= uint64(s[i])
		h *= 1099511628211
	}
	return h
}

// withinBudget reports whether a value has at most n nodes (maps and slices
// are followed; shared substructure counts every time it is reached, so a DAG
// or a cycle exhausts the budget quickly instead of looping).
func withinBudget(v any, n int) bool {
	budget := n
	var walk func(rv reflect.Value, depth int) bool
	walk = func(rv reflect.Value, depth int) bool {
		budget--
		if budget < 0 || depth > 200 {
			return false
		}
		if !rv.IsValid() {
			return true
		}
		switch rv.Kind() {
		case reflect.Interface, reflect.Ptr:
			if rv.IsNil() {
				return true
			}
			return walk(rv.Elem(), depth+1)
		case reflect.Map:
			it := rv.MapRange()
			for it.Next() {
				if !walk(it.Value(), depth+1) {
					return false
				}
			}
		case reflect.Slice, reflect.Array:
			for i := 0; i < rv.Len(); i++ {
				if !walk(rv.Index(i), depth+1) {
					return false
				}
			}
		}
		return true
	}
	return walk(reflect.ValueOf(v), 0)
}

// Deref follows pointers and interfaces: a nil pointer of any type is NULL
// (nil), a non-nil pointer yields its pointee. Monitors that judge ordering or
// NULL-ness use it so that an engine-internal pointer cannot hide a NULL.
func Deref(v any) any {
	for depth := 0; depth < 8; depth++ {
		if v == nil {
			return nil
		}
		rv := reflect.ValueOf(v)
		if rv.Kind() != reflect.Ptr && rv.Kind() != reflect.Interface {
			return v
		}
		if rv.IsNil() {
			return nil
		}
		v = rv.Elem().Interface()
	}
	return v
}
