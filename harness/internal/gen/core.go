// Package gen holds the seeded workload generators: tables, documents, typed
// SQL ASTs (predicates, expressions, select lists) and their rendering to
// MySQL text. It does not import genql.
package gen

import (
	"math/rand/v2"
	"strconv"
	"strings"
)

type Kind int

const (
	KNum Kind = iota
	KStr
	KBool
	KNullNum // number, NULL or missing key
	KNullStr // string, NULL or missing key
)

func (k Kind) String() string {
	return [...]string{"num", "str", "bool", "nullnum", "nullstr"}[k]
}

type Col struct {
	Name string
	Kind Kind
}

// Table is an array of objects with typed columns. Every row carries a unique
// "rid" (its source position) so that "each row once, in source order" is
// checkable by identity.
type Table struct {
	Name string
	Cols []Col
	Rows []map[string]any
	// Pools are the distinct values each column draws from (for constants
	// that hit boundaries).
	Pools map[string][]any
}

func (t *Table) Array() []any {
	out := make([]any, len(t.Rows))
	for i, r := range t.Rows {
		out[i] = r
	}
	return out
}

func (t *Table) ColsOf(kinds ...Kind) []Col {
	var out []Col
	for _, c := range t.Cols {
		for _, k := range kinds {
			if c.Kind == k {
				out = append(out, c)
			}
		}
	}
	return out
}

// Alphabet pieces for string values. Multi-byte runes are caseless ones so
// that ASCII case folding and Unicode ToLower agree on every generated string.
var strAtoms = []string{
	"a", "b", "A", "B", "c", "ab", "Ab", "x", "y", "Z", "0", "1", "10", "2", "9",
	" ", "%", "_", "(", ")", "[", "]", ".", "*", "+", "?", "^", "$", "|", "-", ":", "'", "\"", ",",
	"é", "日", "€", "{", "}", "\\", "/", "#", "=", "<", ">", "&", "!", "~", "`x", "\n", "\t",
}

// plainAtoms avoid characters that have special meaning in places where the
// property text is silent (used by properties that need tame strings).
var plainAtoms = []string{"a", "b", "A", "B", "c", "ab", "x", "y", "Z", "0", "1", "10", "2", "9", " ", "-", ":", "é", "日"}

type StrStyle int

const (
	Hostile StrStyle = iota
	Plain
)

func RandString(r *rand.Rand, style StrStyle, maxAtoms int) string {
	atoms := strAtoms
	if style == Plain {
		atoms = plainAtoms
	}
	n := r.IntN(maxAtoms + 1)
	var b strings.Builder
	for i := 0; i < n; i++ {
		b.WriteString(atoms[r.IntN(len(atoms))])
	}
	return b.String()
}

// RandNum draws from small integers, negatives, quarter fractions and a few
// larger magnitudes; every value has a short exact decimal rendering.
func RandNum(r *rand.Rand) float64 {
	switch r.IntN(10) {
	case 0, 1, 2, 3:
		return float64(r.IntN(13) - 3)
	case 4, 5:
		return float64(r.IntN(41)-20) / 4
	case 6:
		return float64(r.IntN(2001) - 1000)
	case 7:
		return float64(r.IntN(200001)-100000) / 8
	case 8:
		return float64(r.IntN(11)) * 10
	default:
		return float64(r.IntN(7))
	}
}

type TableSpec struct {
	Name      string
	MaxRows   int
	NumCols   int // numeric columns n1..
	StrCols   int
	BoolCols  int
	NullCols  int // nullable columns z1.. (alternating num / str)
	StrStyle  StrStyle
	MinRows   int
	PoolSize  int // distinct values per column (0 = 2..5)
	ColPrefix string
}

// RandTable builds a table with heavy value duplication.
func RandTable(r *rand.Rand, sp TableSpec) *Table {
	t := &Table{Name: sp.Name, Pools: map[string][]any{}}
	pfx := sp.ColPrefix
	for i := 1; i <= sp.NumCols; i++ {
		t.Cols = append(t.Cols, Col{pfx + "n" + strconv.Itoa(i), KNum})
	}
	for i := 1; i <= sp.StrCols; i++ {
		t.Cols = append(t.Cols, Col{pfx + "s" + strconv.Itoa(i), KStr})
	}
	for i := 1; i <= sp.BoolCols; i++ {
		t.Cols = append(t.Cols, Col{pfx + "b" + strconv.Itoa(i), KBool})
	}
	for i := 1; i <= sp.NullCols; i++ {
		k := KNullNum
		if i%2 == 0 {
			k = KNullStr
		}
		t.Cols = append(t.Cols, Col{pfx + "z" + strconv.Itoa(i), k})
	}
	for _, c := range t.Cols {
		ps := sp.PoolSize
		if ps == 0 {
			ps = 2 + r.IntN(4)
		}
		var pool []any
		seen := map[any]bool{}
		for tries := 0; len(pool) < ps && tries < 50; tries++ {
			var v any
			switch c.Kind {
			case KNum, KNullNum:
				v = RandNum(r)
			case KStr, KNullStr:
				v = RandString(r, sp.StrStyle, 3)
			case KBool:
				v = r.IntN(2) == 0
			}
			if !seen[v] {
				seen[v] = true
				pool = append(pool, v)
			}
		}
		t.Pools[c.Name] = pool
	}
	n := sp.MinRows
	if sp.MaxRows > sp.MinRows {
		// bias towards small tables but cover 0 and max
		switch r.IntN(8) {
		case 0:
			n = sp.MinRows
		case 1:
			n = sp.MaxRows
		default:
			n = sp.MinRows + r.IntN(sp.MaxRows-sp.MinRows+1)
		}
	}
	for i := 0; i < n; i++ {
		row := map[string]any{"rid": float64(i)}
		for _, c := range t.Cols {
			pool := t.Pools[c.Name]
			v := pool[r.IntN(len(pool))]
			switch c.Kind {
			case KNullNum, KNullStr:
				switch r.IntN(4) {
				case 0:
					row[c.Name] = nil
				case 1:
					// missing key
				default:
					row[c.Name] = v
				}
			default:
				row[c.Name] = v
			}
		}
		t.Rows = append(t.Rows, row)
	}
	return t
}

// ---------------------------------------------------------------------------
// Literal rendering (MySQL dialect as read by the parser genql uses)

// SQLString renders a string literal. style 0 doubles the quote, style 1 uses
// a backslash escape; backslashes are always doubled.
func SQLString(s string, style int) string {
	var b strings.Builder
	b.WriteByte('\'')
	for i := 0; i < len(s); i++ {
		ch := s[i]
		switch ch {
		case '\\':
			b.WriteString(`\\`)
		case '\'':
			if style == 1 {
				b.WriteString(`\'`)
			} else {
				b.WriteString(`''`)
			}
		default:
			b.WriteByte(ch)
		}
	}
	b.WriteByte('\'')
	return b.String()
}

// SQLNum renders a number without exponent.
func SQLNum(f float64) string {
	if f == 0 {
		return "0"
	}
	return strconv.FormatFloat(f, 'f', -1, 64)
}

// SQLLit renders a JSON scalar as a literal.
func SQLLit(v any, style int) string {
	switch t := v.(type) {
	case nil:
		return "NULL"
	case bool:
		if t {
			return "true"
		}
		return "false"
	case float64:
		return SQLNum(t)
	case int:
		return strconv.Itoa(t)
	case string:
		return SQLString(t, style)
	}
	return "NULL"
}

// Ident renders an identifier: bare, back-ticked or double-quoted.
type Quoting int

const (
	QBare Quoting = iota
	QBacktick
	QDouble
)

func Ident(name string, q Quoting) string {
	switch q {
	case QBacktick:
		return "`" + strings.ReplaceAll(name, "`", "``") + "`"
	case QDouble:
		// a backslash of the name is written twice (it escapes the character
		// behind it), a quote of the name doubled
		return `"` + strings.ReplaceAll(strings.ReplaceAll(name, `\`, `\\`), `"`, `""`) + `"`
	}
	// a name that is not made of word characters (and dots) cannot be written bare
	for _, r := range name {
		if !(r == '_' || r == '.' || r >= '0' && r <= '9' || r >= 'a' && r <= 'z' || r >= 'A' && r <= 'Z') {
			return "`" + name + "`"
		}
	}
	return name
}

func Pick[T any](r *rand.Rand, xs []T) T { return xs[r.IntN(len(xs))] }
