package gen

import (
	"math/rand/v2"
	"strconv"
	"strings"
)

// Predicate AST (the WHERE grammar of property C01).
type Pred interface{ isPred() }

type Operand struct {
	Col   string // column name when IsCol
	IsCol bool
	Lit   any // literal value otherwise
}

type Cmp struct {
	L, R Operand
	Op   string // = != < <= > >=
}
type And struct{ A, B Pred }
type Or struct{ A, B Pred }
type Not struct{ A Pred }
type In struct {
	Col   string
	Items []any
	Neg   bool
}
type InSub struct {
	Col      string
	Table    string // other table, addressed as `<-Table`
	OtherCol string
	// CorrOuter / CorrInner, when set, correlate the subquery to the current
	// row: ... WHERE CorrInner = `<-CorrOuter`
	CorrOuter, CorrInner string
	// TopN > 0: the subquery is ORDER BY OtherCol [DESC] LIMIT TopN
	TopN int
	Desc bool
}

func (t InSub) topN(o RenderOpts) string {
	if t.TopN <= 0 {
		return ""
	}
	o.feat("in.subquery.topn")
	dir := ""
	if t.Desc {
		dir = " DESC"
	}
	return " ORDER BY " + Ident(t.OtherCol, QBare) + dir + " LIMIT " + strconv.Itoa(t.TopN)
}

type Between struct {
	Col    string
	Lo, Hi any
	Neg    bool
}

// BetweenCols is a range check whose bounds are columns (x.price BETWEEN y.lo AND y.hi).
type BetweenCols struct {
	Col, Lo, Hi string
	Neg         bool
}

type Like struct {
	Col     string
	Pattern string
	Neg     bool
}
type IsNull struct {
	Col string
	Neg bool
}
type IsBool struct {
	Col string
	Val bool // IS TRUE / IS FALSE
	Neg bool // IS NOT ...
}
type True struct{} // the constant predicate `true = true`, rarely used

func (Cmp) isPred()         {}
func (And) isPred()         {}
func (Or) isPred()          {}
func (Not) isPred()         {}
func (In) isPred()          {}
func (InSub) isPred()       {}
func (Between) isPred()     {}
func (BetweenCols) isPred() {}
func (Like) isPred()        {}
func (IsNull) isPred()      {}
func (IsBool) isPred()      {}

// RenderOpts control the SQL text of a predicate / query.
type RenderOpts struct {
	Quote     Quoting // identifier quoting
	StrStyle  int     // 0: '' ; 1: \'
	Qualifier string  // optional table alias prefix for columns ("x" -> x.col)
	// Features collects the grammar features rendered.
	Features *[]string
	// MinParens renders AND/OR/NOT with only the parentheses that standard
	// precedence requires (NOT > AND > OR); otherwise fully parenthesised.
	MinParens bool
	// BarePaths renders nested paths unquoted (o1.q.r) instead of back-ticked.
	BarePaths bool
	// ColText overrides the rendering of specific column names (used for
	// pseudo-columns such as aggregate calls in HAVING).
	ColText map[string]string
	// NumText overrides the spelling of specific numeric constants (1.5 as
	// "1.50", 1000000 as "1e6", 7 as "007").
	NumText map[float64]string
}

// Lit renders a constant.
func (o RenderOpts) Lit(v any) string {
	if f, ok := v.(float64); ok {
		if t, ok := o.NumText[f]; ok {
			o.feat("const.spelled")
			return t
		}
	}
	return SQLLit(v, o.StrStyle)
}

func (o RenderOpts) feat(f string) {
	if o.Features != nil {
		*o.Features = append(*o.Features, f)
	}
}

func (o RenderOpts) Col(name string) string {
	if t, ok := o.ColText[name]; ok {
		return t
	}
	if o.Qualifier != "" {
		return o.Qualifier + "." + Ident(name, o.Quote)
	}
	return Ident(name, o.Quote)
}

func (o RenderOpts) operand(x Operand) string {
	if x.IsCol {
		return o.Col(x.Col)
	}
	return o.Lit(x.Lit)
}

var opFeat = map[string]string{"=": "eq", "!=": "ne", "<": "lt", "<=": "le", ">": "gt", ">=": "ge"}

// prec: 1 OR, 2 AND, 3 NOT, 4 atom
func predPrec(p Pred) int {
	switch p.(type) {
	case Or:
		return 1
	case And:
		return 2
	case Not:
		return 3
	}
	return 4
}

func RenderPred(p Pred, o RenderOpts) string {
	switch t := p.(type) {
	case Cmp:
		o.feat("op." + opFeat[t.Op])
		switch {
		case t.L.IsCol && t.R.IsCol:
			o.feat("cmp.col-col")
		case t.L.IsCol:
			o.feat("cmp.col-const")
		default:
			o.feat("cmp.const-col")
		}
		return o.operand(t.L) + " " + t.Op + " " + o.operand(t.R)
	case And:
		o.feat("and")
		return wrap(t.A, 2, o) + " AND " + wrap(t.B, 2, o)
	case Or:
		o.feat("or")
		return wrap(t.A, 1, o) + " OR " + wrap(t.B, 1, o)
	case Not:
		o.feat("not")
		// NOT binds looser than comparison operators in MySQL, so NOT <atom>
		// needs no parentheses; keep them unless MinParens.
		if o.MinParens && predPrec(t.A) >= 3 {
			return "NOT " + RenderPred(t.A, o)
		}
		return "NOT (" + RenderPred(t.A, o) + ")"
	case In:
		items := make([]string, len(t.Items))
		for i, it := range t.Items {
			items[i] = o.Lit(it)
		}
		if t.Neg {
			o.feat("notin")
			return o.Col(t.Col) + " NOT IN (" + strings.Join(items, ", ") + ")"
		}
		o.feat("in")
		return o.Col(t.Col) + " IN (" + strings.Join(items, ", ") + ")"
	case InSub:
		o.feat("in.subquery")
		if t.CorrOuter != "" {
			o.feat("in.subquery.correlated")
			outer := t.CorrOuter
			// inside a selector a key that is not a plain word is a quoted key
			for _, r := range outer {
				if !(r == '_' || r >= '0' && r <= '9' || r >= 'a' && r <= 'z' || r >= 'A' && r <= 'Z') {
					outer = "'" + outer + "'"
					break
				}
			}
			if o.Qualifier != "" {
				outer = o.Qualifier + "." + outer // under an alias the outer row is {alias: row}
			}
			return o.Col(t.Col) + " IN (SELECT " + Ident(t.OtherCol, QBare) + " FROM `<-" + t.Table + "` WHERE " + t.CorrInner + " = `<-" + outer + "`" + t.topN(o) + ")"
		}
		return o.Col(t.Col) + " IN (SELECT " + Ident(t.OtherCol, QBare) + " FROM `<-" + t.Table + "`" + t.topN(o) + ")"
	case Between:
		if t.Neg {
			o.feat("notbetween")
			return o.Col(t.Col) + " NOT BETWEEN " + o.Lit(t.Lo) + " AND " + o.Lit(t.Hi)
		}
		o.feat("between")
		return o.Col(t.Col) + " BETWEEN " + o.Lit(t.Lo) + " AND " + o.Lit(t.Hi)
	case BetweenCols:
		o.feat("between.cols")
		not := ""
		if t.Neg {
			not = "NOT "
		}
		return o.Col(t.Col) + " " + not + "BETWEEN " + o.Col(t.Lo) + " AND " + o.Col(t.Hi)
	case Like:
		if t.Neg {
			o.feat("notlike")
			return o.Col(t.Col) + " NOT LIKE " + SQLString(t.Pattern, o.StrStyle)
		}
		o.feat("like")
		return o.Col(t.Col) + " LIKE " + SQLString(t.Pattern, o.StrStyle)
	case IsNull:
		if t.Neg {
			o.feat("isnotnull")
			return o.Col(t.Col) + " IS NOT NULL"
		}
		o.feat("isnull")
		return o.Col(t.Col) + " IS NULL"
	case IsBool:
		s := o.Col(t.Col) + " IS "
		if t.Neg {
			s += "NOT "
		}
		if t.Val {
			o.feat("istrue")
			return s + "TRUE"
		}
		o.feat("isfalse")
		return s + "FALSE"
	}
	return "true = true"
}

func wrap(p Pred, parentPrec int, o RenderOpts) string {
	s := RenderPred(p, o)
	if o.MinParens {
		if predPrec(p) < parentPrec {
			return "(" + s + ")"
		}
		return s
	}
	if predPrec(p) < 4 {
		return "(" + s + ")"
	}
	return s
}

// ---------------------------------------------------------------------------
// Predicate generation

type PredGen struct {
	R        *rand.Rand
	T        *Table
	Other    *Table // optional: target of IN (SELECT ...)
	MaxDepth int
	// Force, when non-empty, is an atom kind that must appear at least once
	// (systematic prefix of a batch).
	Force string
	// NoLike etc. allow properties to restrict the grammar.
	Disable map[string]bool
	// Correlate allows IN-subqueries whose WHERE reaches back to the current row.
	Correlate bool
	// TopN allows IN-subqueries with ORDER BY ... LIMIT n of their own.
	TopN bool
	// HugeConsts adds numeric constants around the ends of the 64-bit integer ranges.
	HugeConsts bool
	// LikeNoSpecial restricts LIKE patterns to letters, digits, space, % and _
	LikeNoSpecial bool
}

var AtomKinds = []string{"cmp.col-const", "cmp.const-col", "cmp.col-col", "in", "notin", "in.subquery",
	"between", "notbetween", "like", "notlike", "isnull", "isnotnull", "istrue", "isfalse", "booleq"}

func (g *PredGen) neighbour(v any) any {
	switch t := v.(type) {
	case float64:
		switch g.R.IntN(5) {
		case 0:
			return t + 1
		case 1:
			return t - 1
		case 2:
			return t + 0.5
		default:
			return t
		}
	case string:
		switch g.R.IntN(6) {
		case 0:
			return t + "a"
		case 1:
			if len(t) > 0 {
				return t[:len(t)-1]
			}
			return t
		case 2:
			return strings.ToUpper(t)
		default:
			return t
		}
	}
	return v
}

// constFor returns a constant of the column's kind, usually one of (or next
// to) the column's own values so that boundaries are hit.
func (g *PredGen) constFor(c Col) any {
	pool := g.T.Pools[c.Name]
	if len(pool) > 0 && g.R.IntN(5) > 0 {
		v := pool[g.R.IntN(len(pool))]
		if !validUTF8NoNul(v) {
			return v
		}
		return g.neighbour(v)
	}
	switch c.Kind {
	case KNum, KNullNum:
		if g.HugeConsts && g.R.IntN(3) == 0 {
			// around the ends of the 64-bit integer ranges
			return Pick(g.R, []float64{9223372036854775808, -9223372036854775808, 18446744073709551616, 1e19, -1e19, 9223372036854774784})
		}
		return RandNum(g.R)
	case KStr, KNullStr:
		return RandString(g.R, Hostile, 3)
	}
	return true
}

func validUTF8NoNul(v any) bool {
	s, ok := v.(string)
	if !ok {
		return true
	}
	return !strings.ContainsRune(s, 0)
}

func (g *PredGen) scalarCols() []Col { return g.T.ColsOf(KNum, KStr) }

func (g *PredGen) atom(kind string) Pred {
	r := g.R
	ops := []string{"=", "!=", "<", "<=", ">", ">="}
	sc := g.scalarCols()
	switch kind {
	case "cmp.col-const":
		c := Pick(r, sc)
		return Cmp{Operand{Col: c.Name, IsCol: true}, Operand{Lit: g.constFor(c)}, Pick(r, ops)}
	case "cmp.const-col":
		c := Pick(r, sc)
		return Cmp{Operand{Lit: g.constFor(c)}, Operand{Col: c.Name, IsCol: true}, Pick(r, ops)}
	case "cmp.col-col":
		c := Pick(r, sc)
		same := g.T.ColsOf(c.Kind)
		d := Pick(r, same)
		return Cmp{Operand{Col: c.Name, IsCol: true}, Operand{Col: d.Name, IsCol: true}, Pick(r, ops)}
	case "in", "notin":
		c := Pick(r, sc)
		n := 1 + r.IntN(6)
		items := make([]any, n)
		for i := range items {
			items[i] = g.constFor(c)
		}
		return In{Col: c.Name, Items: items, Neg: kind == "notin"}
	case "in.subquery":
		if g.Other == nil {
			return g.atom("in")
		}
		c := Pick(r, sc)
		oc := g.Other.ColsOf(c.Kind)
		if len(oc) == 0 {
			return g.atom("in")
		}
		is := InSub{Col: c.Name, Table: g.Other.Name, OtherCol: Pick(r, oc).Name}
		if g.Correlate && r.IntN(2) == 0 {
			// correlate on a string column of both tables
			if a, b := g.T.ColsOf(KStr), g.Other.ColsOf(KStr); len(a) > 0 && len(b) > 0 {
				is.CorrOuter, is.CorrInner = Pick(r, a).Name, Pick(r, b).Name
			}
		}
		if g.TopN && r.IntN(3) == 0 {
			is.TopN, is.Desc = 1+r.IntN(4), r.IntN(2) == 0
		}
		return is
	case "between", "notbetween":
		c := Pick(r, sc)
		return Between{Col: c.Name, Lo: g.constFor(c), Hi: g.constFor(c), Neg: kind == "notbetween"}
	case "like", "notlike":
		cs := g.T.ColsOf(KStr)
		if len(cs) == 0 {
			return g.atom("cmp.col-const")
		}
		c := Pick(r, cs)
		return Like{Col: c.Name, Pattern: g.likePattern(c), Neg: kind == "notlike"}
	case "isnull", "isnotnull":
		cs := g.T.ColsOf(KNullNum, KNullStr)
		if len(cs) == 0 {
			return g.atom("cmp.col-const")
		}
		return IsNull{Col: Pick(r, cs).Name, Neg: kind == "isnotnull"}
	case "istrue", "isfalse":
		cs := g.T.ColsOf(KBool)
		if len(cs) == 0 {
			return g.atom("cmp.col-const")
		}
		return IsBool{Col: Pick(r, cs).Name, Val: kind == "istrue", Neg: r.IntN(2) == 0}
	case "booleq":
		cs := g.T.ColsOf(KBool)
		if len(cs) == 0 {
			return g.atom("cmp.col-const")
		}
		op := "="
		if r.IntN(3) == 0 {
			op = "!="
		}
		return Cmp{Operand{Col: Pick(r, cs).Name, IsCol: true}, Operand{Lit: r.IntN(2) == 0}, op}
	}
	return g.atom("cmp.col-const")
}

// likePattern derives a pattern from one of the column's values: keep runs,
// replace runs by % or single runes by _, change ASCII case; or a random one.
// Never contains a backslash (MySQL's \% escape is outside the property).
func (g *PredGen) likePattern(c Col) string {
	r := g.R
	pool := g.T.Pools[c.Name]
	var base string
	if len(pool) > 0 && r.IntN(6) > 0 {
		base, _ = pool[r.IntN(len(pool))].(string)
	} else {
		base = RandString(r, Hostile, 3)
	}
	if g.LikeNoSpecial {
		base = strings.Map(func(x rune) rune {
			if x == ' ' || x == '%' || x == '_' || (x >= '0' && x <= '9') || (x >= 'a' && x <= 'z') || (x >= 'A' && x <= 'Z') {
				return x
			}
			return -1
		}, base)
	}
	runes := []rune(base)
	var b strings.Builder
	// overlapping prefix%suffix: both parts come from the same value and share
	// characters (v = "aba" -> "ab%ba"), so a matcher that tests prefix and
	// suffix independently accepts values that are too short
	if len(runes) >= 1 && r.IntN(6) == 0 {
		j := 1 + r.IntN(len(runes))
		i := r.IntN(j)
		pat := string(runes[:j]) + "%" + string(runes[i:])
		if r.IntN(3) == 0 {
			pat = string(runes[:j]) + "%" + string(runes[:j])
		}
		return strings.ReplaceAll(pat, "\\", "")
	}
	switch r.IntN(8) {
	case 0:
		// verbatim (metacharacters literal, existing % and _ act as wildcards)
		b.WriteString(base)
	case 1:
		b.WriteString("%")
	case 2:
		b.WriteString("")
	default:
		if r.IntN(3) == 0 {
			b.WriteString("%")
		}
		for _, x := range runes {
			switch r.IntN(7) {
			case 0:
				b.WriteString("_")
			case 1:
				b.WriteString("%")
			case 2:
				// flip ASCII case
				if x >= 'a' && x <= 'z' {
					x -= 32
				} else if x >= 'A' && x <= 'Z' {
					x += 32
				}
				b.WriteRune(x)
			case 3:
				// drop
			default:
				b.WriteRune(x)
			}
		}
		if r.IntN(3) == 0 {
			b.WriteString("%")
		}
	}
	return strings.ReplaceAll(b.String(), "\\", "")
}

// Atom builds one atom of the given kind.
func (g *PredGen) Atom(kind string) Pred { return g.atom(kind) }

func (g *PredGen) enabledAtoms() []string {
	var out []string
	for _, k := range AtomKinds {
		if !g.Disable[k] {
			out = append(out, k)
		}
	}
	return out
}

// Gen builds a predicate of depth <= MaxDepth containing Force at least once.
func (g *PredGen) Gen() Pred {
	atoms := g.enabledAtoms()
	forced := g.Force == ""
	var rec func(d int) Pred
	rec = func(d int) Pred {
		r := g.R
		if d <= 0 || r.IntN(3) == 0 {
			if !forced && contains(AtomKinds, g.Force) {
				forced = true
				return g.atom(g.Force)
			}
			return g.atom(Pick(r, atoms))
		}
		switch r.IntN(5) {
		case 0, 1:
			return And{rec(d - 1), rec(d - 1)}
		case 2, 3:
			return Or{rec(d - 1), rec(d - 1)}
		default:
			return Not{rec(d - 1)}
		}
	}
	d := g.MaxDepth
	if d > 0 {
		d = g.R.IntN(g.MaxDepth + 1)
	}
	p := rec(d)
	if !forced {
		// depth 0 tree whose single atom was not the forced one
		var f Pred
		switch g.Force {
		case "and":
			f = And{p, g.atom(Pick(g.R, atoms))}
		case "or":
			f = Or{p, g.atom(Pick(g.R, atoms))}
		case "not":
			f = Not{p}
		default:
			f = And{p, g.atom(g.Force)}
			if g.R.IntN(2) == 0 {
				f = Or{g.atom(g.Force), p}
			}
		}
		return f
	}
	return p
}

func contains(xs []string, s string) bool {
	for _, x := range xs {
		if x == s {
			return true
		}
	}
	return false
}
