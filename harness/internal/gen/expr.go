package gen

import (
	"math/rand/v2"
	"strconv"
	"strings"
)

// Numeric / value expression AST (the select-list grammar of property C02).
type Expr interface{ isExpr() }

type NumLit struct{ V float64 }
type StrLit struct{ S string }
type NullLit struct{}
type BoolLit struct{ B bool }
type ColRef struct {
	Name string // key, or dotted nested path (o1.p)
}
type Bin struct {
	Op   string // + - * / DIV % & | ^ << >>
	L, R Expr
}
type Neg struct{ E Expr }    // unary -
type BitNot struct{ E Expr } // unary ~
type Bang struct{ P Pred }   // !(predicate)
type When struct {
	Cond Pred
	Val  Expr
}
type Case struct {
	Whens []When
	Else  Expr // nil: no ELSE
}

func (NumLit) isExpr()  {}
func (StrLit) isExpr()  {}
func (NullLit) isExpr() {}
func (BoolLit) isExpr() {}
func (ColRef) isExpr()  {}
func (Bin) isExpr()     {}
func (Neg) isExpr()     {}
func (BitNot) isExpr()  {}
func (Bang) isExpr()    {}
func (Case) isExpr()    {}

var binFeat = map[string]string{"+": "plus", "-": "minus", "*": "mult", "/": "div", "DIV": "intdiv", "%": "mod",
	"&": "bitand", "|": "bitor", "^": "bitxor", "<<": "shl", ">>": "shr"}

var ArithOps = []string{"+", "-", "*", "/", "DIV", "%", "&", "|", "^", "<<", ">>"}

// RenderExpr renders fully parenthesised (operator precedence is the parser's
// business; the property is about evaluation).
func RenderExpr(e Expr, o RenderOpts) string {
	switch t := e.(type) {
	case NumLit:
		o.feat("lit.num")
		return o.Lit(t.V)
	case StrLit:
		o.feat("lit.str")
		return SQLString(t.S, o.StrStyle)
	case NullLit:
		o.feat("lit.null")
		return "NULL"
	case BoolLit:
		o.feat("lit.bool")
		if t.B {
			return "true"
		}
		return "false"
	case ColRef:
		if strings.Contains(t.Name, ".") {
			o.feat("ref.path")
			if o.BarePaths && o.Qualifier == "" {
				o.feat("ref.path.bare")
				return t.Name
			}
			if o.Qualifier != "" {
				return "`" + o.Qualifier + "." + t.Name + "`"
			}
			return "`" + t.Name + "`"
		}
		o.feat("ref.col")
		return o.Col(t.Name)
	case Bin:
		o.feat("bin." + binFeat[t.Op])
		return "(" + RenderExpr(t.L, o) + " " + t.Op + " " + RenderExpr(t.R, o) + ")"
	case Neg:
		o.feat("un.minus")
		return "-(" + RenderExpr(t.E, o) + ")"
	case BitNot:
		o.feat("un.tilde")
		return "~(" + RenderExpr(t.E, o) + ")"
	case Bang:
		o.feat("un.bang")
		return "!(" + RenderPred(t.P, o) + ")"
	case Case:
		o.feat("case")
		var b strings.Builder
		b.WriteString("CASE")
		for _, w := range t.Whens {
			b.WriteString(" WHEN " + RenderPred(w.Cond, o) + " THEN " + RenderExpr(w.Val, o))
		}
		if t.Else != nil {
			o.feat("case.else")
			b.WriteString(" ELSE " + RenderExpr(t.Else, o))
		} else {
			o.feat("case.noelse")
		}
		b.WriteString(" END")
		return b.String()
	}
	return "NULL"
}

// ExprGen generates numeric expression trees over a table's numeric columns.
type ExprGen struct {
	R        *rand.Rand
	T        *Table
	PG       *PredGen // for CASE conditions and !(…)
	MaxDepth int
	// NumRefs are the numeric references available (columns and nested paths);
	// NullRefs may be NULL or missing.
	NumRefs  []string
	NullRefs []string
	Force    string // feature to force once (bin.*, un.*, case, ref.path, ...)
}

func (g *ExprGen) smallInt() float64 { return float64(g.R.IntN(9)) }

func (g *ExprGen) leaf() Expr {
	r := g.R
	switch r.IntN(10) {
	case 0, 1, 2:
		return NumLit{RandNum(r)}
	case 3:
		if len(g.NullRefs) > 0 {
			return ColRef{Pick(r, g.NullRefs)}
		}
		fallthrough
	default:
		return ColRef{Pick(r, g.NumRefs)}
	}
}

func (g *ExprGen) intLeaf() Expr {
	r := g.R
	if r.IntN(3) == 0 {
		return NumLit{g.smallInt()}
	}
	return ColRef{Pick(r, g.NumRefs)}
}

func isIntOp(op string) bool {
	switch op {
	case "DIV", "&", "|", "^", "<<", ">>":
		return true
	}
	return false
}

// Gen builds a numeric expression.
func (g *ExprGen) Gen() Expr {
	forced := g.Force == ""
	var rec func(d int) Expr
	rec = func(d int) Expr {
		r := g.R
		if d <= 0 {
			return g.leaf()
		}
		if !forced {
			forced = true
			switch {
			case strings.HasPrefix(g.Force, "bin."):
				for op, f := range binFeat {
					if "bin."+f == g.Force {
						if isIntOp(op) {
							return Bin{op, g.intLeaf(), g.intLeaf()}
						}
						return Bin{op, rec(d - 1), rec(d - 1)}
					}
				}
			case g.Force == "un.minus":
				return Neg{rec(d - 1)}
			case g.Force == "un.tilde":
				return BitNot{g.intLeaf()}
			case g.Force == "case" || g.Force == "case.else" || g.Force == "case.noelse":
				c := Case{Whens: []When{{g.PG.Gen(), rec(d - 1)}}}
				if g.Force != "case.noelse" {
					c.Else = rec(d - 1)
				}
				return c
			case g.Force == "null.operand" && len(g.NullRefs) > 0:
				return Bin{Pick(r, []string{"+", "-", "*", "/"}), ColRef{Pick(r, g.NullRefs)}, rec(d - 1)}
			}
		}
		switch k := r.IntN(12); {
		case k < 6:
			op := Pick(r, ArithOps)
			if (op == "<<" || op == ">>") && r.IntN(6) == 0 {
				// shift counts at and beyond the word size
				return Bin{op, g.intLeaf(), NumLit{float64(Pick(r, []int{64, 65, 70, 100, 128, 1000}))}}
			}
			if isIntOp(op) {
				// integer operators get integer-looking operands most of the time
				if r.IntN(4) > 0 {
					return Bin{op, g.intLeaf(), g.intLeaf()}
				}
			}
			return Bin{op, rec(d - 1), rec(d - 1)}
		case k == 6:
			return Neg{rec(d - 1)}
		case k == 7:
			return BitNot{g.intLeaf()}
		case k == 8 && g.PG != nil:
			n := 1 + r.IntN(2)
			c := Case{}
			for i := 0; i < n; i++ {
				c.Whens = append(c.Whens, When{g.PG.Gen(), rec(d - 1)})
			}
			if r.IntN(2) == 0 {
				c.Else = rec(d - 1)
			}
			return c
		default:
			return g.leaf()
		}
	}
	d := 0
	if g.MaxDepth > 0 {
		d = g.R.IntN(g.MaxDepth + 1)
	}
	if !forced && d == 0 {
		d = 1
	}
	return rec(d)
}

// SelectItem is one item of a select list.
type SelectItem struct {
	Star  bool
	E     Expr
	Alias string // "" for bare column references
}

func RenderItems(items []SelectItem, o RenderOpts) string {
	parts := make([]string, len(items))
	for i, it := range items {
		switch {
		case it.Star:
			o.feat("item.star")
			parts[i] = "*"
		case it.Alias == "":
			o.feat("item.bare")
			parts[i] = RenderExpr(it.E, o)
		default:
			o.feat("item.aliased")
			parts[i] = RenderExpr(it.E, o) + " AS " + Ident(it.Alias, o.Quote)
		}
	}
	return strings.Join(parts, ", ")
}

func AliasN(i int) string { return "c" + strconv.Itoa(i) }
