package fw

import (
	"encoding/json"
	"flag"
	"fmt"
	"os"
	"runtime"
	"runtime/debug"
	"strconv"
	"strings"
	"sync/atomic"
	"time"
)

// Exit codes reserved by the child.
const (
	ExitHang = 98
	// memLimitBytes bounds the live heap of one child process
	memLimitBytes = 3 << 30
	ExitUsage     = 97
)

var (
	curCaseStart atomic.Int64 // unix nanos of the running case's start, 0 when idle
	curCaseIdx   atomic.Int64
)

// ChildMain runs cases [lo,hi) of one phase and writes a ChildResult.
func ChildMain(args []string) int {
	fs := flag.NewFlagSet("child", flag.ContinueOnError)
	prop := fs.String("prop", "", "")
	phase := fs.String("phase", "", "")
	tier := fs.String("tier", "quick", "")
	seed := fs.Int64("seed", 1, "")
	lo := fs.Int("lo", 0, "")
	hi := fs.Int("hi", 0, "")
	skip := fs.String("skip", "", "comma separated indices to skip")
	out := fs.String("out", "", "")
	progress := fs.String("progress", "", "")
	findings := fs.String("findings", "", "")
	caseTimeout := fs.Int("case-timeout", 60, "seconds")
	if err := fs.Parse(args); err != nil {
		return ExitUsage
	}
	p := Lookup(*prop)
	if p == nil {
		fmt.Fprintf(os.Stderr, "unknown property %q\n", *prop)
		return ExitUsage
	}
	kf, err := LoadFindings(*findings)
	if err != nil {
		fmt.Fprintf(os.Stderr, "findings: %v\n", err)
		return ExitUsage
	}
	skipSet := map[int]bool{}
	for _, s := range strings.Split(*skip, ",") {
		if s == "" {
			continue
		}
		n, _ := strconv.Atoi(s)
		skipSet[n] = true
	}
	var prog *os.File
	if *progress != "" {
		prog, err = os.OpenFile(*progress, os.O_CREATE|os.O_WRONLY|os.O_APPEND, 0o644)
		if err != nil {
			fmt.Fprintf(os.Stderr, "progress: %v\n", err)
			return ExitUsage
		}
		defer prog.Close()
	}
	// watchdog (wall clock; its firing is never a verdict by itself)
	go func() {
		limit := time.Duration(*caseTimeout) * time.Second
		for {
			time.Sleep(500 * time.Millisecond)
			st := curCaseStart.Load()
			if st != 0 && time.Since(time.Unix(0, st)) > limit {
				fmt.Fprintf(os.Stderr, "WATCHDOG: case %d did not return within %v\n", curCaseIdx.Load(), limit)
				buf := make([]byte, 1<<20)
				n := runtime.Stack(buf, true)
				os.Stderr.Write(buf[:n])
				os.Exit(ExitHang)
			}
			// memory bound: no case of any check needs more than a fraction of
			// this; a case that reaches it is growing without bound and would
			// take the machine down before the time limit fires
			var ms runtime.MemStats
			runtime.ReadMemStats(&ms)
			if st != 0 && ms.HeapAlloc > memLimitBytes {
				fmt.Fprintf(os.Stderr, "WATCHDOG: case %d holds %d MiB of heap (limit %d MiB)\n", curCaseIdx.Load(), ms.HeapAlloc>>20, memLimitBytes>>20)
				os.Exit(ExitHang)
			}
		}
	}()

	res := newChildResult(*prop, *phase)
	T := Tier(*tier)

	if *phase == "witness" {
		fl := kf.For(*prop)
		for i := range fl {
			if i < *lo || i >= *hi || skipSet[i] {
				continue
			}
			f := &fl[i]
			c := &Case{Prop: p, Phase: "witness", Tier: T, Seed: *seed, Idx: i, kf: kf,
				R: CaseRand(*prop, "witness", *seed, T, i)}
			if prog != nil {
				fmt.Fprintf(prog, "%d\n", i)
			}
			runGuarded(c, func(c *Case) {
				if p.Witness != nil {
					p.Witness(c, f)
				} else {
					c.Discard("no witness runner")
				}
			})
			c.Feature("witness." + f.Status)
			if f.Status == "open" {
				// an open finding is announced, not counted
				if len(c.viols) > 0 {
					res.Known = append(res.Known, fmt.Sprintf("KNOWN-FINDING: property=%s %s [%s]", f.Property, f.What, f.ID))
				}
				c.viols = nil
			} else {
				for k := range c.viols {
					c.viols[k].Witness = f.ID
					c.viols[k].Msg = "regression of fixed finding " + f.ID + " (" + f.Line + "): " + c.viols[k].Msg
				}
			}
			res.absorb(c)
		}
		res.Done = true
		return writeResult(*out, res)
	}

	var ph *Phase
	for i := range p.Phases {
		if p.Phases[i].Name == *phase {
			ph = &p.Phases[i]
		}
	}
	if ph == nil {
		fmt.Fprintf(os.Stderr, "unknown phase %q of %s\n", *phase, *prop)
		return ExitUsage
	}
	for i := *lo; i < *hi; i++ {
		if skipSet[i] {
			continue
		}
		c := &Case{Prop: p, Phase: *phase, Tier: T, Seed: *seed, Idx: i, kf: kf,
			R: CaseRand(*prop, *phase, *seed, T, i)}
		if prog != nil {
			fmt.Fprintf(prog, "%d\n", i)
		}
		runGuarded(c, ph.Run)
		res.absorb(c)
		if len(res.Violations) >= 40 {
			break
		}
	}
	res.Done = true
	return writeResult(*out, res)
}

// runGuarded runs one case; a panic that reaches here escaped both genql's API
// and the property's own recover wrappers, and is reported as a violation of
// kind "panic" (for in-domain inputs an escaped panic is never acceptable).
func runGuarded(c *Case, run func(*Case)) {
	curCaseIdx.Store(int64(c.Idx))
	curCaseStart.Store(time.Now().UnixNano())
	defer curCaseStart.Store(0)
	defer func() {
		if r := recover(); r != nil {
			c.discard = ""
			c.Violate("panic", fmt.Sprintf("panic escaped to the caller: %v", r),
				map[string]any{"stack": firstLines(string(debug.Stack()), 40), "sample": c.sample})
		}
	}()
	run(c)
}

func writeResult(path string, res *ChildResult) int {
	b, err := json.Marshal(res)
	if err != nil {
		fmt.Fprintf(os.Stderr, "marshal result: %v\n", err)
		return ExitUsage
	}
	if path == "" {
		os.Stdout.Write(b)
		return 0
	}
	tmp := path + ".tmp"
	if err := os.WriteFile(tmp, b, 0o644); err != nil {
		fmt.Fprintf(os.Stderr, "write result: %v\n", err)
		return ExitUsage
	}
	if err := os.Rename(tmp, path); err != nil {
		return ExitUsage
	}
	return 0
}
