// Package fw is the monitoring framework: property registry, per-case context,
// crash-isolated child loop, parent orchestration, evidence and replay files,
// known-findings handling.
package fw

import (
	"encoding/json"
	"fmt"
	"math/rand/v2"
	"os"
	"sort"
	"strings"
	"sync"
)

type Tier string

const (
	Quick    Tier = "quick"
	Thorough Tier = "thorough"
)

// Phase is one workload of a property. Every case of a phase is a pure
// function of (property, phase, VERIF_SEED, tier, index).
type Phase struct {
	Name string
	// Race: run this phase in the -race child under GORACE log capture.
	Race bool
	// N returns the number of cases for a tier.
	N func(t Tier) int
	// Run executes case c (generation + real execution + oracle).
	Run func(c *Case)
	// Batch is the number of cases per child process (0 = automatic).
	Batch int
	// Serial phases run one child at a time (they use all cores themselves).
	Serial bool
	// RaceInfoOnly: the phase runs under the race detector only to make
	// crashes such as concurrent map access more likely to surface; data-race
	// reports are counted in the evidence but are not violations of this
	// property (they belong to C13).
	RaceInfoOnly bool
}

type Prop struct {
	ID          string
	Title       string
	Level       string // exploration | fault_enumeration
	Rule        string // how cases are generated and what makes one non-trivial
	Assumptions []string
	Phases      []Phase
	// Floor lists features every run must have exercised (else inconclusive).
	Floor []string
	// MinNontrivial is the floor for distinct non-trivial cases.
	MinNontrivial int
	// Witness runs one known-findings witness (open or fixed); it reports a
	// violation on c when the witness input still misbehaves.
	Witness func(c *Case, w *Finding)
	// Exhaustive marks a property whose domain is enumerated completely.
	Exhaustive bool
}

var registry = map[string]*Prop{}

func Register(p *Prop) {
	if _, dup := registry[p.ID]; dup {
		panic("duplicate property " + p.ID)
	}
	registry[p.ID] = p
}

func Lookup(id string) *Prop { return registry[id] }

func IDs() []string {
	out := make([]string, 0, len(registry))
	for k := range registry {
		out = append(out, k)
	}
	sort.Strings(out)
	return out
}

// ---------------------------------------------------------------------------

type Violation struct {
	Prop   string         `json:"property"`
	Phase  string         `json:"phase"`
	Tier   Tier           `json:"tier"`
	Seed   int64          `json:"seed"`
	Idx    int            `json:"index"`
	Kind   string         `json:"kind"`
	Msg    string         `json:"message"`
	Detail map[string]any `json:"detail,omitempty"`
	// Witness is set when the violation comes from a known-findings witness.
	Witness string `json:"witness,omitempty"`
}

// Case is the per-case context handed to Phase.Run.
type Case struct {
	Prop  *Prop
	Phase string
	Tier  Tier
	Seed  int64
	Idx   int
	R     *rand.Rand

	feats      []string
	nontrivKey string
	viols      []Violation
	discard    string
	sample     any
	evals      int
	counters   map[string]int
	sets       map[string]map[string]bool
	kf         *Findings
	mu         sync.Mutex
}

// Feature records that the case exercised a grammar feature.
func (c *Case) Feature(f ...string) {
	c.mu.Lock()
	c.feats = append(c.feats, f...)
	c.mu.Unlock()
}

// Nontrivial marks the case as non-trivial; key identifies it for the
// distinct count (usually the canonical text of the input).
func (c *Case) Nontrivial(key string) { c.nontrivKey = key }

// Evals adds oracle decisions made (a case with no call counts as 1).
func (c *Case) Evals(n int) { c.mu.Lock(); c.evals += n; c.mu.Unlock() }

// Discard marks the case as out of domain (counted, not judged).
func (c *Case) Discard(reason string) { c.discard = reason }
func (c *Case) Discarded() bool       { return c.discard != "" }

// Sample stores a human-readable rendering of the case for the evidence.
func (c *Case) Sample(s any) { c.sample = s }

func (c *Case) Count(name string, n int) {
	c.mu.Lock()
	if c.counters == nil {
		c.counters = map[string]int{}
	}
	c.counters[name] += n
	c.mu.Unlock()
}

// SetAdd adds an element to a named set whose cardinality is reported in the
// evidence (distinct schedules, distinct output orders, ...).
func (c *Case) SetAdd(name, elem string) {
	c.mu.Lock()
	if c.sets == nil {
		c.sets = map[string]map[string]bool{}
	}
	if c.sets[name] == nil {
		c.sets[name] = map[string]bool{}
	}
	c.sets[name][elem] = true
	c.mu.Unlock()
}

// Violate records a violation of the property on this case.
func (c *Case) Violate(kind, msg string, detail map[string]any) {
	c.mu.Lock()
	defer c.mu.Unlock()
	if len(c.viols) >= 3 {
		return
	}
	c.viols = append(c.viols, Violation{
		Prop: c.Prop.ID, Phase: c.Phase, Tier: c.Tier, Seed: c.Seed, Idx: c.Idx,
		Kind: kind, Msg: msg, Detail: detail,
	})
}

func (c *Case) Violated() bool { return len(c.viols) > 0 }

// Quarantined reports whether a generator feature is excluded because an open
// known finding covers it.
func (c *Case) Quarantined(feature string) bool {
	if c.kf == nil {
		return false
	}
	return c.kf.quarantine[c.Prop.ID+"/"+feature]
}

// Pick helpers on the case PRNG.
func (c *Case) Intn(n int) int {
	if n <= 0 {
		return 0
	}
	return c.R.IntN(n)
}
func (c *Case) Chance(p float64) bool { return c.R.Float64() < p }

// CaseRand derives the PRNG of one case.
func CaseRand(prop, phase string, seed int64, tier Tier, idx int) *rand.Rand {
	h := uint64(14695981039346656037)
	mix := func(s string) {
		for i := 0; i < len(s); i++ {
			h ^= uint64(s[i])
			h *= 1099511628211
		}
		h ^= 0xff
		h *= 1099511628211
	}
	mix(prop)
	mix(phase)
	mix(string(tier))
	s1 := h ^ (uint64(seed) * 0x9E3779B97F4A7C15)
	s2 := (uint64(idx)+1)*0xBF58476D1CE4E5B9 ^ h>>7
	return rand.New(rand.NewPCG(s1, s2))
}

// ---------------------------------------------------------------------------
// Known findings

type Finding struct {
	Property string `json:"property"`
	ID       string `json:"id"`
	Status   string `json:"status"` // open | fixed
	Commit   string `json:"commit,omitempty"`
	What     string `json:"what"`
	// Line is the human-readable record demanded by the brief for fixed
	// entries: "fixed: property=<id> <commit> <what failed>".
	Line       string   `json:"line,omitempty"`
	Quarantine []string `json:"quarantine,omitempty"`
	// Witness: the specific input that fails (open) / failed (fixed).
	Kind    string         `json:"kind"` // rows | multiset | error | noerror | value | custom
	Doc     any            `json:"doc,omitempty"`
	SQL     string         `json:"sql,omitempty"`
	Options []string       `json:"options,omitempty"`
	Expect  any            `json:"expect,omitempty"`
	Extra   map[string]any `json:"extra,omitempty"`
}

type Findings struct {
	All        []Finding `json:"findings"`
	quarantine map[string]bool
}

func LoadFindings(path string) (*Findings, error) {
	f := &Findings{quarantine: map[string]bool{}}
	b, err := os.ReadFile(path)
	if err != nil {
		if os.IsNotExist(err) {
			return f, nil
		}
		return nil, err
	}
	if err := json.Unmarshal(b, f); err != nil {
		return nil, fmt.Errorf("%s: %v", path, err)
	}
	for _, x := range f.All {
		if x.Status == "open" {
			for _, q := range x.Quarantine {
				f.quarantine[x.Property+"/"+q] = true
			}
		}
	}
	return f, nil
}

func (f *Findings) For(prop string) []Finding {
	var out []Finding
	for _, x := range f.All {
		if x.Property == prop {
			out = append(out, x)
		}
	}
	return out
}

// ---------------------------------------------------------------------------
// Child result

type ChildResult struct {
	Prop       string                    `json:"property"`
	Phase      string                    `json:"phase"`
	Lo, Hi     int                       `json:"-"`
	Cases      int                       `json:"cases"`
	Evals      int                       `json:"evaluations"`
	Discards   map[string]int            `json:"discards,omitempty"`
	Features   map[string]int            `json:"features,omitempty"`
	Nontrivial []uint64                  `json:"nontrivial_hashes,omitempty"`
	Violations []Violation               `json:"violations,omitempty"`
	Known      []string                  `json:"known,omitempty"`
	Samples    []any                     `json:"samples,omitempty"`
	Counters   map[string]int            `json:"counters,omitempty"`
	Sets       map[string]map[string]bool `json:"sets,omitempty"`
	Done       bool                      `json:"done"`
}

func newChildResult(prop, phase string) *ChildResult {
	return &ChildResult{Prop: prop, Phase: phase,
		Discards: map[string]int{}, Features: map[string]int{}, Counters: map[string]int{},
		Sets: map[string]map[string]bool{}}
}

func (r *ChildResult) absorb(c *Case) {
	r.Cases++
	if c.discard != "" {
		r.Discards[c.discard]++
		for k, v := range c.counters {
			r.Counters[k] += v
		}
		return
	}
	if c.evals == 0 {
		c.evals = 1
	}
	r.Evals += c.evals
	seen := map[string]bool{}
	for _, f := range c.feats {
		if !seen[f] {
			seen[f] = true
			r.Features[f]++
		}
	}
	if c.nontrivKey != "" {
		r.Nontrivial = append(r.Nontrivial, hash64(c.nontrivKey))
	}
	for k, v := range c.counters {
		r.Counters[k] += v
	}
	for k, s := range c.sets {
		if r.Sets[k] == nil {
			r.Sets[k] = map[string]bool{}
		}
		for e := range s {
			if len(r.Sets[k]) < 20000 {
				r.Sets[k][e] = true
			}
		}
	}
	r.Violations = append(r.Violations, c.viols...)
	if c.sample != nil && (len(r.Samples) < 2 || (c.nontrivKey != "" && len(r.Samples) < 4)) {
		r.Samples = append(r.Samples, c.sample)
	}
}

func hash64(s string) uint64 {
	h := uint64(14695981039346656037)
	for i := 0; i < len(s); i++ {
		h ^= uint64(s[i])
		h *= 1099511628211
	}
	return h
}

func tail(s string, n int) string {
	if len(s) <= n {
		return s
	}
	return "…" + s[len(s)-n:]
}

func firstLines(s string, n int) string {
	lines := strings.Split(s, "\n")
	if len(lines) > n {
		lines = lines[:n]
	}
	return strings.Join(lines, "\n")
}
