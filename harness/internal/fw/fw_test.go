package fw

import (
	"os"
	"path/filepath"
	"testing"
)

const raceLib = `==================
WARNING: DATA RACE
Write at 0x00c000012345 by goroutine 51:
  github.com/vedadiyan/genql.(*Join).ParallelJoinFunc.func1()
      /repo/join.go:257 +0x1a8

Previous write at 0x00c000012345 by goroutine 49:
  github.com/vedadiyan/genql.(*Join).ParallelJoinFunc.func1()
      /repo/join.go:257 +0x124

Goroutine 51 (running) created at:
  github.com/vedadiyan/genql.(*Join).ParallelJoinFunc()
      /repo/join.go:242 +0x1c24
==================
`

const raceHarness = `==================
WARNING: DATA RACE
Read at 0x00000102f0a8 by goroutine 986:
  verifharness/props.vfail()
      /verif/harness/props/rich.go:39 +0x47
  github.com/vedadiyan/genql.FunExpr.func4()
      /repo/plsql.go:1533 +0x124

Previous write at 0x00000102f0a8 by main goroutine:
  verifharness/props.armFault()
      /verif/harness/props/rich.go:66 +0x879
  verifharness/props.c10Run()
      /verif/harness/props/c10.go:338 +0x85f
==================
`

func TestParseRaceLogs(t *testing.T) {
	dir := t.TempDir()
	os.WriteFile(filepath.Join(dir, "x.race.1"), []byte(raceLib+raceHarness), 0o644)
	rs := parseRaceLogs(filepath.Join(dir, "x.race"))
	if len(rs) != 2 {
		t.Fatalf("want 2 reports, got %d", len(rs))
	}
	if !rs[0].genql {
		t.Errorf("library race not attributed to the library: %+v", rs[0].key)
	}
	if rs[1].genql {
		t.Errorf("a race between two harness accesses was attributed to the library: %s", rs[1].key)
	}
}

func TestGenqlFatal(t *testing.T) {
	lib := "fatal error: concurrent map read and map write\n\ngoroutine 77 [running]:\ngithub.com/vedadiyan/genql.ExecReader({0x1, 0x2}, {0x3, 0x4})\n\t/repo/selector.go:430 +0x1\n\ngoroutine 1 [semacquire]:\nsync.runtime_Semacquire()\n"
	oom := "fatal error: runtime: out of memory\n\ngoroutine 1 [running]:\nruntime.throw()\nverifharness/internal/val.Canon()\n\ngoroutine 5 [running]:\ngithub.com/vedadiyan/genql.Expr()\n"
	if !genqlFatal(lib) {
		t.Error("library fatal error not recognised")
	}
	if genqlFatal(oom) {
		t.Error("a harness-side fatal error was attributed to the library")
	}
	if genqlFatal("WATCHDOG: case 3 did not return") {
		t.Error("watchdog output is not a fatal error")
	}
}

func TestCaseRandDeterministic(t *testing.T) {
	a := CaseRand("C01", "pred", 1, Quick, 7).Uint64()
	b := CaseRand("C01", "pred", 1, Quick, 7).Uint64()
	c := CaseRand("C01", "pred", 2, Quick, 7).Uint64()
	if a != b || a == c {
		t.Errorf("case PRNG must depend exactly on (property, phase, seed, tier, index): %d %d %d", a, b, c)
	}
}
