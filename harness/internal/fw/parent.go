package fw

import (
	"encoding/json"
	"flag"
	"fmt"
	"os"
	"os/exec"
	"path/filepath"
	"regexp"
	"runtime"
	"sort"
	"strconv"
	"strings"
	"sync"
	"syscall"
	"time"
)

type batch struct {
	phase  *Phase
	name   string
	lo, hi int
	race   bool
}

type batchOutcome struct {
	res      []*ChildResult
	crashes  []Violation
	races    []raceReport
	inconcl  []string
	children int
}

type raceReport struct {
	key   string
	text  string
	genql bool
}

type runner struct {
	p        *Prop
	tier     Tier
	seed     int64
	bin      string
	raceBin  string
	scratch  string
	findings string
	verbose  bool
}

// ParentMain orchestrates one check run. Exit 0 held, 1 violated, 2 inconclusive.
func ParentMain(args []string) int {
	fs := flag.NewFlagSet("run", flag.ContinueOnError)
	prop := fs.String("prop", "", "")
	tierF := fs.String("tier", "", "")
	replay := fs.String("replay", "", "")
	root := fs.String("root", "/verif", "")
	outRoot := fs.String("out", "", "where evidence/ and replays/ are written (default: root)")
	verbose := fs.Bool("v", false, "")
	if err := fs.Parse(args); err != nil {
		return 2
	}
	p := Lookup(*prop)
	if p == nil {
		fmt.Printf("INCONCLUSIVE property=%s reason=unknown property\n", *prop)
		return 2
	}
	tier := Tier(*tierF)
	if tier == "" {
		tier = Tier(os.Getenv("VERIF_TIER"))
	}
	if tier != Thorough {
		tier = Quick
	}
	seed := int64(1)
	if s := os.Getenv("VERIF_SEED"); s != "" {
		if n, err := strconv.ParseInt(s, 10, 64); err == nil {
			seed = n
		}
	}
	scratch, err := os.MkdirTemp("", "verif-"+p.ID+"-")
	if err != nil {
		fmt.Printf("INCONCLUSIVE property=%s reason=scratch dir: %v\n", p.ID, err)
		return 2
	}
	defer os.RemoveAll(scratch)
	r := &runner{p: p, tier: tier, seed: seed,
		bin: os.Getenv("VCHECK_BIN"), raceBin: os.Getenv("VCHECK_RACE_BIN"),
		scratch: scratch, findings: filepath.Join(*root, "known_findings.json"), verbose: *verbose}
	if r.bin == "" {
		r.bin, _ = os.Executable()
	}
	if *replay != "" {
		return r.replay(*replay)
	}
	if *outRoot == "" {
		*outRoot = *root
	}
	return r.run(*outRoot)
}

func (r *runner) needRace() bool {
	for _, ph := range r.p.Phases {
		if ph.Race && ph.N(r.tier) > 0 {
			return true
		}
	}
	return false
}

func (r *runner) run(root string) int {
	start := time.Now()
	p := r.p
	if r.needRace() && r.raceBin == "" {
		fmt.Printf("INCONCLUSIVE property=%s reason=race binary not built\n", p.ID)
		return 2
	}
	kf, err := LoadFindings(r.findings)
	if err != nil {
		fmt.Printf("INCONCLUSIVE property=%s reason=%v\n", p.ID, err)
		return 2
	}
	var batches []batch
	if n := len(kf.For(p.ID)); n > 0 {
		batches = append(batches, batch{name: "witness", lo: 0, hi: n})
	}
	ncpu := runtime.NumCPU()
	for i := range p.Phases {
		ph := &p.Phases[i]
		n := ph.N(r.tier)
		bs := ph.Batch
		if bs == 0 {
			bs = (n + ncpu - 1) / ncpu
			if bs < 1 {
				bs = 1
			}
		}
		for lo := 0; lo < n; lo += bs {
			hi := lo + bs
			if hi > n {
				hi = n
			}
			batches = append(batches, batch{phase: ph, name: ph.Name, lo: lo, hi: hi, race: ph.Race})
		}
	}
	// run batches: non-serial ones in parallel, serial ones afterwards
	outcomes := make([]*batchOutcome, len(batches))
	var wg sync.WaitGroup
	sem := make(chan struct{}, ncpu)
	for i, b := range batches {
		if b.phase != nil && b.phase.Serial {
			continue
		}
		wg.Add(1)
		go func(i int, b batch) {
			defer wg.Done()
			sem <- struct{}{}
			defer func() { <-sem }()
			outcomes[i] = r.runBatch(i, b)
		}(i, b)
	}
	wg.Wait()
	for i, b := range batches {
		if b.phase != nil && b.phase.Serial {
			outcomes[i] = r.runBatch(i, b)
		}
	}

	// merge
	total := newChildResult(p.ID, "*")
	nontriv := map[uint64]bool{}
	var viols []Violation
	var known []string
	var inconcl []string
	children := 0
	perPhase := map[string]map[string]int{}
	raceSeen := map[string]bool{}
	raceReports := 0
	for i, o := range outcomes {
		if o == nil {
			continue
		}
		children += o.children
		inconcl = append(inconcl, o.inconcl...)
		viols = append(viols, o.crashes...)
		for _, rr := range o.races {
			raceReports++
			if raceSeen[rr.key] {
				continue
			}
			raceSeen[rr.key] = true
			if batches[i].phase != nil && batches[i].phase.RaceInfoOnly {
				continue
			}
			if !rr.genql {
				inconcl = append(inconcl, "race report without genql frames (harness bug?): "+firstLines(rr.text, 12))
				continue
			}
			viols = append(viols, Violation{Prop: p.ID, Phase: batches[i].name, Tier: r.tier, Seed: r.seed,
				Idx: batches[i].lo, Kind: "race", Msg: "race detector report: " + rr.key,
				Detail: map[string]any{"report": rr.text, "batch_lo": batches[i].lo, "batch_hi": batches[i].hi}})
		}
		for _, cr := range o.res {
			total.Cases += cr.Cases
			total.Evals += cr.Evals
			pp := perPhase[cr.Phase]
			if pp == nil {
				pp = map[string]int{}
				perPhase[cr.Phase] = pp
			}
			pp["cases"] += cr.Cases
			pp["evaluations"] += cr.Evals
			for k, v := range cr.Discards {
				total.Discards[k] += v
			}
			for k, v := range cr.Features {
				total.Features[k] += v
			}
			for k, v := range cr.Counters {
				total.Counters[k] += v
			}
			for k, s := range cr.Sets {
				if total.Sets[k] == nil {
					total.Sets[k] = map[string]bool{}
				}
				for e := range s {
					total.Sets[k][e] = true
				}
			}
			for _, h := range cr.Nontrivial {
				nontriv[h] = true
			}
			viols = append(viols, cr.Violations...)
			known = append(known, cr.Known...)
			for _, s := range cr.Samples {
				if len(total.Samples) < 6 {
					total.Samples = append(total.Samples, s)
				}
			}
		}
	}
	// coverage floor
	for _, f := range p.Floor {
		if total.Features[f] == 0 && !kf.quarantine[p.ID+"/"+f] {
			inconcl = append(inconcl, "coverage floor: feature never exercised: "+f)
		}
	}
	minNT := p.MinNontrivial
	if minNT < 2 {
		minNT = 2
	}
	if len(nontriv) < minNT {
		inconcl = append(inconcl, fmt.Sprintf("coverage floor: only %d distinct non-trivial cases (need %d)", len(nontriv), minNT))
	}

	// known findings (dedupe)
	sort.Strings(known)
	prev := ""
	for _, k := range known {
		if k != prev {
			fmt.Println(k)
		}
		prev = k
	}

	// violations -> replay files
	sort.SliceStable(viols, func(i, j int) bool {
		if viols[i].Phase != viols[j].Phase {
			if (viols[i].Phase == "witness") != (viols[j].Phase == "witness") {
				return viols[i].Phase == "witness"
			}
			return viols[i].Phase < viols[j].Phase
		}
		return viols[i].Idx < viols[j].Idx
	})
	replayDir := filepath.Join(root, "replays", p.ID)
	// replay files of an earlier run with the same coordinates are stale
	if old, _ := filepath.Glob(filepath.Join(replayDir, fmt.Sprintf("%s-%s-s%d-*.json", p.ID, r.tier, r.seed))); len(old) > 0 {
		for _, f := range old {
			os.Remove(f)
		}
	}
	printed := 0
	kinds := map[string]int{}
	for i := range viols {
		v := &viols[i]
		kinds[v.Kind]++
		if printed >= 20 {
			continue
		}
		os.MkdirAll(replayDir, 0o755)
		name := fmt.Sprintf("%s-%s-s%d-%s-%d-%s.json", p.ID, r.tier, r.seed, v.Phase, v.Idx, safe(v.Kind))
		path := filepath.Join(replayDir, name)
		b, _ := json.MarshalIndent(v, "", " ")
		os.WriteFile(path, b, 0o644)
		fmt.Printf("VIOLATION property=%s replay=%s\n", p.ID, path)
		if r.verbose || printed < 3 {
			fmt.Printf("  kind=%s phase=%s index=%d: %s\n", v.Kind, v.Phase, v.Idx, firstLines(v.Msg, 6))
		}
		printed++
	}

	wall := time.Since(start).Seconds()
	// evidence
	setSizes := map[string]int{}
	for k, s := range total.Sets {
		setSizes[k] = len(s)
	}
	samples := total.Samples
	if len(samples) == 0 {
		samples = []any{"(no sample recorded)"}
	}
	cov := map[string]any{
		"evaluations":         total.Evals,
		"distinct_nontrivial": len(nontriv),
		"rule":                p.Rule,
		"samples":             samples,
		"cases_generated":     total.Cases,
		"discarded_out_of_domain": total.Discards,
		"features":            total.Features,
		"per_phase":           perPhase,
		"counters":            total.Counters,
		"distinct_sets":       setSizes,
		"children_run":        children,
		"race_reports":        raceReports,
		"violation_kinds":     kinds,
		"inconclusive":        inconcl,
		"known_findings_announced": len(uniq(known)),
	}
	if p.Exhaustive {
		cov["exhaustive"] = true
	}
	ev := map[string]any{
		"property_id": p.ID,
		"tier":        string(r.tier),
		"seed":        r.seed,
		"level":       p.Level,
		"coverage":    cov,
		"assumptions": p.Assumptions,
		"wall_s":      wall,
		"violations":  len(viols),
	}
	os.MkdirAll(filepath.Join(root, "evidence"), 0o755)
	eb, _ := json.MarshalIndent(ev, "", " ")
	if err := os.WriteFile(filepath.Join(root, "evidence", p.ID+".json"), eb, 0o644); err != nil {
		inconcl = append(inconcl, "cannot write evidence: "+err.Error())
	}

	fmt.Printf("SUMMARY property=%s tier=%s seed=%d cases=%d evaluations=%d nontrivial=%d violations=%d known=%d children=%d wall=%.1fs\n",
		p.ID, r.tier, r.seed, total.Cases, total.Evals, len(nontriv), len(viols), len(uniq(known)), children, wall)
	if len(viols) > 0 {
		return 1
	}
	if len(inconcl) > 0 {
		for _, s := range uniq(inconcl) {
			fmt.Printf("INCONCLUSIVE property=%s reason=%s\n", p.ID, firstLines(s, 3))
		}
		return 2
	}
	return 0
}

func uniq(s []string) []string {
	m := map[string]bool{}
	var out []string
	for _, x := range s {
		if !m[x] {
			m[x] = true
			out = append(out, x)
		}
	}
	return out
}

func safe(s string) string {
	return regexp.MustCompile(`[^A-Za-z0-9_.-]+`).ReplaceAllString(s, "_")
}

// runBatch runs one child over [lo,hi), restarting after a crash witness.
func (r *runner) runBatch(bi int, b batch) *batchOutcome {
	o := &batchOutcome{}
	var skip []string
	for attempt := 0; attempt < 4; attempt++ {
		tag := fmt.Sprintf("%s-%d-%d", b.name, bi, attempt)
		out := filepath.Join(r.scratch, tag+".json")
		prog := filepath.Join(r.scratch, tag+".prog")
		errf := filepath.Join(r.scratch, tag+".stderr")
		bin := r.bin
		env := os.Environ()
		if b.race {
			bin = r.raceBin
			env = append(env, "GORACE=halt_on_error=0 exitcode=0 log_path="+filepath.Join(r.scratch, tag+".race"))
		}
		timeout := 900
		if r.tier == Thorough {
			timeout = 3600
		}
		args := []string{"child", "-prop", r.p.ID, "-phase", b.name, "-tier", string(r.tier),
			"-seed", strconv.FormatInt(r.seed, 10), "-lo", strconv.Itoa(b.lo), "-hi", strconv.Itoa(b.hi),
			"-skip", strings.Join(skip, ","), "-out", out, "-progress", prog, "-findings", r.findings}
		if b.race {
			// race-built children are several times slower, and a loaded machine
			// slows them further: a generous bound, whose firing is re-checked alone
			args = append(args, "-case-timeout", "180")
		}
		code, timedOut := runChild(bin, args, env, errf, time.Duration(timeout)*time.Second)
		o.children++
		if b.race {
			o.races = append(o.races, parseRaceLogs(filepath.Join(r.scratch, tag+".race"))...)
		}
		var cr ChildResult
		if rb, err := os.ReadFile(out); err == nil && json.Unmarshal(rb, &cr) == nil && cr.Done && code == 0 {
			o.res = append(o.res, &cr)
			return o
		}
		// the child died: attribute to the last case begun
		stderrText := ""
		if eb, err := os.ReadFile(errf); err == nil {
			stderrText = string(eb)
		}
		last := lastProgress(prog)
		if code == ExitUsage {
			o.inconcl = append(o.inconcl, fmt.Sprintf("child usage/setup error in %s: %s", tag, tail(stderrText, 400)))
			return o
		}
		if last < 0 {
			o.inconcl = append(o.inconcl, fmt.Sprintf("child %s died before its first case (exit %d): %s", tag, code, tail(stderrText, 400)))
			return o
		}
		kind := "crash"
		if code == ExitHang || timedOut {
			kind = "hang"
		}
		// confirm by re-running that single case alone
		confirmed, ctext := r.confirm(b, last, tag)
		if confirmed {
			o.crashes = append(o.crashes, Violation{Prop: r.p.ID, Phase: b.name, Tier: r.tier, Seed: r.seed, Idx: last,
				Kind: kind, Msg: fmt.Sprintf("child process died (exit %d) while running this case; reproduced alone", code),
				Detail: map[string]any{"stderr_head": firstLines(stderrText, 60), "stderr_alone": firstLines(ctext, 60)}})
		} else if genqlFatal(stderrText) {
			// a schedule-dependent process death (concurrent map access, a panic in
			// a library goroutine) need not reproduce when the case runs alone; the
			// runtime's own report with library frames is the witness
			o.crashes = append(o.crashes, Violation{Prop: r.p.ID, Phase: b.name, Tier: r.tier, Seed: r.seed, Idx: last,
				Kind: "crash-unreproduced", Msg: fmt.Sprintf("child process died (exit %d) with a Go runtime fatal error / panic in library code; it did not reproduce when the case was re-run alone (schedule-dependent): %s", code, firstLines(stderrText, 3)),
				Detail: map[string]any{"stderr_head": firstLines(stderrText, 80), "batch_lo": b.lo, "batch_hi": b.hi}})
		} else if seq, stext := r.confirmSequence(b, last, skip, tag); seq {
			// the case is harmless alone and fatal after the cases before it: the
			// library carried something from one call to the next (a lock left
			// held, a poisoned cache). Reproduced twice in fresh processes.
			o.crashes = append(o.crashes, Violation{Prop: r.p.ID, Phase: b.name, Tier: r.tier, Seed: r.seed, Idx: last,
				Kind: kind + "-after-sequence", Msg: fmt.Sprintf("child process died (exit %d) while running this case; it does not reproduce alone but reproduces (twice, in fresh processes) when the cases %d..%d of its batch run first in the same process", code, b.lo, last-1),
				Detail: map[string]any{"stderr_head": firstLines(stderrText, 60), "stderr_sequence": firstLines(stext, 60), "batch_lo": b.lo, "batch_hi": b.hi, "skipped": strings.Join(skip, ",")}})
		} else {
			o.inconcl = append(o.inconcl, fmt.Sprintf("child %s died (exit %d) at case %d but the case does not reproduce alone: %s", tag, code, last, firstLines(stderrText, 20)))
		}
		skip = append(skip, strconv.Itoa(last))
	}
	o.inconcl = append(o.inconcl, fmt.Sprintf("batch %s [%d,%d) abandoned after repeated child deaths", b.name, b.lo, b.hi))
	return o
}

// genqlFatal reports whether a dead child's stderr is a Go runtime fatal error
// or goroutine panic whose first stack contains frames of the library.
func genqlFatal(stderr string) bool {
	i := strings.Index(stderr, "fatal error:")
	if j := strings.Index(stderr, "panic:"); j >= 0 && (i < 0 || j < i) {
		i = j
	}
	if i < 0 {
		return false
	}
	rest := stderr[i:]
	// the first goroutine trace ends at the first blank line after "goroutine "
	if g := strings.Index(rest, "goroutine "); g >= 0 {
		end := strings.Index(rest[g:], "\n\n")
		if end < 0 {
			end = len(rest) - g
		}
		return strings.Contains(rest[g:g+end], "github.com/vedadiyan/genql")
	}
	return false
}

func (r *runner) confirm(b batch, idx int, tag string) (bool, string) {
	bin := r.bin
	env := os.Environ()
	if b.race {
		bin = r.raceBin
		env = append(env, "GORACE=halt_on_error=0 exitcode=0 log_path="+filepath.Join(r.scratch, tag+".confirm.race"))
	}
	for i := 0; i < 3; i++ {
		out := filepath.Join(r.scratch, fmt.Sprintf("%s.confirm%d.json", tag, i))
		errf := filepath.Join(r.scratch, fmt.Sprintf("%s.confirm%d.stderr", tag, i))
		args := []string{"child", "-prop", r.p.ID, "-phase", b.name, "-tier", string(r.tier),
			"-seed", strconv.FormatInt(r.seed, 10), "-lo", strconv.Itoa(idx), "-hi", strconv.Itoa(idx + 1),
			"-out", out, "-findings", r.findings, "-case-timeout", "120"}
		limit := 180 * time.Second
		if b.race {
			args[len(args)-1] = "300"
			limit = 400 * time.Second
		}
		code, timedOut := runChild(bin, args, env, errf, limit)
		eb, _ := os.ReadFile(errf)
		if code != 0 || timedOut {
			return true, string(eb)
		}
	}
	return false, ""
}

// confirmSequence re-runs the batch's cases up to and including idx in a fresh
// process, twice, with the generous per-case bound of the alone confirmation.
// It answers true only if both runs die at that very case. Race-built children
// are left out: their slowness under load is not evidence.
func (r *runner) confirmSequence(b batch, idx int, skip []string, tag string) (bool, string) {
	if b.race || idx <= b.lo {
		return false, ""
	}
	text := ""
	for i := 0; i < 2; i++ {
		out := filepath.Join(r.scratch, fmt.Sprintf("%s.seq%d.json", tag, i))
		errf := filepath.Join(r.scratch, fmt.Sprintf("%s.seq%d.stderr", tag, i))
		prog := filepath.Join(r.scratch, fmt.Sprintf("%s.seq%d.progress", tag, i))
		args := []string{"child", "-prop", r.p.ID, "-phase", b.name, "-tier", string(r.tier),
			"-seed", strconv.FormatInt(r.seed, 10), "-lo", strconv.Itoa(b.lo), "-hi", strconv.Itoa(idx + 1),
			"-skip", strings.Join(skip, ","), "-out", out, "-progress", prog, "-findings", r.findings, "-case-timeout", "120"}
		limit := 900 * time.Second
		if r.tier == Thorough {
			limit = 3600 * time.Second
		}
		code, timedOut := runChild(r.bin, args, os.Environ(), errf, limit)
		if code == 0 && !timedOut {
			return false, ""
		}
		if lastProgress(prog) != idx {
			return false, ""
		}
		eb, _ := os.ReadFile(errf)
		text = string(eb)
	}
	return true, text
}

func runChild(bin string, args []string, env []string, stderrPath string, timeout time.Duration) (code int, timedOut bool) {
	ef, err := os.Create(stderrPath)
	if err != nil {
		return ExitUsage, false
	}
	defer ef.Close()
	cmd := exec.Command(bin, args...)
	cmd.Env = env
	cmd.Stdout = ef
	cmd.Stderr = ef
	cmd.SysProcAttr = &syscall.SysProcAttr{Setpgid: true}
	if err := cmd.Start(); err != nil {
		fmt.Fprintf(ef, "start: %v\n", err)
		return ExitUsage, false
	}
	done := make(chan error, 1)
	go func() { done <- cmd.Wait() }()
	select {
	case err := <-done:
		if err == nil {
			return 0, false
		}
		if ee, ok := err.(*exec.ExitError); ok {
			if ee.ExitCode() >= 0 {
				return ee.ExitCode(), false
			}
			return 128, false // signal
		}
		return ExitUsage, false
	case <-time.After(timeout):
		cmd.Process.Signal(syscall.SIGQUIT)
		select {
		case <-done:
		case <-time.After(5 * time.Second):
			syscall.Kill(-cmd.Process.Pid, syscall.SIGKILL)
			<-done
		}
		return ExitHang, true
	}
}

func lastProgress(path string) int {
	b, err := os.ReadFile(path)
	if err != nil {
		return -1
	}
	lines := strings.Split(strings.TrimSpace(string(b)), "\n")
	if len(lines) == 0 || lines[len(lines)-1] == "" {
		return -1
	}
	n, err := strconv.Atoi(lines[len(lines)-1])
	if err != nil {
		return -1
	}
	return n
}

var frameRe = regexp.MustCompile(`(?m)^\s+(\S+)\(.*\)\s*$`)

// parseRaceLogs reads GORACE log_path files (prefix.<pid>) and returns one
// entry per "WARNING: DATA RACE" block, keyed by the outermost genql frames of
// the two stacks (line numbers stripped).
func parseRaceLogs(prefix string) []raceReport {
	matches, _ := filepath.Glob(prefix + ".*")
	var out []raceReport
	for _, m := range matches {
		b, err := os.ReadFile(m)
		if err != nil {
			continue
		}
		text := string(b)
		blocks := strings.Split(text, "==================")
		for _, blk := range blocks {
			if !strings.Contains(blk, "WARNING: DATA RACE") {
				continue
			}
			// split into the two access stacks
			parts := regexp.MustCompile(`(?m)^(Previous |Goroutine )`).Split(blk, 3)
			var keys []string
			for i, part := range parts {
				if i >= 2 {
					break
				}
				fr := frameRe.FindAllStringSubmatch(part, -1)
				top := ""
				for _, f := range fr {
					if strings.Contains(f[1], "vedadiyan/genql") {
						top = f[1]
						break
					}
				}
				if top == "" && len(fr) > 0 {
					top = fr[0][1]
				}
				keys = append(keys, top)
			}
			sort.Strings(keys)
			// the racing accesses themselves are the innermost frames of the two
			// stacks: when both are harness code the race is the harness's own
			// (reported as inconclusive), whatever library frames lie below
			innerHarness := 0
			for i, part := range parts {
				if i >= 2 {
					break
				}
				if fr := frameRe.FindAllStringSubmatch(part, 1); len(fr) > 0 && strings.HasPrefix(fr[0][1], "verifharness/") {
					innerHarness++
				}
			}
			out = append(out, raceReport{
				key:   strings.Join(keys, " <-> "),
				text:  strings.TrimSpace(firstLines(strings.TrimSpace(blk), 70)),
				genql: strings.Contains(blk, "vedadiyan/genql") && innerHarness < 2,
			})
		}
	}
	return out
}

// replay re-runs the single case (or witness, or race batch) named by a replay file.
func (r *runner) replay(path string) int {
	b, err := os.ReadFile(path)
	if err != nil {
		fmt.Printf("INCONCLUSIVE property=%s reason=%v\n", r.p.ID, err)
		return 2
	}
	var v Violation
	if err := json.Unmarshal(b, &v); err != nil {
		fmt.Printf("INCONCLUSIVE property=%s reason=bad replay file: %v\n", r.p.ID, err)
		return 2
	}
	lo, hi := v.Idx, v.Idx+1
	race := false
	for _, ph := range r.p.Phases {
		if ph.Name == v.Phase && ph.Race {
			race = true
		}
	}
	if v.Kind == "race" {
		if x, ok := v.Detail["batch_hi"].(float64); ok {
			hi = int(x)
		}
	}
	r.tier, r.seed = v.Tier, v.Seed
	o := r.runBatch(0, batch{name: v.Phase, lo: lo, hi: hi, race: race})
	n := len(o.crashes)
	for _, rr := range o.races {
		if rr.genql {
			n++
			fmt.Printf("  race: %s\n", rr.key)
		}
	}
	for _, cr := range o.res {
		for _, x := range cr.Violations {
			n++
			fmt.Printf("  kind=%s index=%d: %s\n", x.Kind, x.Idx, firstLines(x.Msg, 10))
		}
		for _, k := range cr.Known {
			fmt.Println(k)
		}
	}
	for _, c := range o.crashes {
		fmt.Printf("  kind=%s index=%d: %s\n", c.Kind, c.Idx, c.Msg)
	}
	if n > 0 {
		fmt.Printf("VIOLATION property=%s replay=%s\n", r.p.ID, path)
		return 1
	}
	if len(o.inconcl) > 0 {
		fmt.Printf("INCONCLUSIVE property=%s reason=%s\n", r.p.ID, o.inconcl[0])
		return 2
	}
	fmt.Printf("REPLAY property=%s: no violation on the current tree\n", r.p.ID)
	return 0
}
