package ref

import (
	"errors"
	"testing"

	"verifharness/internal/gen"
)

// Oracle self-tests: hand-computed cases for the reference models. These
// tests are about the harness, not about genql.

func TestLikeMatch(t *testing.T) {
	cases := []struct {
		s, p string
		want bool
	}{
		{"abc", "abc", true}, {"abc", "ABC", true}, {"abc", "a%", true}, {"abc", "%c", true}, {"abc", "a_c", true}, {"abc", "a_", false},
		{"a", "a%a", false}, {"aba", "ab%ba", false}, {"abba", "ab%ba", true}, {"", "", true}, {"", "%", true}, {"x", "", false},
		{"(y", "(%", true}, {"a.c", "a.c", true}, {"abc", "a.c", false}, {"a+b", "a+b", true}, {"日本", "_本", true}, {"日本", "__", true}, {"日本", "_", false},
		{"100%", "100%", true}, {"a_b", "a_b", true}, {"axb", "a_b", true}, {"ab", "a%b%", true}, {"ba", "a%", false},
	}
	for _, c := range cases {
		if got := LikeMatch(c.s, c.p); got != c.want {
			t.Errorf("LikeMatch(%q, %q) = %v, want %v", c.s, c.p, got, c.want)
		}
	}
}

func num(v float64) gen.Expr { return gen.NumLit{V: v} }

func TestEvalExpr(t *testing.T) {
	row := map[string]any{"a": 7.5, "b": 2.0, "i": 6.0, "z": nil, "o": map[string]any{"p": 3.0}}
	env := Env{Row: row}
	cases := []struct {
		e    gen.Expr
		want any
		dom  bool
	}{
		{gen.Bin{Op: "+", L: gen.ColRef{Name: "a"}, R: gen.ColRef{Name: "b"}}, 9.5, false},
		{gen.Bin{Op: "%", L: gen.ColRef{Name: "a"}, R: gen.ColRef{Name: "b"}}, 1.5, false},
		{gen.Bin{Op: "%", L: num(-7), R: num(2)}, -1.0, false},
		{gen.Bin{Op: "DIV", L: num(-7), R: num(2)}, -3.0, false},
		{gen.Bin{Op: "DIV", L: gen.ColRef{Name: "a"}, R: num(2)}, nil, true},
		{gen.Bin{Op: "/", L: num(1), R: num(0)}, nil, true},
		{gen.Bin{Op: "<<", L: num(1), R: num(64)}, 0.0, false},
		{gen.Bin{Op: "<<", L: num(3), R: num(2)}, 12.0, false},
		{gen.Bin{Op: ">>", L: num(1024), R: num(70)}, 0.0, false},
		{gen.Bin{Op: "<<", L: num(1), R: num(63)}, nil, true},
		{gen.Bin{Op: "&", L: gen.ColRef{Name: "i"}, R: num(3)}, 2.0, false},
		{gen.Bin{Op: "^", L: gen.ColRef{Name: "i"}, R: num(3)}, 5.0, false},
		{gen.Bin{Op: "+", L: gen.ColRef{Name: "z"}, R: num(1)}, nil, false},
		{gen.Bin{Op: "*", L: gen.ColRef{Name: "missing"}, R: num(1)}, nil, false},
		{gen.Neg{E: gen.ColRef{Name: "z"}}, nil, true},
		{gen.BitNot{E: num(5)}, -6.0, false},
		{gen.ColRef{Name: "o.p"}, 3.0, false},
		{gen.Case{Whens: []gen.When{{Cond: gen.Cmp{L: gen.Operand{Col: "a", IsCol: true}, R: gen.Operand{Lit: 9.0}, Op: ">"}, Val: num(1)}}}, nil, false},
		{gen.Case{Whens: []gen.When{{Cond: gen.Cmp{L: gen.Operand{Col: "a", IsCol: true}, R: gen.Operand{Lit: 7.0}, Op: ">"}, Val: num(1)}}, Else: num(2)}, 1.0, false},
	}
	for i, c := range cases {
		got, err := EvalExpr(c.e, env)
		if c.dom {
			if !errors.Is(err, ErrDomain) {
				t.Errorf("case %d: want a domain error, got %v / %v", i, got, err)
			}
			continue
		}
		if err != nil || got != c.want {
			t.Errorf("case %d: got %v (%v), want %v", i, got, err, c.want)
		}
	}
}

func TestEvalPred(t *testing.T) {
	env := Env{Row: map[string]any{"n": 3.0, "s": "b", "b": true, "z": nil}, Tables: map[string][]map[string]any{"u": {{"m": 3.0}, {"m": nil}}}}
	col := func(c string) gen.Operand { return gen.Operand{Col: c, IsCol: true} }
	lit := func(v any) gen.Operand { return gen.Operand{Lit: v} }
	cases := []struct {
		p    gen.Pred
		want bool
	}{
		{gen.Cmp{L: col("n"), R: lit(3.0), Op: ">="}, true}, {gen.Cmp{L: lit("a"), R: col("s"), Op: "<"}, true}, {gen.Cmp{L: col("s"), R: lit("B"), Op: "="}, false},
		{gen.In{Col: "n", Items: []any{1.0, 3.0}}, true}, {gen.In{Col: "n", Items: []any{1.0, 3.0}, Neg: true}, false}, {gen.InSub{Col: "n", Table: "u", OtherCol: "m"}, true},
		{gen.Between{Col: "n", Lo: 3.0, Hi: 3.0}, true}, {gen.Between{Col: "n", Lo: 4.0, Hi: 2.0}, false}, {gen.Between{Col: "n", Lo: 4.0, Hi: 2.0, Neg: true}, true},
		{gen.IsNull{Col: "z"}, true}, {gen.IsNull{Col: "missing"}, true}, {gen.IsNull{Col: "n", Neg: true}, true}, {gen.IsBool{Col: "b", Val: false, Neg: true}, true},
		{gen.Not{A: gen.Or{A: gen.Cmp{L: col("n"), R: lit(9.0), Op: ">"}, B: gen.Like{Col: "s", Pattern: "%"}}}, false},
	}
	for i, c := range cases {
		got, err := EvalPred(c.p, env)
		if err != nil || got != c.want {
			t.Errorf("case %d: got %v (%v), want %v", i, got, err, c.want)
		}
	}
}

func TestSelector(t *testing.T) {
	doc := map[string]any{"data": []any{[]any{[]any{1.0, 2.0}, []any{3.0, 4.0}}, []any{[]any{5.0, 6.0}, []any{7.0, 8.0}}},
		"users": []any{map[string]any{"name": "a", "id": 1.0}, map[string]any{"name": "b"}}, "s": "x"}
	each := Dim{Kind: DimEach}
	ix := func(i int) Dim { return Dim{Kind: DimIndex, I: i} }
	sel := func(steps ...SelStep) Selector { return Selector{Segments: []Segment{{Steps: steps}}} }
	k := func(n string) SelStep { return KeyStep{Name: n} }
	type tc struct {
		s    Selector
		want string
		err  bool
	}
	show := func(v any) string { return canonKey(v) }
	cases := []tc{
		{sel(k("data"), IndexStep{Dims: []Dim{each, each, ix(0)}}), show([]any{1.0, 3.0, 5.0, 7.0}), false},
		{sel(k("data"), IndexStep{Keep: true, Dims: []Dim{ix(0), ix(1)}}), show([]any{3.0, 4.0}), false},
		{sel(k("data"), IndexStep{Dims: []Dim{ix(2)}}), "", true},
		{sel(k("users"), k("name")), show([]any{"a", "b"}), false},
		{sel(k("users"), k("id")), show([]any{1.0, nil}), false},
		{sel(k("users"), IndexStep{Dims: []Dim{{Kind: DimRange, M: 1, End: true}}}, k("name")), show([]any{"b"}), false},
		{sel(k("users"), IndexStep{Dims: []Dim{{Kind: DimRange, M: 2, N: 1}}}), "", true},
		{sel(k("s"), k("x")), "", true},
		{sel(k("nokey"), k("x")), show(nil), false},
		{sel(k("users"), IndexStep{Dims: []Dim{ix(0)}}, PipeStep{Fields: []PipeField{{Key: "id", Type: "string"}, {Key: "zz"}}}), show(map[string]any{"id": "1", "zz": nil}), false},
		{Selector{Segments: []Segment{{Fn: "mix", Steps: []SelStep{k("data")}}}}, show([]any{1.0, 2.0, 3.0, 4.0, 5.0, 6.0, 7.0, 8.0}), false},
		{Selector{Segments: []Segment{{Steps: []SelStep{k("users"), k("name")}}, {Steps: []SelStep{IndexStep{Dims: []Dim{ix(1)}}}}}}, show("b"), false},
	}
	for i, c := range cases {
		got, err := EvalSelector(c.s, doc)
		if c.err {
			if err == nil || errors.Is(err, ErrDomain) {
				t.Errorf("case %d (%s): want a selector error, got %v / %v", i, c.s.Render(), got, err)
			}
			continue
		}
		if err != nil || show(got) != c.want {
			t.Errorf("case %d (%s): got %s (%v), want %s", i, c.s.Render(), show(got), err, c.want)
		}
	}
}
