package ref

import (
	"errors"
	"fmt"
	"math"
	"strings"

	"verifharness/internal/gen"
)

// ErrDomain marks a case outside the region where the property defines the
// result uniquely (non-finite intermediates, zero divisors, non-integral
// operands of integer operators, unary operator on NULL, ...).
var ErrDomain = errors.New("out of domain")

func domain(format string, a ...any) error {
	return fmt.Errorf("%w: %s", ErrDomain, fmt.Sprintf(format, a...))
}

// Lookup resolves a key or dotted nested path on a row; missing -> nil.
func Lookup(row map[string]any, name string) any {
	var cur any = row
	for _, part := range strings.Split(name, ".") {
		m, ok := cur.(map[string]any)
		if !ok {
			return nil
		}
		cur, ok = m[part]
		if !ok {
			return nil
		}
	}
	return cur
}

const maxExact = float64(1 << 53)

func asInt(v float64, what string) (int64, error) {
	if v != math.Trunc(v) || math.Abs(v) > maxExact {
		return 0, domain("%s operand %v is not an exactly representable integer", what, v)
	}
	return int64(v), nil
}

// EvalExpr computes the ordinary meaning of an expression on IEEE doubles, in
// the association order of the AST. NULL is nil.
func EvalExpr(e gen.Expr, env Env) (any, error) {
	switch t := e.(type) {
	case gen.NumLit:
		return t.V, nil
	case gen.StrLit:
		return t.S, nil
	case gen.NullLit:
		return nil, nil
	case gen.BoolLit:
		return t.B, nil
	case gen.ColRef:
		return Lookup(env.Row, t.Name), nil
	case gen.Bin:
		lv, err := EvalExpr(t.L, env)
		if err != nil {
			return nil, err
		}
		rv, err := EvalExpr(t.R, env)
		if err != nil {
			if lv == nil && strings.Contains(err.Error(), "unary minus on NULL") {
				// "a binary arithmetic operator with a NULL operand yields NULL":
				// the left operand is NULL, and the right one is undefined only
				// because it negates a NULL itself
				return nil, nil
			}
			return nil, err
		}
		if lv == nil || rv == nil {
			return nil, nil
		}
		l, ok1 := lv.(float64)
		r, ok2 := rv.(float64)
		if !ok1 || !ok2 {
			return nil, domain("non-numeric operand of %s", t.Op)
		}
		var out float64
		switch t.Op {
		case "+":
			out = l + r
		case "-":
			out = l - r
		case "*":
			out = l * r
		case "/":
			if r == 0 {
				return nil, domain("division by zero")
			}
			out = l / r
		case "%":
			if r == 0 {
				return nil, domain("modulo by zero")
			}
			out = math.Mod(l, r)
		case "DIV", "&", "|", "^", "<<", ">>":
			li, err := asInt(l, t.Op)
			if err != nil {
				return nil, err
			}
			ri, err := asInt(r, t.Op)
			if err != nil {
				return nil, err
			}
			switch t.Op {
			case "DIV":
				if ri == 0 {
					return nil, domain("DIV by zero")
				}
				out = float64(li / ri)
			case "&", "|", "^":
				if li < 0 || ri < 0 {
					return nil, domain("bit operator on a negative operand")
				}
				switch t.Op {
				case "&":
					out = float64(li & ri)
				case "|":
					out = float64(li | ri)
				default:
					out = float64(li ^ ri)
				}
			case "<<", ">>":
				if li < 0 {
					return nil, domain("shift of a negative value")
				}
				if ri >= 64 {
					// every bit is shifted out: 0 under the int64 and the
					// 64-bit unsigned reading alike
					out = 0
					break
				}
				if ri < 0 || ri > 62 {
					return nil, domain("shift count %d outside 0..62", ri)
				}
				if t.Op == "<<" {
					if li != 0 && ri > 52 || float64(li)*math.Pow(2, float64(ri)) > maxExact {
						return nil, domain("shift result beyond 2^53")
					}
					out = float64(li << uint(ri))
				} else {
					out = float64(li >> uint(ri))
				}
			}
		default:
			return nil, fmt.Errorf("bad operator %q", t.Op)
		}
		// an intermediate may be infinite (IEEE); NaN is outside the asserted domain
		if math.IsNaN(out) {
			return nil, domain("NaN intermediate")
		}
		return out, nil
	case gen.Neg:
		v, err := EvalExpr(t.E, env)
		if err != nil {
			return nil, err
		}
		if v == nil {
			return nil, domain("unary minus on NULL")
		}
		f, ok := v.(float64)
		if !ok {
			return nil, domain("unary minus on non-number")
		}
		return -f, nil
	case gen.BitNot:
		v, err := EvalExpr(t.E, env)
		if err != nil {
			return nil, err
		}
		if v == nil {
			return nil, domain("~ on NULL")
		}
		f, ok := v.(float64)
		if !ok {
			return nil, domain("~ on non-number")
		}
		i, err := asInt(f, "~")
		if err != nil {
			return nil, err
		}
		if i < 0 {
			return nil, domain("~ on a negative operand")
		}
		return float64(^i), nil
	case gen.Bang:
		b, err := EvalPred(t.P, env)
		if err != nil {
			return nil, fmt.Errorf("%w: %v", ErrDomain, err)
		}
		return !b, nil
	case gen.Case:
		for _, w := range t.Whens {
			ok, err := EvalPred(w.Cond, env)
			if err != nil {
				return nil, fmt.Errorf("%w: %v", ErrDomain, err)
			}
			if ok {
				return EvalExpr(w.Val, env)
			}
		}
		if t.Else == nil {
			return nil, nil
		}
		return EvalExpr(t.Else, env)
	}
	return nil, fmt.Errorf("unknown expression %T", e)
}
