// Package ref holds the reference models: small, naive, obviously-sequential
// evaluators written from the property statements. It shares no code with
// genql (and does not import it).
package ref

import (
	"fmt"
	"sort"
	"strings"
	"unicode/utf8"

	"verifharness/internal/gen"
)

// CmpScalar is the exact order of two scalars of one kind: numeric order on
// numbers, byte-wise lexicographic on strings, false<true on booleans.
func CmpScalar(a, b any) (int, error) {
	switch x := a.(type) {
	case float64:
		y, ok := b.(float64)
		if !ok {
			return 0, fmt.Errorf("mixed kinds %T vs %T", a, b)
		}
		switch {
		case x < y:
			return -1, nil
		case x > y:
			return 1, nil
		}
		return 0, nil
	case string:
		y, ok := b.(string)
		if !ok {
			return 0, fmt.Errorf("mixed kinds %T vs %T", a, b)
		}
		return strings.Compare(x, y), nil
	case bool:
		y, ok := b.(bool)
		if !ok {
			return 0, fmt.Errorf("mixed kinds %T vs %T", a, b)
		}
		switch {
		case x == y:
			return 0, nil
		case !x:
			return -1, nil
		}
		return 1, nil
	}
	return 0, fmt.Errorf("not a scalar: %T", a)
}

// Env resolves names for the predicate evaluator.
type Env struct {
	Row map[string]any
	// Tables are the root document's tables (for IN (SELECT c FROM `<-T`)).
	Tables map[string][]map[string]any
}

func (e Env) operand(x gen.Operand) any {
	if x.IsCol {
		return e.Row[x.Col]
	}
	return x.Lit
}

// EvalPred evaluates a predicate of the C01 grammar on one row (two-valued
// logic; NULL appears only under IS [NOT] NULL).
func EvalPred(p gen.Pred, e Env) (bool, error) {
	switch t := p.(type) {
	case gen.Cmp:
		l, r := e.operand(t.L), e.operand(t.R)
		if l == nil || r == nil {
			return false, fmt.Errorf("NULL operand outside the property's domain")
		}
		c, err := CmpScalar(l, r)
		if err != nil {
			return false, err
		}
		switch t.Op {
		case "=":
			return c == 0, nil
		case "!=":
			return c != 0, nil
		case "<":
			return c < 0, nil
		case "<=":
			return c <= 0, nil
		case ">":
			return c > 0, nil
		case ">=":
			return c >= 0, nil
		}
		return false, fmt.Errorf("bad op %q", t.Op)
	case gen.And:
		a, err := EvalPred(t.A, e)
		if err != nil {
			return false, err
		}
		b, err := EvalPred(t.B, e)
		if err != nil {
			return false, err
		}
		return a && b, nil
	case gen.Or:
		a, err := EvalPred(t.A, e)
		if err != nil {
			return false, err
		}
		b, err := EvalPred(t.B, e)
		if err != nil {
			return false, err
		}
		return a || b, nil
	case gen.Not:
		a, err := EvalPred(t.A, e)
		return !a, err
	case gen.In:
		v := e.Row[t.Col]
		found := false
		for _, it := range t.Items {
			c, err := CmpScalar(v, it)
			if err != nil {
				return false, err
			}
			if c == 0 {
				found = true
			}
		}
		return found != t.Neg, nil
	case gen.InSub:
		v := e.Row[t.Col]
		if t.TopN > 0 {
			return inTopN(t, v, e)
		}
		for _, or := range e.Tables[t.Table] {
			if t.CorrOuter != "" {
				// correlated: only the other table's rows whose CorrInner equals this row's CorrOuter
				a, b := e.Row[t.CorrOuter], or[t.CorrInner]
				if a == nil || b == nil {
					continue
				}
				if c, err := CmpScalar(a, b); err != nil || c != 0 {
					continue
				}
			}
			ov, ok := or[t.OtherCol]
			if !ok || ov == nil {
				continue
			}
			c, err := CmpScalar(v, ov)
			if err != nil {
				return false, err
			}
			if c == 0 {
				return true, nil
			}
		}
		return false, nil
	case gen.Between:
		v := e.Row[t.Col]
		c1, err := CmpScalar(v, t.Lo)
		if err != nil {
			return false, err
		}
		c2, err := CmpScalar(v, t.Hi)
		if err != nil {
			return false, err
		}
		in := c1 >= 0 && c2 <= 0
		return in != t.Neg, nil
	case gen.BetweenCols:
		v, lo, hi := e.Row[t.Col], e.Row[t.Lo], e.Row[t.Hi]
		if v == nil || lo == nil || hi == nil {
			return false, fmt.Errorf("NULL operand outside the property's domain")
		}
		c1, err := CmpScalar(v, lo)
		if err != nil {
			return false, err
		}
		c2, err := CmpScalar(v, hi)
		if err != nil {
			return false, err
		}
		return (c1 >= 0 && c2 <= 0) != t.Neg, nil
	case gen.Like:
		s, ok := e.Row[t.Col].(string)
		if !ok {
			return false, fmt.Errorf("LIKE on non-string")
		}
		return LikeMatch(s, t.Pattern) != t.Neg, nil
	case gen.IsNull:
		v, ok := e.Row[t.Col]
		isNull := !ok || v == nil
		return isNull != t.Neg, nil
	case gen.IsBool:
		b, ok := e.Row[t.Col].(bool)
		if !ok {
			return false, fmt.Errorf("IS TRUE/FALSE on non-boolean")
		}
		return (b == t.Val) != t.Neg, nil
	}
	return true, nil
}

// inTopN: the subquery's rows (correlated or not) ordered by OtherCol, NULLs
// last in either direction, cut to the first TopN; v is IN when one of them
// carries its value.
func inTopN(t gen.InSub, v any, e Env) (bool, error) {
	var vals []any
	for _, or := range e.Tables[t.Table] {
		if t.CorrOuter != "" {
			a, b := e.Row[t.CorrOuter], or[t.CorrInner]
			if a == nil || b == nil {
				continue
			}
			if c, err := CmpScalar(a, b); err != nil || c != 0 {
				continue
			}
		}
		if ov, ok := or[t.OtherCol]; ok && ov != nil {
			vals = append(vals, ov)
		}
	}
	var serr error
	sort.SliceStable(vals, func(i, j int) bool {
		c, err := CmpScalar(vals[i], vals[j])
		if err != nil {
			serr = err
		}
		if t.Desc {
			return c > 0
		}
		return c < 0
	})
	if serr != nil {
		return false, serr
	}
	if len(vals) > t.TopN {
		vals = vals[:t.TopN]
	}
	for _, ov := range vals {
		c, err := CmpScalar(v, ov)
		if err != nil {
			return false, err
		}
		if c == 0 {
			return true, nil
		}
	}
	return false, nil
}

func foldASCII(r rune) rune {
	if r >= 'A' && r <= 'Z' {
		return r + 32
	}
	return r
}

// LikeMatch: only % (any run of characters, possibly empty) and _ (exactly one
// character) are wildcards; every other character is literal; ASCII letters
// match case-insensitively. Plain backtracking over runes.
func LikeMatch(s, pattern string) bool {
	sr := []rune(s)
	pr := []rune(pattern)
	if !utf8.ValidString(s) || !utf8.ValidString(pattern) {
		sr, pr = bytesAsRunes(s), bytesAsRunes(pattern)
	}
	var m func(i, j int) bool
	memo := map[[2]int]bool{}
	seen := map[[2]int]bool{}
	m = func(i, j int) bool {
		k := [2]int{i, j}
		if seen[k] {
			return memo[k]
		}
		var res bool
		switch {
		case j == len(pr):
			res = i == len(sr)
		case pr[j] == '%':
			res = m(i, j+1) || (i < len(sr) && m(i+1, j))
		case i < len(sr) && (pr[j] == '_' || foldASCII(pr[j]) == foldASCII(sr[i])):
			res = m(i+1, j+1)
		default:
			res = false
		}
		seen[k] = true
		memo[k] = res
		return res
	}
	return m(0, 0)
}

func bytesAsRunes(s string) []rune {
	out := make([]rune, len(s))
	for i := 0; i < len(s); i++ {
		out[i] = rune(s[i])
	}
	return out
}
