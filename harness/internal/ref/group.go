package ref

import (
	"fmt"

	"verifharness/internal/val"
)

// Agg is one aggregate call: Fn in COUNT SUM MIN MAX AVG; Col "*" for COUNT(*).
type Agg struct {
	Fn  string
	Col string
}

func (a Agg) SQL() string { return a.Fn + "(" + a.Col + ")" }

// EvalAgg computes an aggregate over the member rows (source order).
// SUM/MIN/MAX skip NULL members and yield NULL when nothing is left; AVG and
// COUNT(col) are only defined here for columns without NULL members.
func EvalAgg(a Agg, rows []map[string]any) (any, error) {
	if a.Fn == "COUNT" {
		if a.Col != "*" && a.Col != "1" { // COUNT(1) counts rows like COUNT(*)
			for _, r := range rows {
				if Lookup(r, a.Col) == nil {
					return nil, domain("COUNT(col) over a NULL member")
				}
			}
		}
		return float64(len(rows)), nil
	}
	var vals []float64
	for _, r := range rows {
		v := Lookup(r, a.Col)
		if v == nil {
			if a.Fn == "AVG" {
				return nil, domain("AVG over a NULL member")
			}
			continue
		}
		f, ok := v.(float64)
		if !ok {
			return nil, domain("aggregate over non-number")
		}
		vals = append(vals, f)
	}
	if len(vals) == 0 {
		return nil, nil
	}
	switch a.Fn {
	case "SUM", "AVG":
		s := float64(0)
		for _, f := range vals {
			s += f
		}
		if a.Fn == "AVG" {
			return s / float64(len(vals)), nil
		}
		return s, nil
	case "MIN":
		m := vals[0]
		for _, f := range vals {
			if f < m {
				m = f
			}
		}
		return m, nil
	case "MAX":
		m := vals[0]
		for _, f := range vals {
			if f > m {
				m = f
			}
		}
		return m, nil
	}
	return nil, fmt.Errorf("unknown aggregate %s", a.Fn)
}

// Group is one partition cell.
type Group struct {
	Key     []any
	Members []map[string]any
}

// GroupBy partitions rows by the tuple of grouping-column values (NULL and a
// missing key are the same key value), keeping first-appearance order.
func GroupBy(rows []map[string]any, cols []string) []*Group {
	var out []*Group
	index := map[string]*Group{}
	for _, r := range rows {
		key := make([]any, len(cols))
		for i, c := range cols {
			key[i] = r[c]
		}
		k := val.Canon(key)
		g := index[k]
		if g == nil {
			g = &Group{Key: key}
			index[k] = g
			out = append(out, g)
		}
		g.Members = append(g.Members, r)
	}
	return out
}
