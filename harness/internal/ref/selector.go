package ref

import (
	"errors"
	"fmt"
	"math"
	"strconv"
	"strings"
)

// Reference semantics of the path-selector language, written from the README
// grammar (DESIGN.md Appendix B). The AST is produced by the generator, so the
// reference never parses selector text.

type DimKind int

const (
	DimIndex DimKind = iota
	DimEach
	DimRange
)

type Dim struct {
	Kind       DimKind
	I          int  // DimIndex
	M, N       int  // DimRange bounds
	Begin, End bool // DimRange: `begin` / `end` keywords
	Bare       bool // ... or the bound simply left out: (1:), (:2)
}

type SelStep interface{ isStep() }

type KeyStep struct {
	Name   string
	Quoted bool
}
type IndexStep struct {
	Dims []Dim
	Keep bool
}
type PipeField struct {
	Key  string
	Type string // "", "string", "number", or anything else (unknown -> error)
}
type PipeStep struct{ Fields []PipeField }

func (KeyStep) isStep()   {}
func (IndexStep) isStep() {}
func (PipeStep) isStep()  {}

type Segment struct {
	Fn    string // "" or a top-level function name
	Steps []SelStep
}

type Selector struct{ Segments []Segment }

// Render produces the selector text.
func (s Selector) Render() string {
	var segs []string
	for _, sg := range s.Segments {
		var b strings.Builder
		if sg.Fn != "" {
			b.WriteString(sg.Fn + "=>")
		}
		first := true
		for _, st := range sg.Steps {
			switch t := st.(type) {
			case KeyStep:
				if !first {
					b.WriteString(".")
				}
				if t.Quoted {
					b.WriteString("'" + t.Name + "'")
				} else {
					b.WriteString(t.Name)
				}
			case IndexStep:
				b.WriteString("[")
				if t.Keep {
					b.WriteString("keep=>")
				}
				for i, d := range t.Dims {
					if i > 0 {
						b.WriteString(":")
					}
					switch d.Kind {
					case DimEach:
						b.WriteString("each")
					case DimIndex:
						b.WriteString(strconv.Itoa(d.I))
					case DimRange:
						m, n := strconv.Itoa(d.M), strconv.Itoa(d.N)
						if d.Begin {
							m = "begin"
							if d.Bare {
								m = ""
							}
						}
						if d.End {
							n = "end"
							if d.Bare {
								n = ""
							}
						}
						b.WriteString("(" + m + ":" + n + ")")
					}
				}
				b.WriteString("]")
			case PipeStep:
				b.WriteString("{")
				for i, f := range t.Fields {
					if i > 0 {
						b.WriteString(", ")
					}
					k := f.Key
					for _, ch := range k {
						if !(ch == '_' || ch >= '0' && ch <= '9' || ch >= 'a' && ch <= 'z' || ch >= 'A' && ch <= 'Z') {
							k = "'" + k + "'"
							break
						}
					}
					b.WriteString(k)
					if f.Type != "" {
						b.WriteString("|" + f.Type)
					}
				}
				b.WriteString("}")
			}
			first = false
		}
		segs = append(segs, b.String())
	}
	return strings.Join(segs, "::")
}

// ErrSel is a selector evaluation error (wrong shape, out of range, ...).
var ErrSel = errors.New("selector error")

func selErr(format string, a ...any) error {
	return fmt.Errorf("%w: %s", ErrSel, fmt.Sprintf(format, a...))
}

// TopFns are the top-level functions known to the reference.
var TopFns = map[string]func(any) (any, error){
	"mix": func(v any) (any, error) {
		a, ok := v.([]any)
		if !ok {
			return nil, domain("mix on a non-array is not asserted")
		}
		return flattenAll(a), nil
	},
	"distinct": func(v any) (any, error) {
		a, ok := v.([]any)
		if !ok {
			return nil, selErr("distinct on non-array")
		}
		var out []any
		seen := map[string]bool{}
		seenText := map[string]string{}
		for _, x := range a {
			k := canonKey(x)
			// two values that differ but print alike are outside what the
			// README defines for distinct
			txt := fmt.Sprintf("%v", x)
			if prev, ok := seenText[txt]; ok && prev != k {
				return nil, domain("distinct over look-alike values")
			}
			seenText[txt] = k
			if !seen[k] {
				seen[k] = true
				out = append(out, x)
			}
		}
		if out == nil {
			out = []any{}
		}
		return out, nil
	},
}

func canonKey(v any) string { return fmt.Sprintf("%T|%#v", v, v) }

func flattenAll(a []any) []any {
	out := []any{}
	for _, x := range a {
		if s, ok := x.([]any); ok {
			out = append(out, flattenAll(s)...)
		} else {
			out = append(out, x)
		}
	}
	return out
}

// flattenChecked flattens `levels` levels of a walk result that has
// `eachBelow` further iterated levels below this one; flattening that would
// reach into a leaf which is itself an array is outside the documented meaning
// (partial-depth index lists) and reported as out of domain.
func flattenChecked(a []any, levels, eachBelow int) ([]any, error) {
	if levels <= 0 {
		return a, nil
	}
	out := []any{}
	for _, x := range a {
		if s, ok := x.([]any); ok {
			if eachBelow == 0 {
				return nil, domain("partial-depth index list: flattening reaches into array leaves")
			}
			sub, err := flattenChecked(s, levels-1, eachBelow-1)
			if err != nil {
				return nil, err
			}
			out = append(out, sub...)
		} else {
			out = append(out, x)
		}
	}
	return out, nil
}

func flattenLevels(a []any, levels int) []any {
	if levels <= 0 {
		return a
	}
	out := []any{}
	for _, x := range a {
		if s, ok := x.([]any); ok {
			out = append(out, flattenLevels(s, levels-1)...)
		} else {
			out = append(out, x)
		}
	}
	return out
}

// EvalSelector evaluates the selector on doc.
func EvalSelector(s Selector, doc any) (any, error) {
	cur := doc
	for _, sg := range s.Segments {
		v, err := evalSteps(cur, sg.Steps)
		if err != nil {
			return nil, err
		}
		if sg.Fn != "" {
			fn, ok := TopFns[sg.Fn]
			if !ok {
				return nil, selErr("unknown function %s", sg.Fn)
			}
			v, err = fn(v)
			if err != nil {
				return nil, err
			}
		}
		cur = v
	}
	return cur, nil
}

func evalSteps(v any, steps []SelStep) (any, error) {
	if len(steps) == 0 {
		return v, nil
	}
	if v == nil {
		return nil, nil // a step on NULL yields NULL for the remaining path
	}
	switch st := steps[0].(type) {
	case KeyStep:
		switch t := v.(type) {
		case map[string]any:
			return evalSteps(t[st.Name], steps[1:])
		case []any:
			out := make([]any, len(t))
			for i, el := range t {
				r, err := evalSteps(el, steps) // key + the remaining path, per element
				if err != nil {
					return nil, err
				}
				out[i] = r
			}
			return out, nil
		default:
			return nil, selErr("key %q on %T", st.Name, v)
		}
	case IndexStep:
		a, ok := v.([]any)
		if !ok {
			return nil, selErr("index on %T", v)
		}
		r, err := walkDims(a, st.Dims)
		if err != nil {
			return nil, err
		}
		if !st.Keep {
			if ra, ok := r.([]any); ok {
				// E = array levels the walk preserved (each / range)
				E := 0
				for _, d := range st.Dims {
					if d.Kind != DimIndex {
						E++
					}
				}
				below := E - 1
				if below < 0 {
					below = 0
				}
				fl, err := flattenChecked(ra, len(st.Dims)-1, below)
				if err != nil {
					return nil, err
				}
				r = fl
			}
		}
		return evalSteps(r, steps[1:])
	case PipeStep:
		switch t := v.(type) {
		case map[string]any:
			out := map[string]any{}
			for _, f := range st.Fields {
				x, present := t[f.Key]
				switch f.Type {
				case "":
					out[f.Key] = x
				case "string":
					if !present || x == nil {
						out[f.Key] = nil // a missing key is NULL, whatever it is piped to
						continue
					}
					switch y := x.(type) {
					case float64:
						if math.IsNaN(y) || math.IsInf(y, 0) {
							return nil, domain("|string on a non-finite number")
						}
						if y == 0 {
							y = 0 // -0 is 0
						}
						// the decimal text of the number, whole or fractional
						out[f.Key] = strconv.FormatFloat(y, 'f', -1, 64)
					case string:
						out[f.Key] = y
					case bool:
						out[f.Key] = strconv.FormatBool(y)
					default:
						return nil, domain("|string on %T", x)
					}
				case "number":
					if num, ok := x.(float64); ok {
						out[f.Key] = num // a number stays the number it is
						continue
					}
					str, ok := x.(string)
					if !ok {
						return nil, selErr("|number on %T", x)
					}
					f64, err := strconv.ParseFloat(str, 64)
					if err != nil {
						return nil, selErr("|number on %q", str)
					}
					if strings.ContainsAny(str, "eExXpP_iInN") {
						return nil, domain("|number on an unusual numeric spelling")
					}
					out[f.Key] = f64
				default:
					return nil, selErr("unknown pipe type %s", f.Type)
				}
			}
			return evalSteps(out, steps[1:])
		case []any:
			out := make([]any, len(t))
			for i, el := range t {
				r, err := evalSteps(el, steps)
				if err != nil {
					return nil, err
				}
				out[i] = r
			}
			return out, nil
		default:
			return nil, selErr("pipe on %T", v)
		}
	}
	return nil, fmt.Errorf("unknown step")
}

func walkDims(v any, dims []Dim) (any, error) {
	if len(dims) == 0 {
		return v, nil
	}
	a, ok := v.([]any)
	if !ok {
		return nil, selErr("dimension on %T", v)
	}
	d := dims[0]
	switch d.Kind {
	case DimIndex:
		if d.I < 0 || d.I >= len(a) {
			return nil, selErr("index %d out of range (len %d)", d.I, len(a))
		}
		return walkDims(a[d.I], dims[1:])
	case DimEach:
		out := make([]any, len(a))
		for i, el := range a {
			r, err := walkDims(el, dims[1:])
			if err != nil {
				return nil, err
			}
			out[i] = r
		}
		return out, nil
	case DimRange:
		m, n := d.M, d.N
		if d.Begin {
			m = 0
		}
		if d.End {
			n = len(a)
		}
		if m > n || n > len(a) || m < 0 {
			return nil, selErr("range (%d:%d) out of range (len %d)", m, n, len(a))
		}
		if len(dims) > 1 {
			return nil, domain("a dimension after a range is not documented")
		}
		return append([]any{}, a[m:n]...), nil
	}
	return nil, fmt.Errorf("bad dim")
}
