// vcheck is both the parent (run) and the crash-isolated child (child) of
// every check.
package main

import (
	"fmt"
	"os"

	"verifharness/internal/fw"
	"verifharness/props"
)

func main() {
	if len(os.Args) < 2 {
		fmt.Fprintln(os.Stderr, "usage: vcheck run|child|list ...")
		os.Exit(2)
	}
	switch os.Args[1] {
	case "run":
		os.Exit(fw.ParentMain(os.Args[2:]))
	case "child":
		os.Exit(fw.ChildMain(os.Args[2:]))
	case "racep":
		// does the check of this property at this tier need the -race child?
		p := fw.Lookup(os.Args[2])
		ans := "no"
		if p != nil {
			for _, ph := range p.Phases {
				if ph.Race && ph.N(fw.Tier(os.Args[3])) > 0 {
					ans = "yes"
				}
			}
		}
		fmt.Println(ans)
	case "phases":
		// markdown rows: | ID | phases (quick / thorough cases) | level |
		for _, id := range fw.IDs() {
			p := fw.Lookup(id)
			row := ""
			for i, ph := range p.Phases {
				if i > 0 {
					row += " · "
				}
				race := ""
				if ph.Race {
					race = ", -race"
				}
				row += fmt.Sprintf("%s %d / %d%s", ph.Name, ph.N(fw.Tier("quick")), ph.N(fw.Tier("thorough")), race)
			}
			fmt.Printf("| %s | %s | %s |\n", id, row, p.Level)
		}
	case "hashprobe":
		// a fresh process that calls some built-ins in a given order and prints what HASH returns (C18, phase hash-process)
		fmt.Print(props.HashProbe(os.Args[2], os.Args[3]))
	case "list":
		for _, id := range fw.IDs() {
			fmt.Println(id)
		}
	default:
		fmt.Fprintln(os.Stderr, "unknown command", os.Args[1])
		os.Exit(2)
	}
}
