package props

import (
	"fmt"
	"strings"

	"github.com/vedadiyan/genql"

	"verifharness/internal/fw"
	"verifharness/internal/val"
)

func init() {
	floor := []string{"raise.row", "raise.none", "raise.cte", "followup", "reexec"}
	for _, q := range c19NativeTypeErrors {
		floor = append(floor, "typeerr.native."+q.name)
	}
	for _, n := range richFormNames(true) {
		floor = append(floor, "pos."+n)
	}
	for _, q := range typeErrorQueries {
		floor = append(floor, "typeerr."+q.name)
	}
	fw.Register(&fw.Prop{
		ID:    "C19",
		Title: "A failure anywhere surfaces as an error - never as a partial result",
		Level: "fault_enumeration",
		Rule: "a bare non-boolean column as a CASE condition; a panic in the ON of a PARALLEL join. fault form: a CTE first read at execution time; type errors through alias-qualified paths on one row. fault positions also inside BETWEEN and behind ONCE; follow-ups that show whole rows under an alias; phase 'typeerr-native': natively typed integers where a boolean / string / array is required. fault form EXISTS (SELECT * ...); type errors include non-boolean conditions of RAISE_WHEN / REPORT_WHEN. type errors include a reader error on one row only (`badrow.*`: ORDER BY path at top level / derived / CTE / union, a later join key column, a WHERE path); after a failed join the follow-up is a hash join. phase 'faults': each case = a random document x a query with the fault-injecting function VFAIL placed in one clause position (WHERE, select item, function argument, CASE branch/condition, HAVING, join ON conjunct, CTE body, CTE chain, derived table, select-list subquery, root-scoped subquery, IN-subquery, EXISTS-subquery, either UNION branch, DISTINCT, ORDER BY/LIMIT pipeline, multi-dimensional FROM, whole-table aggregate); " +
			"a fault-free run counts the N invocations, then for EVERY k in 1..N the query is re-run on a fresh copy with VFAIL returning an error at its k-th invocation: New/Exec must return (no rows, a non-nil error) - never rows, never a shortened or NULL-patched result - and a follow-up query on that same input object must return what it returns on a pristine copy. " +
			"phase 'raise': RAISE_WHEN firing on every row index j (and on no row). phase 'typeerr': a type error in every clause position. Exhaustive in k per query, sampled in queries. Non-trivial = a query with N >= 2 fault points (faults) or a firing RAISE / type error; distinct = distinct (document, SQL).",
		Assumptions: []string{
			"only synchronous calls (no ASYNC/SPIN qualifier), as the property says; positions the engine rejects even without a fault (a function call as a direct ON operand, ORDER BY an expression) are not generated",
			"a query whose fault-free run does not invoke VFAIL (N = 0, e.g. empty table) has no fault point and is counted as a discard",
		},
		Floor:         floor,
		MinNontrivial: 50,
		Phases: []fw.Phase{
			{Name: "faults", N: func(t fw.Tier) int { return pick(t, 3000, 80000) }, Run: c19Faults},
			{Name: "raise", N: func(t fw.Tier) int { return pick(t, 900, 25000) }, Run: c19Raise},
			{Name: "typeerr", N: func(t fw.Tier) int { return pick(t, 1200, 25000) }, Run: c19TypeErr},
			{Name: "typeerr-native", N: func(t fw.Tier) int { return pick(t, 600, 12000) }, Run: c19TypeErrNative},
		},
		Witness: sqlWitness,
	})
}

// mustFail judges one faulted run.
func mustFail(c *fw.Case, o Outcome, what string, det map[string]any) bool {
	det["observed"] = o.Describe()
	switch {
	case o.Panic != nil:
		c.Violate("panic", fmt.Sprintf("%s: a panic escaped instead of an error: %v", what, o.Panic), det)
	case o.Err == nil:
		c.Violate("fault-swallowed", fmt.Sprintf("%s: New/Exec reported success with %d rows: %s", what, len(o.Rows), short(val.Canon(o.Rows), 200)), det)
	case o.Rows != nil:
		c.Violate("rows-with-error", fmt.Sprintf("%s: rows returned together with the error %v", what, o.Err), det)
	default:
		return true
	}
	return false
}

// followUp runs one battery query on the polluted input and on a pristine copy.
func followUp(c *fw.Case, used, pristine map[string]any, det map[string]any) bool {
	sql := followUps[c.Intn(len(followUps))]
	if failed, _ := det["sql"].(string); strings.Contains(failed, "JOIN") && c.Chance(0.7) {
		sql = joinFollowUps[c.Intn(len(joinFollowUps))]
	}
	a := Run(used, sql)
	b := Run(val.CopyMap(pristine), sql)
	c.Feature("followup")
	if a.Panic != nil {
		det["followup"] = sql
		c.Violate("followup-panic", fmt.Sprintf("after the failed query, `%s` panics: %v", sql, a.Panic), det)
		return false
	}
	same := a.OK() == b.OK() && (val.SameSeq(a.Rows, b.Rows) || (strings.Contains(sql, "JOIN") && val.SameMultiset(a.Rows, b.Rows)))
	if !same {
		det["followup"] = sql
		det["followup_on_used_input"] = a.Describe()
		det["followup_on_pristine"] = b.Describe()
		c.Violate("followup-differs", fmt.Sprintf("after the failed query, `%s` on the same input differs from its result on a pristine copy", sql), det)
		return false
	}
	return true
}

func c19Faults(c *fw.Case) {
	forms := richFaultForms()
	f := forms[c.Idx%len(forms)]
	var d *richDoc
	var sql string
	var freeRows []any
	N := 0
	for try := 0; try < 6; try++ {
		d = newRichDoc(c)
		sql = f.build(c, d, "VFAIL")
		armFault(0, faultNone)
		o := Run(d.fresh(), sql)
		if !o.OK() {
			c.Feature("pos." + f.name)
			c.Violate("fault-free-error", fmt.Sprintf("form %s fails even without a fault: %v", f.name, o.Describe()), map[string]any{"sql": sql, "doc": d.doc})
			return
		}
		freeRows = o.Rows
		N = faultCount()
		if N >= 1 {
			break
		}
	}
	if N == 0 {
		c.Discard("no fault point (N = 0)")
		return
	}
	c.Feature("pos." + f.name)
	c.Sample(map[string]any{"sql": sql, "fault_points": N, "rows": len(d.t.Rows)})
	for k := 1; k <= N; k++ {
		used := d.fresh()
		armFault(k, faultError)
		var o Outcome
		q, nerr := newSafe(used, sql)
		if nerr.Err != nil || nerr.Panic != nil {
			o = nerr
			q = nil
		} else {
			o = execBuilt(q)
		}
		hit := faultCount()
		armFault(0, faultNone)
		det := map[string]any{"sql": sql, "doc": d.doc, "fault_at_invocation": k, "invocations_fault_free": N, "position": f.name}
		if hit < k {
			// the faulted run took a different path; nothing was injected
			c.Count("fault_not_reached", 1)
			continue
		}
		if !mustFail(c, o, fmt.Sprintf("position %s, fault at invocation %d of %d", f.name, k, N), det) {
			return
		}
		if !followUp(c, used, d.doc, det) {
			return
		}
		// the Query object itself stays usable: executed again without the
		// fault it returns what the fault-free run returned
		if q != nil && hit >= k {
			again := execBuilt(q)
			same := again.OK() && (val.SameSeq(again.Rows, freeRows) || (len(again.Rows) == 0 && len(freeRows) == 0) || (f.multiset || strings.Contains(sql, "JOIN")) && val.SameMultiset(again.Rows, freeRows))
			c.Feature("reexec")
			if !same {
				det["reexec"] = again.Describe()
				det["fault_free"] = val.Show(freeRows)
				c.Violate("reexec-after-failure", fmt.Sprintf("position %s: after the failed Exec (fault at %d of %d) the same Query object, executed again without the fault, does not return the fault-free result", f.name, k, N), det)
				return
			}
		}
	}
	c.Evals(N)
	c.Count("fault_points_enumerated", N)
	if N >= 2 {
		c.Nontrivial(sql + "|" + val.Canon(d.doc))
	}
}

func c19Raise(c *fw.Case) {
	d := newRichDoc(c)
	for len(d.t.Rows) == 0 {
		d = newRichDoc(c)
	}
	n := len(d.t.Rows)
	cte := c.Idx%3 == 2
	evals := 0
	for j := 0; j <= n; j++ {
		sql := fmt.Sprintf("SELECT rid, RAISE_WHEN(rid = %d, 'boom %d') FROM t1", j, j)
		if cte {
			sql = fmt.Sprintf("WITH c1 AS (SELECT rid, n1, RAISE_WHEN(rid = %d, 'boom') FROM t1) SELECT rid FROM c1 WHERE n1 >= n1", j)
		}
		used := d.fresh()
		o := Run(used, sql)
		evals++
		det := map[string]any{"sql": sql, "doc": d.doc, "row_index": j}
		if j < n {
			c.Feature("raise.row")
			if cte {
				c.Feature("raise.cte")
			}
			if !mustFail(c, o, fmt.Sprintf("RAISE_WHEN firing on row %d of %d", j, n), det) {
				return
			}
			if !followUp(c, used, d.doc, det) {
				return
			}
		} else {
			c.Feature("raise.none")
			det["observed"] = o.Describe()
			if !o.OK() {
				c.Violate("spurious-error", fmt.Sprintf("RAISE_WHEN that never fires made the query fail: %v", o.Describe()), det)
				return
			}
			if len(o.Rows) != n {
				c.Violate("row-count", fmt.Sprintf("%d rows, expected %d", len(o.Rows), n), det)
				return
			}
			for _, r := range o.Rows {
				if m, ok := r.(map[string]any); !ok || len(m) != 1 {
					c.Violate("extra-column", "RAISE_WHEN added a column", det)
					return
				}
			}
		}
	}
	c.Evals(evals)
	c.Sample(map[string]any{"sql": "SELECT rid, RAISE_WHEN(rid = j, 'boom j') FROM t1  for j = 0.." + fmt.Sprint(n), "rows": n, "cte": cte})
	c.Nontrivial(fmt.Sprint(cte) + val.Canon(d.doc))
}

func c19TypeErr(c *fw.Case) {
	q := typeErrorQueries[c.Idx%len(typeErrorQueries)]
	var d *richDoc
	for try := 0; ; try++ {
		d = newRichDoc(c)
		ok := len(d.t.Rows) > 0 && len(d.u.Rows) > 0
		if ok {
			// every row needs a non-empty nested array for the row-scoped forms
			for _, r := range d.t.Rows {
				if len(r["arr"].([]any)) == 0 {
					r["arr"] = []any{map[string]any{"e": 1.0, "f": "p"}}
				}
			}
			if strings.HasPrefix(q.name, "parpanic.") {
				if len(d.t.Rows) < 4 || len(d.u.Rows) < 1 {
					continue
				}
				d.t.Rows[2]["z1"] = nil // the panic is neither the first nor the last evaluation
				for i, r := range d.t.Rows {
					r["n1"] = float64(100 + i) // distinct keys: one key group per row
				}
			}
			if strings.HasPrefix(q.name, "badrow.") {
				if len(d.t.Rows) < 3 {
					continue
				}
				d.t.Rows[1+c.Intn(len(d.t.Rows)-1)]["obj"] = "n/a"
			}
			d.doc = DocOf(d.t, d.u)
			break
		}
	}
	used := d.fresh()
	o := Run(used, q.sql)
	c.Feature("typeerr." + q.name)
	c.Sample(map[string]any{"sql": q.sql, "error": fmt.Sprint(o.Err)})
	det := map[string]any{"sql": q.sql, "doc": d.doc}
	if !mustFail(c, o, "type error in "+q.name, det) {
		return
	}
	// the same failing query again, in the same process: a failure must not
	// leave anything behind (parse caches, memos) that makes the next attempt
	// look successful
	for rep := 2; rep <= 3; rep++ {
		again := Run(d.fresh(), q.sql)
		if !mustFail(c, again, fmt.Sprintf("type error in %s, attempt %d of the same query", q.name, rep), det) {
			return
		}
	}
	if !followUp(c, used, d.doc, det) {
		return
	}
	c.Nontrivial(q.sql + "|" + val.Canon(d.doc))
}

// newSafe constructs a query, catching an escaped panic; the Outcome carries
// the error / panic of New (Stage "new").
func newSafe(doc map[string]any, sql string, opts ...genql.QueryOption) (q *genql.Query, out Outcome) {
	defer func() {
		if r := recover(); r != nil {
			out.Panic = r
			q = nil
		}
	}()
	out.Stage = "new"
	q, err := genql.New(doc, sql, opts...)
	if err != nil {
		out.Err = err
		return nil, out
	}
	return q, out
}


// c19NativeTypeErrors: a number where a boolean, a string or an array is
// required. The number arrives as a natively typed Go integer (a document
// built in Go rather than decoded from JSON); it is a type error all the same.
var c19NativeTypeErrors = []struct{ name, sql string }{
	{"where.not", "SELECT s1 FROM t1 WHERE NOT rid"},
	{"where.and", "SELECT x.s1 FROM t1 x WHERE x.rid AND x.n2 > -1000000"},
	{"where.or", "SELECT s1 FROM t1 WHERE n2 < -1000000 OR rid"},
	{"select.to_upper", "SELECT TO_UPPER(rid) AS label FROM t1"},
	{"select.raise_when", "SELECT s1, RAISE_WHEN(rid, 'x') FROM t1"},
	{"select.first", "SELECT FIRST(rid) AS f FROM t1"},
	{"select.if", "SELECT IF(rid, 1, 2) AS v FROM t1"},
	{"select.bang", "SELECT !(rid) AS v FROM t1"},
	{"having.not", "SELECT rid, COUNT(*) AS c FROM t1 GROUP BY rid HAVING NOT rid"},
	{"derived.not", "SELECT q.s1 FROM (SELECT s1 FROM t1 WHERE NOT rid) q"},
	{"cte.not", "WITH live AS (SELECT s1 FROM t1 WHERE NOT rid) SELECT s1 FROM live"},
	{"union.not", "SELECT s1 FROM t1 WHERE n2 > 1000000 UNION ALL SELECT s1 FROM t1 WHERE NOT rid"},
	{"join.on", "SELECT x.s1 FROM t1 x JOIN u1 y ON x.n1 >= y.un1 AND x.rid"},
	{"subquery.not", "SELECT s1, (SELECT e FROM arr WHERE NOT e) AS sub FROM t1"},
}

func c19TypeErrNative(c *fw.Case) {
	q := c19NativeTypeErrors[c.Idx%len(c19NativeTypeErrors)]
	var d *richDoc
	for {
		d = newRichDoc(c)
		if len(d.t.Rows) > 0 && len(d.u.Rows) > 0 {
			break
		}
	}
	for _, r := range d.t.Rows {
		if len(r["arr"].([]any)) == 0 {
			r["arr"] = []any{map[string]any{"e": 1.0, "f": "p"}}
		}
	}
	d.doc = DocOf(d.t, d.u)
	// the natively typed document is built once; the run and the pristine
	// follow-up get deep copies of it (copies keep the Go types)
	nd := d.fresh()
	nativize(c, nd["t1"].([]any), "rid")
	for _, r := range nd["t1"].([]any) {
		nativize(c, r.(map[string]any)["arr"].([]any), "e")
	}
	mk := func() map[string]any { return val.CopyMap(nd) }
	used := mk()
	o := Run(used, q.sql)
	c.Feature("typeerr.native." + q.name)
	c.Sample(map[string]any{"sql": q.sql, "error": fmt.Sprint(o.Err), "rid_type": fmt.Sprintf("%T", used["t1"].([]any)[0].(map[string]any)["rid"])})
	det := map[string]any{"sql": q.sql, "doc": d.doc, "rid_type": fmt.Sprintf("%T", used["t1"].([]any)[0].(map[string]any)["rid"])}
	if !mustFail(c, o, "type error over a natively typed integer in "+q.name, det) {
		return
	}
	if !followUp(c, used, mk(), det) {
		return
	}
	c.Nontrivial(q.sql + "|" + val.Canon(d.doc))
}
