package props

import (
	"math"
	"fmt"
	"github.com/vedadiyan/genql"
	"strings"

	"verifharness/internal/fw"
	"verifharness/internal/gen"
	"verifharness/internal/ref"
	"verifharness/internal/val"
)

var c01Forced = append(append([]string{}, gen.AtomKinds...), "and", "or", "not")

func init() {
	fw.Register(&fw.Prop{
		ID:    "C01",
		Title: "WHERE keeps exactly the rows that satisfy the predicate, in source order",
		Level: "exploration",
		Rule: "constants written with leading zeros; a share of the cases under PostgresEscapingDialect; the table under a dotted path with columns qualified by its last part or the whole path. IN-subqueries with an ORDER BY ... LIMIT of their own; constants at the ends of the 64-bit integer ranges against natively typed columns. columns named plainly, by the table's alias, without it, by the table's own name, and with names that are not plain words; string and numeric constants of one statement spelled alike; dual as a one-row source; a share of the cases under IdomaticArrays; tables of 2050..5000 rows every 400th case; phase 'reexec': one Query executed four times while a variable read by the predicate (also inside an IN-subquery) or rows of the document change, judged against a freshly built query. a share of the numeric columns holds natively typed Go integers (int, int64, int32, uint64); IN-subqueries may be correlated to the outer row through the `<-` marker. each case = a random table (0..12 rows quick / 0..40 thorough, typed columns, duplicated values, hostile strings) x a random predicate tree " +
			"(depth 0..4 quick / 0..7 thorough over = != < <= > >=, AND/OR/NOT, [NOT] IN, IN (subquery), [NOT] BETWEEN, [NOT] LIKE, IS [NOT] NULL/TRUE/FALSE), executed by the real " +
			"genql.New+Exec and judged against an independent reference filter (rid sequence and whole-row equality); the first cases of every run force each grammar feature once; " +
			"phase 'laws' checks the three derived laws as metamorphic relations between real executions. A case is non-trivial when the predicate keeps at least one row and rejects at least one; " +
			"distinct = distinct (table, SQL text).",
		Assumptions: []string{
			"compared columns hold non-NULL values of one scalar kind (NULL/missing only under IS [NOT] NULL), as the property states",
			"LIKE patterns contain no backslash; non-ASCII characters in data are caseless, so ASCII folding is the case-insensitivity asserted",
			"numeric literals are rendered without exponent; the reference model (internal/ref) is trusted",
		},
		Floor:         featList("op.eq", "op.ne", "op.lt", "op.le", "op.gt", "op.ge", "and", "or", "not", "in", "notin", "in.subquery", "between", "notbetween", "like", "notlike", "isnull", "isnotnull", "istrue", "isfalse", "law.partition", "law.notin", "law.between", "native-int", "in.subquery.correlated", "naming.alias", "naming.alias-unqualified", "naming.table-qualified", "const.spelled", "opt.idiomatic-arrays", "source.dual", "table.long", "reexec.vars", "reexec.document", "column.nonword", "in.subquery.topn", "const.int64-edge", "opt.pg", "naming.table-qualified.path", "in.long-list", "between.timestamps"),
		MinNontrivial: 50,
		Phases: []fw.Phase{
			{Name: "pred", N: func(t fw.Tier) int { return pick(t, 16000, 600000) }, Run: c01Pred},
			{Name: "laws", N: func(t fw.Tier) int { return pick(t, 6000, 150000) }, Run: c01Laws},
			{Name: "reexec", N: func(t fw.Tier) int { return pick(t, 1500, 40000) }, Run: c01Reexec},
		},
		Witness: sqlWitness,
	})
}

func featList(f ...string) []string { return f }

func pick(t fw.Tier, q, th int) int {
	if t == fw.Thorough {
		return th
	}
	return q
}

func c01Tables(c *fw.Case) (*gen.Table, *gen.Table) {
	maxRows, minRows := pick(c.Tier, 12, 40), 0
	if c.Idx%400 == 123 {
		// a long table: whatever the engine does differently for long inputs
		// (batches, workers), the rows still come out once and in source order
		minRows, maxRows = 2050+c.Intn(3000), 6000
		c.Feature("table.long")
	}
	t := gen.RandTable(c.R, gen.TableSpec{Name: "t1", MinRows: minRows, MaxRows: maxRows, NumCols: 2, StrCols: 2, BoolCols: 1, NullCols: 2, StrStyle: gen.Hostile})
	if c.Chance(0.12) {
		// column names that are not plain words: a hyphen, a blank, a non-ASCII letter
		rename := map[string]string{"s2": "s-2", "n2": "n 2", "z1": "zé1"}
		for i, col := range t.Cols {
			if to, ok := rename[col.Name]; ok {
				t.Cols[i].Name = to
			}
		}
		for from, to := range rename {
			if p, ok := t.Pools[from]; ok {
				t.Pools[to] = p
				delete(t.Pools, from)
			}
			for _, row := range t.Rows {
				if v, ok := row[from]; ok {
					row[to] = v
					delete(row, from)
				}
			}
		}
		c.Feature("column.nonword")
	}
	o := gen.RandTable(c.R, gen.TableSpec{Name: "t2", MaxRows: 6, NumCols: 1, StrCols: 1, StrStyle: gen.Hostile})
	// let the other table share values with t1 so that IN (subquery) matches
	for _, row := range o.Rows {
		if c.Chance(0.7) && len(t.Pools["n1"]) > 0 {
			row["n1"] = gen.Pick(c.R, t.Pools["n1"])
		}
		if c.Chance(0.7) && len(t.Pools["s1"]) > 0 {
			row["s1"] = gen.Pick(c.R, t.Pools["s1"])
		}
	}
	return t, o
}

func c01Render(c *fw.Case, p gen.Pred, alias string, numText ...map[float64]string) (string, []string) {
	var feats []string
	ro := gen.RenderOpts{Quote: gen.Quoting(c.Intn(2)), StrStyle: c.Intn(2), MinParens: c.Chance(0.3), Features: &feats, Qualifier: alias}
	if len(numText) > 0 {
		ro.NumText = numText[0]
	}
	return gen.RenderPred(p, ro), feats
}

// c01RenderPG: the spelling PostgresEscapingDialect calls for - double-quoted
// identifiers; string constants keep their quotes of every kind, a quote of the
// constant written with a backslash.
func c01RenderPG(c *fw.Case, p gen.Pred, alias string, numText map[float64]string) (string, []string) {
	var feats []string
	ro := gen.RenderOpts{Quote: gen.QDouble, StrStyle: 1, MinParens: c.Chance(0.3), Features: &feats, Qualifier: alias, NumText: numText}
	return gen.RenderPred(p, ro), feats
}

// c01Spellings: numeric constants whose text is not what the number prints as.
var c01Spellings = []struct {
	text string
	v    float64
}{{"1.50", 1.5}, {"1000000", 1000000}, {"007", 7}, {"1e3", 1000}, {"2.0", 2}, {"0.50", 0.5}, {"10.00", 10}, {"12345678", 12345678}, {"1E2", 100}, {".5", 0.5},
	// a leading zero is a zero, not a base
	{"010", 10}, {"0100", 100}, {"017", 17}, {"0755", 755}, {"00012", 12}}

// c01Twin puts one statement's string constant and numeric constant under the
// same spelling: s1 holds the text (and what the number prints as), n1 holds
// the number, and the predicate names both constants, in separate atoms.
func c01Twin(c *fw.Case, t *gen.Table, g *gen.PredGen, rest gen.Pred) (gen.Pred, map[float64]string) {
	sp := gen.Pick(c.R, c01Spellings)
	printed := fmt.Sprint(sp.v)
	for _, row := range t.Rows {
		switch c.Intn(4) {
		case 0:
			row["s1"] = sp.text
		case 1:
			row["s1"] = printed
		}
		if c.Chance(0.5) {
			row["n1"] = sp.v
		}
	}
	var a, b gen.Pred
	switch c.Intn(4) {
	case 0:
		a = gen.Cmp{L: gen.Operand{IsCol: true, Col: "s1"}, Op: gen.Pick(c.R, []string{"=", "!=", "<", ">="}), R: gen.Operand{Lit: sp.text}}
	case 1:
		a = gen.In{Col: "s1", Items: []any{sp.text}, Neg: c.Chance(0.5)}
	case 2:
		a = gen.Like{Col: "s1", Pattern: sp.text, Neg: c.Chance(0.3)}
	default:
		a = gen.Cmp{L: gen.Operand{Lit: sp.text}, Op: "=", R: gen.Operand{IsCol: true, Col: "s1"}}
	}
	switch c.Intn(3) {
	case 0:
		b = gen.Cmp{L: gen.Operand{IsCol: true, Col: "n1"}, Op: gen.Pick(c.R, []string{"=", "!=", "<", ">="}), R: gen.Operand{Lit: sp.v}}
	case 1:
		b = gen.Between{Col: "n1", Lo: sp.v, Hi: sp.v, Neg: c.Chance(0.3)}
	default:
		b = gen.In{Col: "n1", Items: []any{sp.v}, Neg: c.Chance(0.3)}
	}
	if c.Chance(0.5) {
		a, b = b, a
	}
	var p gen.Pred
	switch c.Intn(3) {
	case 0:
		p = gen.And{A: a, B: b}
	case 1:
		p = gen.Or{A: a, B: b}
	default:
		p = gen.Not{A: gen.Or{A: a, B: b}}
	}
	if c.Chance(0.3) {
		p = gen.Or{A: p, B: rest}
	}
	return p, map[float64]string{sp.v: sp.text}
}

// c01LongIn: a literal list of 16..40 constants over a column of whole numbers
// from a million on (the column is handed over as native Go integers by the
// caller): whatever a long list is turned into - a set, a sorted slice - its
// members are the same numbers.
func c01LongIn(c *fw.Case, t *gen.Table, g *gen.PredGen, rest gen.Pred) gen.Pred {
	scale := gen.Pick(c.R, []float64{1e6, 1e6, 1e7, 12345678})
	var pool []any
	seen := map[float64]bool{}
	for _, row := range t.Rows {
		f, ok := row["n1"].(float64)
		if !ok {
			continue
		}
		f = math.Trunc(f) * scale
		if f > 1e15 || f < -1e15 {
			f = scale
		}
		row["n1"] = f
		if !seen[f] {
			seen[f] = true
			pool = append(pool, f)
		}
	}
	if len(pool) == 0 {
		pool = []any{scale}
	}
	t.Pools["n1"] = pool
	n := 16 + c.Intn(25)
	items := make([]any, n)
	for i := range items {
		v := pool[c.Intn(len(pool))].(float64)
		switch c.Intn(4) {
		case 0:
			v += scale
		case 1:
			v = float64(c.Intn(2000000))
		}
		items[i] = v
	}
	c.Feature("in.long-list")
	var in gen.Pred = gen.In{Col: "n1", Items: items, Neg: c.Chance(0.4)}
	switch c.Intn(4) {
	case 0:
		return gen.And{A: in, B: rest}
	case 1:
		return gen.Or{A: rest, B: in}
	}
	return in
}

var c01StampPool = []any{"2024-03-01T10:00:00Z", "2024-03-01T10:00:00.5Z", "2024-03-01T12:00:00+02:00", "2024-03-01T09:59:59-01:00", "2024-03-01T10:00:00+00:00",
	"2024-03-01T10:00:01Z", "2024-03-01", "2024-03-01T03:00:00-07:00", "2024-02-29T23:30:00-02:00", "2024-03-01T10:00:00.25+00:30", "2024-03-01 10:00:00", "2023-12-31T23:59:60Z"}

// c01Stamps: a string column of timestamps written in different ways (zones,
// fractions): strings compare as strings, so BETWEEN agrees with >= and <=.
func c01Stamps(c *fw.Case, t *gen.Table, g *gen.PredGen, rest gen.Pred) gen.Pred {
	for _, row := range t.Rows {
		if _, ok := row["s1"].(string); ok {
			row["s1"] = gen.Pick(c.R, c01StampPool)
		}
	}
	t.Pools["s1"] = c01StampPool
	lo, hi := gen.Pick(c.R, c01StampPool).(string), gen.Pick(c.R, c01StampPool).(string)
	if c.Chance(0.8) && lo > hi {
		lo, hi = hi, lo
	}
	c.Feature("between.timestamps")
	var b gen.Pred = gen.Between{Col: "s1", Lo: lo, Hi: hi, Neg: c.Chance(0.3)}
	switch c.Intn(5) {
	case 0:
		return gen.And{A: b, B: rest}
	case 1:
		return gen.Or{A: rest, B: b}
	case 2:
		return gen.Cmp{L: gen.Operand{IsCol: true, Col: "s1"}, Op: gen.Pick(c.R, []string{"<", "<=", ">", ">=", "="}), R: gen.Operand{Lit: lo}}
	}
	return b
}

func c01Pred(c *fw.Case) {
	t, other := c01Tables(c)
	g := &gen.PredGen{R: c.R, T: t, Other: other, MaxDepth: pick(c.Tier, 4, 7), Correlate: true, TopN: true, HugeConsts: c.Idx%7 == 3 || c.Chance(0.15)}
	if c.Idx < 3*len(c01Forced) {
		g.Force = c01Forced[c.Idx%len(c01Forced)]
	}
	// how the columns are named: plainly; qualified by the table's alias;
	// without the alias although the table has one; with the table's own name
	naming := ""
	pathMode := false
	if g.Force == "" {
		switch c.Intn(12) {
		case 0, 1:
			naming = "alias"
		case 2:
			naming = "alias-unqualified"
			g.Correlate = false
		case 3:
			naming = "table-qualified"
			g.Correlate = false
			if c.Chance(0.5) {
				// the table sits under a path (FROM db.t1): its name is the path's last part, or the whole path
				pathMode = true
				g.Disable = map[string]bool{"in.subquery": true}
			}
		}
	}
	if (c.Idx%50 == 41 || (g.Force == "" && naming == "" && c.Chance(0.03))) && len(t.Rows) > 0 {
		c01Dual(c, t, g)
		return
	}
	p := g.Gen()
	longIn := false
	if g.Force == "" && !pathMode {
		switch {
		case c.Idx%50 == 23 || c.Chance(0.03):
			p = c01LongIn(c, t, g, p)
			longIn = true
		case c.Idx%50 == 27 || c.Chance(0.03):
			p = c01Stamps(c, t, g, p)
		}
	}
	var numText map[float64]string
	if c.Idx%50 == 17 || (g.Force == "" && c.Chance(0.03)) {
		p, numText = c01Twin(c, t, g, p)
	}
	if numText == nil && g.HugeConsts && c.Chance(0.5) {
		// the largest int64, which is 2^63 once it is read as a double
		numText = map[float64]string{9223372036854775808: "9223372036854775807"}
	}
	alias, qualifier := "", ""
	switch naming {
	case "alias":
		alias, qualifier = "x", "x"
	case "alias-unqualified":
		alias = "x"
	case "table-qualified":
		qualifier = "t1"
		if pathMode && c.Chance(0.4) {
			qualifier = "db.t1"
		}
	}
	where, feats := c01Render(c, p, qualifier, numText)
	pgOpt := g.Force == "" && (c.Idx%50 == 33 || c.Chance(0.05))
	if pgOpt {
		where, feats = c01RenderPG(c, p, qualifier, numText)
	}
	sql := "SELECT * FROM t1 WHERE " + where
	if alias != "" {
		sql = "SELECT * FROM t1 x WHERE " + where
		feats = append(feats, "from.alias")
	}
	if naming != "" {
		feats = append(feats, "naming."+naming)
	}
	// reference
	var want []map[string]any
	env := ref.Env{Tables: tablesOf(t, other)}
	for _, row := range t.Rows {
		env.Row = row
		ok, err := ref.EvalPred(p, env)
		if err != nil {
			c.Discard("reference: " + err.Error())
			return
		}
		if ok {
			want = append(want, row)
		}
	}
	doc := DocOf(t, other)
	if pathMode {
		doc = map[string]any{"db": doc}
		sql = strings.Replace(sql, " FROM t1 ", " FROM db.t1 ", 1)
		feats = append(feats, "naming.table-qualified.path")
	}
	if c.Idx%7 == 3 || c.Chance(0.1) || longIn {
		// one numeric column arrives as natively typed Go integers
		rows, _ := doc["t1"].([]any)
		if pathMode {
			rows = doc["db"].(map[string]any)["t1"].([]any)
		}
		ncol := gen.Pick(c.R, []string{"n1", "n2"})
		if longIn {
			ncol = "n1"
		}
		nativize(c, rows, ncol)
		feats = append(feats, "native-int")
		if strings.Contains(sql, "92233720368547") || strings.Contains(sql, "18446744073709551616") || strings.Contains(sql, "10000000000000000000") {
			feats = append(feats, "const.int64-edge")
		}
	}
	var opts []genql.QueryOption
	if c.Idx%50 == 29 || c.Chance(0.05) {
		// the array-literal rewrite leaves every constant as it is
		opts = append(opts, genql.IdomaticArrays())
		feats = append(feats, "opt.idiomatic-arrays")
	}
	if pgOpt {
		// the identifier rewrite leaves every constant as it is
		opts = append(opts, genql.PostgresEscapingDialect())
		feats = append(feats, "opt.pg")
	}
	o := Run(doc, sql, opts...)
	c.Feature(feats...)
	sample := map[string]any{"sql": sql, "table_rows": len(t.Rows), "expected_rids": ridsOfRows(want), "options": len(opts)}
	c.Sample(sample)
	detail := func() map[string]any {
		return map[string]any{"sql": sql, "doc": doc, "expected_rids": ridsOfRows(want), "observed": o.Describe()}
	}
	if !o.OK() {
		c.Violate("error", fmt.Sprintf("in-domain predicate failed: %v", o.Describe()), detail())
		return
	}
	got := o.Rows
	if alias != "" {
		un := make([]any, len(got))
		for i, r := range got {
			if m, ok := r.(map[string]any); ok {
				un[i] = m[alias]
			}
		}
		got = un
	}
	wantAny := make([]any, len(want))
	for i, r := range want {
		wantAny[i] = r
	}
	if !val.SameSeq(Rids(got), ridsOfRows(want)) {
		c.Violate("wrong-rows", fmt.Sprintf("WHERE kept rids %v, reference keeps %v", Rids(got), ridsOfRows(want)), detail())
		return
	}
	if !val.SameSeq(got, wantAny) {
		c.Violate("wrong-row-content", "kept rows differ from the source rows", detail())
		return
	}
	if len(want) > 0 && len(want) < len(t.Rows) {
		c.Nontrivial(sql + "|" + val.Canon(t.Array()))
	}
}

// c01Laws: metamorphic relations between real executions.
func c01Laws(c *fw.Case) {
	t, other := c01Tables(c)
	if len(t.Rows) == 0 && c.Chance(0.8) {
		t, other = c01Tables(c)
	}
	g := &gen.PredGen{R: c.R, T: t, Other: other, MaxDepth: pick(c.Tier, 3, 5)}
	doc := DocOf(t, other)
	ro := gen.RenderOpts{Quote: gen.Quoting(c.Intn(2)), StrStyle: c.Intn(2)}
	run := func(where string) ([]any, bool) {
		sql := "SELECT rid FROM t1"
		if where != "" {
			sql += " WHERE " + where
		}
		o := Run(doc, sql)
		if !o.OK() {
			c.Violate("error", fmt.Sprintf("in-domain query failed: %v", o.Describe()), map[string]any{"sql": sql, "doc": doc})
			return nil, false
		}
		return Rids(o.Rows), true
	}
	all, ok := run("")
	if !ok {
		return
	}
	merge := func(a, b []any) []any { // merge two increasing rid sequences
		var out []any
		i, j := 0, 0
		for i < len(a) || j < len(b) {
			switch {
			case j >= len(b) || (i < len(a) && a[i].(float64) < b[j].(float64)):
				out = append(out, a[i])
				i++
			default:
				out = append(out, b[j])
				j++
			}
		}
		return out
	}
	var sqlA, sqlB string
	var a, b []any
	switch c.Idx % 3 {
	case 0:
		p := g.Gen()
		sqlA = gen.RenderPred(p, ro)
		sqlB = "NOT (" + sqlA + ")"
		c.Feature("law.partition")
	case 1:
		p := g.Atom("in").(gen.In)
		p.Neg = false
		sqlA = gen.RenderPred(p, ro)
		p.Neg = true
		sqlB = gen.RenderPred(p, ro)
		c.Feature("law.notin")
	default:
		p := g.Atom("between").(gen.Between)
		p.Neg = false
		sqlA = gen.RenderPred(p, ro)
		ge := gen.Cmp{L: gen.Operand{Col: p.Col, IsCol: true}, R: gen.Operand{Lit: p.Lo}, Op: ">="}
		le := gen.Cmp{L: gen.Operand{Col: p.Col, IsCol: true}, R: gen.Operand{Lit: p.Hi}, Op: "<="}
		sqlB = gen.RenderPred(gen.And{A: ge, B: le}, ro)
		c.Feature("law.between")
		a, ok = run(sqlA)
		if !ok {
			return
		}
		b, ok = run(sqlB)
		if !ok {
			return
		}
		c.Sample(map[string]any{"law": "between", "a": sqlA, "b": sqlB, "rids": a})
		if !val.SameSeq(a, b) {
			c.Violate("law-between", fmt.Sprintf("`%s` keeps %v but `%s` keeps %v", sqlA, a, sqlB, b), map[string]any{"doc": doc, "a": sqlA, "b": sqlB})
		}
		if len(a) > 0 && len(a) < len(all) {
			c.Nontrivial(sqlA + "|" + val.Canon(t.Array()))
		}
		return
	}
	a, ok = run(sqlA)
	if !ok {
		return
	}
	b, ok = run(sqlB)
	if !ok {
		return
	}
	c.Sample(map[string]any{"law": "complement", "a": sqlA, "b": sqlB, "rids_a": a, "rids_b": b})
	if !val.SameSeq(merge(a, b), all) {
		c.Violate("law-partition", fmt.Sprintf("`%s` keeps %v and `%s` keeps %v: not a partition of %v", sqlA, a, sqlB, b, all), map[string]any{"doc": doc, "a": sqlA, "b": sqlB})
	}
	if len(a) > 0 && len(b) > 0 {
		c.Nontrivial(sqlA + "|" + val.Canon(t.Array()))
	}
}

// c01Dual: dual is a source of exactly one row (the document itself): WHERE
// keeps it or drops it like any other row.
func c01Dual(c *fw.Case, t *gen.Table, g *gen.PredGen) {
	g.Disable = map[string]bool{"in.subquery": true}
	g.Force = ""
	p := g.Gen()
	row := t.Rows[c.Intn(len(t.Rows))]
	where, feats := c01Render(c, p, "")
	sql := "SELECT rid FROM dual WHERE " + where
	keep, err := ref.EvalPred(p, ref.Env{Row: row})
	if err != nil {
		c.Discard("reference: " + err.Error())
		return
	}
	doc := map[string]any{}
	for k, v := range row {
		doc[k] = v
	}
	o := Run(doc, sql)
	c.Feature(append(feats, "source.dual")...)
	c.Sample(map[string]any{"sql": sql, "kept": keep})
	det := map[string]any{"sql": sql, "doc": doc, "expected_kept": keep, "observed": o.Describe()}
	if !o.OK() {
		c.Violate("error", fmt.Sprintf("in-domain predicate over dual failed: %v", o.Describe()), det)
		return
	}
	var want []any
	if keep {
		want = []any{map[string]any{"rid": row["rid"]}}
	}
	if !(len(want) == 0 && len(o.Rows) == 0) && !val.SameSeq(o.Rows, want) {
		c.Violate("wrong-rows", fmt.Sprintf("WHERE over dual returned %s, the predicate is %v on the one row", short(val.Canon(o.Rows), 120), keep), det)
		return
	}
	c.Nontrivial(sql + "|" + val.Canon(doc))
}

// c01Reexec: one Query object kept and executed several times while a variable
// its predicate reads, or the document itself, changes in between: every
// execution keeps exactly the rows that satisfy the predicate then.
func c01Reexec(c *fw.Case) {
	t, other := c01Tables(c)
	if len(t.Rows) == 0 || len(t.Pools["n1"]) == 0 {
		c.Discard("empty table")
		return
	}
	g := &gen.PredGen{R: c.R, T: t, Other: other, MaxDepth: 2}
	extra, _ := c01Render(c, g.Gen(), "")
	form := c.Intn(5)
	var where string
	switch form {
	case 0:
		where = "n1 >= GETVAR('min') AND (" + extra + ")"
	case 1:
		where = "n1 IN (SELECT n1 FROM `<-t2` WHERE n1 >= GETVAR('min'))"
	case 2:
		where = "n1 NOT IN (SELECT n1 FROM `<-t2` WHERE n1 >= GETVAR('min')) OR (" + extra + ")"
	case 3:
		where = "GETVAR('min') <= n1"
	default:
		where = "n1 BETWEEN GETVAR('min') AND 1000000 AND s1 != GETVAR('tag')"
	}
	sql := "SELECT * FROM t1 WHERE " + where
	vars := map[string]any{"min": -1e9, "tag": "no such tag"}
	doc := DocOf(t, other)
	q, nerr := newSafe(doc, sql, genql.WithVars(vars))
	if q == nil {
		c.Discard("query not constructed: " + fmt.Sprint(nerr.Describe()))
		return
	}
	mutate := c.Chance(0.4)
	if mutate {
		c.Feature("reexec.document")
	}
	c.Feature("reexec.vars")
	nontrivial := false
	for i := 0; i < 4; i++ {
		switch {
		case i == 0:
		case mutate && i%2 == 0:
			// the caller edits its document in place between executions
			rows := doc["t1"].([]any)
			r := rows[c.Intn(len(rows))].(map[string]any)
			r["n1"] = gen.Pick(c.R, t.Pools["n1"])
			if o2 := doc["t2"].([]any); len(o2) > 0 {
				o2[c.Intn(len(o2))].(map[string]any)["n1"] = gen.Pick(c.R, t.Pools["n1"])
			}
		default:
			vars["min"] = gen.Pick(c.R, t.Pools["n1"])
			if c.Chance(0.3) && len(t.Pools["s1"]) > 0 {
				vars["tag"] = gen.Pick(c.R, t.Pools["s1"])
			}
		}
		got := execBuilt(q)
		fresh := Run(val.CopyMap(doc), sql, genql.WithVars(map[string]any{"min": vars["min"], "tag": vars["tag"]}))
		c.Evals(2)
		if !fresh.OK() {
			c.Discard("a fresh query fails")
			return
		}
		if !got.OK() || !(len(got.Rows) == 0 && len(fresh.Rows) == 0) && !val.SameSeq(got.Rows, fresh.Rows) {
			c.Violate("reexec-stale", fmt.Sprintf("execution %d of the same Query (min = %v) kept rids %v, a fresh query keeps %v", i+1, vars["min"], Rids(got.Rows), Rids(fresh.Rows)),
				map[string]any{"sql": sql, "doc": val.Copy(doc), "execution": i + 1, "vars": val.CopyMap(vars), "observed": got.Describe(), "fresh_query": fresh.Describe()})
			return
		}
		if len(fresh.Rows) > 0 && len(fresh.Rows) < len(t.Rows) {
			nontrivial = true
		}
	}
	c.Sample(map[string]any{"sql": sql, "document_edited": mutate})
	if nontrivial {
		c.Nontrivial(sql + "|" + val.Canon(t.Array()))
	}
}
