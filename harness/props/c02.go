package props

import (
	"errors"
	"fmt"
	"math"
	"sort"
	"strings"

	"github.com/vedadiyan/genql"

	"verifharness/internal/fw"
	"verifharness/internal/gen"
	"verifharness/internal/ref"
	"verifharness/internal/val"
)

var c02Forced = []string{"bin.plus", "bin.minus", "bin.mult", "bin.div", "bin.intdiv", "bin.mod", "bin.bitand", "bin.bitor", "bin.bitxor", "bin.shl", "bin.shr",
	"un.minus", "un.tilde", "un.bang", "case.else", "case.noelse", "null.operand", "item.star", "ref.path", "ref.path.bare", "ref.missing", "from.alias", "where", "opt.pg", "naming.alias-unqualified", "naming.table-qualified", "row.envelope", "ref.range", "source.inner-arrays", "column.non-ascii"}

func init() {
	fw.Register(&fw.Prop{
		ID:    "C02",
		Title: "Projection emits one row per kept row with correctly computed columns",
		Level: "exploration",
		Rule: "finite results through an infinite intermediate; inner-array sources under the naming modes. the table also as inner arrays of a fan-out path (with and without WHERE); column names with letters beyond ASCII, plain and qualified. select lists also under every column naming mode, over envelope rows, with missing names that begin with the table's name and with open-ended range paths over per-row arrays. a share of the cases is spelled with double-quoted identifiers and run under PostgresEscapingDialect. each case = random table x select list of 1..8 items (*, bare/qualified columns, back-ticked nested paths, aliased expression trees of depth 0..5 over + - * / DIV % & | ^ << >>, unary - ~ !, CASE WHEN [ELSE], literals, missing keys, NULL operands) " +
			"x optional WHERE from the C01 grammar; the real Exec output is compared with a reference evaluator that performs the same IEEE-754 operations in the same association order (bit-exact, no tolerance): row count, key set and every value. " +
			"Out-of-domain trees (zero divisor, non-finite intermediate, non-integral/negative operands of integer operators, unary operator on NULL) are discarded and counted. Non-trivial = at least one output row and at least one computed (non-column) item; distinct = distinct (table, SQL).",
		Assumptions: []string{
			"expression trees are rendered fully parenthesised (operator precedence is the parser's business)",
			"bit operators and ~ are asserted on non-negative integers within 2^53 with Go int64 semantics; shift counts 0..62",
			"every non-column item is aliased; -0 and +0 are equal",
		},
		Floor:         append([]string{"item.bare", "item.aliased", "lit.str", "lit.null", "nullresult", "source.inner-arrays.no-where", "source.inner-arrays.named", "arith.through-infinity", "arith.null-left"}, c02Forced...),
		MinNontrivial: 50,
		Phases: []fw.Phase{
			{Name: "proj", N: func(t fw.Tier) int { return pick(t, 16000, 500000) }, Run: c02Proj},
		},
		Witness: sqlWitness,
	})
}

// c02Table: numeric-heavy table with nested objects and nullable columns.
func c02Table(c *fw.Case, name string) *gen.Table {
	t := gen.RandTable(c.R, gen.TableSpec{Name: name, MaxRows: pick(c.Tier, 10, 30), NumCols: 3, StrCols: 1, BoolCols: 1, NullCols: 2, StrStyle: gen.Hostile})
	for _, row := range t.Rows {
		row["o1"] = map[string]any{"p": gen.RandNum(c.R), "q": map[string]any{"r": float64(c.Intn(9))}}
		// an array whose length differs from row to row
		ar := make([]any, 1+c.Intn(4))
		for i := range ar {
			ar[i] = float64(c.Intn(9))
		}
		row["ar"] = ar
	}
	return t
}

func c02Proj(c *fw.Case) {
	t := c02Table(c, "t1")
	force := ""
	if c.Idx < 3*len(c02Forced) {
		force = c02Forced[c.Idx%len(c02Forced)]
	}
	// the table may have an alias; the columns are then named with it - or,
	// in a share of the cases, without it; an un-aliased table's columns may be
	// named with the table's own name
	alias, qualifier := "", ""
	switch {
	case force == "from.alias" || (force == "" && c.Chance(0.15)):
		alias, qualifier = "x", "x"
	case force == "naming.alias-unqualified" || (force == "" && c.Chance(0.07)):
		alias = "x"
	case force == "naming.table-qualified" || (force == "" && c.Chance(0.07)):
		qualifier = "t1"
	}
	pg := &gen.PredGen{R: c.R, T: t, MaxDepth: 2, Disable: map[string]bool{"in.subquery": true}}
	eg := &gen.ExprGen{R: c.R, T: t, PG: pg, MaxDepth: pick(c.Tier, 4, 5),
		NumRefs: []string{"n1", "n2", "n3", "o1.p", "o1.q.r"}, NullRefs: []string{"z1", "zz"}}
	var items []gen.SelectItem
	useRange := false
	n := 1 + c.Intn(8)
	computed := false
	for i := 0; i < n; i++ {
		k := c.Intn(12)
		f := ""
		if i == 0 {
			f = force
		}
		switch {
		case f == "item.star" || (f == "" && k == 0):
			items = append(items, gen.SelectItem{Star: true})
		case f == "ref.missing":
			items = append(items, gen.SelectItem{E: gen.ColRef{Name: "zz"}}, gen.SelectItem{E: gen.ColRef{Name: "t1_n1"}})
		case f == "ref.range" || (f == "" && k == 4 && qualifier == "" && alias == ""):
			// a path with an open-ended range: the tail of each row's own array
			items = append(items, gen.SelectItem{E: gen.ColRef{Name: "ar_tail"}, Alias: gen.AliasN(i)})
			useRange = true
		case f == "ref.path" || f == "ref.path.bare":
			items = append(items, gen.SelectItem{E: gen.ColRef{Name: "o1.q.r"}, Alias: gen.AliasN(i)})
		case f == "un.bang" || (f == "" && k == 1):
			items = append(items, gen.SelectItem{E: gen.Bang{P: pg.Gen()}, Alias: gen.AliasN(i)})
			computed = true
		case f == "" && k == 2:
			cols := []string{"n1", "n2", "s1", "b1", "z1", "z2", "zz", "rid", "t1_n1", "t1xrid", "t1n2"}
			items = append(items, gen.SelectItem{E: gen.ColRef{Name: gen.Pick(c.R, cols)}})
		case f == "" && k == 3:
			var e gen.Expr
			switch c.Intn(4) {
			case 0:
				e = gen.StrLit{S: gen.RandString(c.R, gen.Hostile, 3)}
			case 1:
				e = gen.NullLit{}
			case 2:
				e = gen.ColRef{Name: gen.Pick(c.R, []string{"o1.p", "o1.q.r", "o1.zz", "s1", "b1"})}
			default:
				// CASE returning a column / string / number
				e = gen.Case{Whens: []gen.When{{Cond: pg.Gen(), Val: gen.ColRef{Name: "s1"}}}, Else: gen.StrLit{S: gen.RandString(c.R, gen.Plain, 2)}}
				if c.Chance(0.5) {
					e = gen.Case{Whens: []gen.When{{Cond: pg.Gen(), Val: gen.StrLit{S: "yes"}}, {Cond: pg.Gen(), Val: gen.ColRef{Name: "n2"}}}}
				}
				computed = true
			}
			items = append(items, gen.SelectItem{E: e, Alias: gen.AliasN(i)})
		default:
			eg.Force = ""
			if f != "" && f != "from.alias" && f != "where" && !strings.HasPrefix(f, "naming.") && f != "opt.pg" && f != "source.inner-arrays" && f != "column.non-ascii" {
				eg.Force = f
			}
			items = append(items, gen.SelectItem{E: eg.Gen(), Alias: gen.AliasN(i)})
			computed = true
		}
	}
	if force == "" && c.Chance(0.05) {
		// IEEE doubles: an intermediate may overflow to infinity and the result be finite again
		big := gen.Bin{Op: "*", L: gen.Bin{Op: "+", L: gen.Bin{Op: "*", L: gen.ColRef{Name: "n1"}, R: gen.ColRef{Name: "n1"}}, R: gen.NumLit{V: 1}}, R: gen.NumLit{V: 1e308}}
		inf := gen.Bin{Op: "*", L: big, R: gen.NumLit{V: 10}}
		items = append(items, gen.SelectItem{E: gen.Bin{Op: "/", L: gen.NumLit{V: float64(1 + c.Intn(9))}, R: inf}, Alias: "thru_inf"})
		computed = true
	}
	if force == "" && c.Chance(0.04) {
		// a NULL left operand makes the operator NULL - the right operand, itself undefined for NULL, is not asked
		items = append(items, gen.SelectItem{E: gen.Bin{Op: gen.Pick(c.R, []string{"*", "+", "-", "/"}), L: gen.ColRef{Name: "zz"}, R: gen.Neg{E: gen.ColRef{Name: "zz"}}}, Alias: "null_left"})
		computed = true
	}
	var where gen.Pred
	if force == "where" || c.Chance(0.4) {
		where = pg.Gen()
	}
	envelope := false
	if force == "row.envelope" || (force == "" && alias == "" && qualifier == "" && c.Chance(0.05)) {
		// envelope rows: a row is {"env": {...}} and nothing else (or carries
		// one more key); a column of the inner object named without its path
		// is a missing key
		envelope = true
		where = nil
		for i, row := range t.Rows {
			outer := map[string]any{"env": row}
			if c.Chance(0.4) {
				outer["rid"] = row["rid"]
			}
			t.Rows[i] = outer
		}
		items = items[:0]
		computed = true
		for i, n := 0, 2+c.Intn(4); i < n; i++ {
			inner := gen.ColRef{Name: "env." + gen.Pick(c.R, []string{"n1", "n2", "n3", "o1.p"})}
			missing := gen.ColRef{Name: gen.Pick(c.R, []string{"n1", "n2", "n3", "s1", "o1.p"})}
			op := gen.Pick(c.R, []string{"+", "-", "*"})
			switch c.Intn(5) {
			case 0:
				if strings.Contains(missing.Name, ".") {
					items = append(items, gen.SelectItem{E: missing, Alias: gen.AliasN(i)})
				} else {
					items = append(items, gen.SelectItem{E: missing})
				}
			case 1:
				items = append(items, gen.SelectItem{E: inner, Alias: gen.AliasN(i)})
			case 2:
				items = append(items, gen.SelectItem{E: gen.Bin{Op: op, L: missing, R: gen.NumLit{V: gen.RandNum(c.R)}}, Alias: gen.AliasN(i)})
			case 3:
				items = append(items, gen.SelectItem{E: gen.Bin{Op: op, L: inner, R: missing}, Alias: gen.AliasN(i)})
			default:
				items = append(items, gen.SelectItem{E: gen.Bin{Op: op, L: inner, R: gen.NumLit{V: gen.RandNum(c.R)}}, Alias: gen.AliasN(i)})
			}
		}
	}
	var feats []string
	ro := gen.RenderOpts{Quote: gen.Quoting(c.Intn(2)), StrStyle: c.Intn(2), Features: &feats, Qualifier: qualifier, BarePaths: force == "ref.path.bare" || c.Chance(0.3)}
	if useRange {
		ro.ColText = map[string]string{"ar_tail": "`ar[(1:end)]`"}
		feats = append(feats, "ref.range")
	}
	// (also with an alias the columns do not use, and with columns qualified by the table's name)
	innerArrays := !envelope && !useRange && (alias == "" && qualifier == "" || alias == "x" && qualifier == "" || qualifier == "t1") && (force == "source.inner-arrays" || (force == "" && c.Chance(0.12)))
	if innerArrays && force == "source.inner-arrays" && c.Idx%2 == 0 {
		where = nil
	}
	// keys with letters beyond ASCII, named plainly or with a qualifier
	var nonASCII map[string]string
	if !envelope && !useRange && (force == "column.non-ascii" || (force == "" && c.Chance(0.08))) {
		nonASCII = map[string]string{"n2": "numéro", "s1": "prénom", "n3": "größe"}
		feats = append(feats, "column.non-ascii")
	}
	// a share of the cases is spelled with double-quoted identifiers and run
	// under PostgresEscapingDialect (the hostile literals hold quotes of every
	// kind and backslashes): the values are what they are without the option
	var opts []genql.QueryOption
	if force == "opt.pg" || (force == "" && c.Chance(0.12)) {
		ro.Quote = gen.QDouble
		opts = append(opts, genql.PostgresEscapingDialect())
		feats = append(feats, "opt.pg")
	}
	if len(nonASCII) > 0 {
		if ro.ColText == nil {
			ro.ColText = map[string]string{}
		}
		for from, to := range nonASCII {
			text := "`" + to + "`"
			if ro.Quote == gen.QDouble {
				text = `"` + to + `"`
			}
			if qualifier != "" {
				text = qualifier + "." + text
			}
			ro.ColText[from] = text
		}
	}
	sql := "SELECT " + gen.RenderItems(items, ro) + " FROM t1"
	if alias != "" {
		sql += " " + alias
		feats = append(feats, "from.alias")
		if qualifier == "" {
			feats = append(feats, "naming.alias-unqualified")
		}
	}
	if qualifier == "t1" {
		feats = append(feats, "naming.table-qualified")
	}
	if envelope {
		feats = append(feats, "row.envelope")
	}
	if where != nil {
		sql += " WHERE " + gen.RenderPred(where, ro)
		feats = append(feats, "where")
	}
	// reference
	var want []any
	nullResult := false
	var wantOf []int // per output row: index of its source row
	for ri, row := range t.Rows {
		env := ref.Env{Row: row}
		if ar, ok := row["ar"].([]any); ok && useRange {
			// the reference reads the tail under a name of its own
			withTail := map[string]any{"ar_tail": append([]any{}, ar[1:]...)}
			for k, v := range row {
				withTail[k] = v
			}
			env.Row = withTail
		}
		if where != nil {
			ok, err := ref.EvalPred(where, env)
			if err != nil {
				c.Discard("reference: " + err.Error())
				return
			}
			if !ok {
				continue
			}
		}
		out := map[string]any{}
		for _, it := range items {
			if it.Star {
				if alias != "" {
					out[alias] = row
				} else {
					for k, v := range row {
						out[k] = v
					}
				}
				continue
			}
			v, err := ref.EvalExpr(it.E, env)
			if err != nil {
				if errors.Is(err, ref.ErrDomain) {
					c.Discard("domain")
					c.Count("discard."+short(err.Error(), 60), 1)
					return
				}
				c.Discard("reference error: " + err.Error())
				return
			}
			if f, ok := v.(float64); ok && (math.IsInf(f, 0) || math.IsNaN(f)) {
				c.Discard("domain")
				c.Count("discard.non-finite result", 1)
				return
			}
			if it.Alias == "null_left" {
				feats = append(feats, "arith.null-left")
			}
			if it.Alias == "thru_inf" {
				feats = append(feats, "arith.through-infinity")
			}
			key := it.Alias
			if key == "" {
				key = it.E.(gen.ColRef).Name
				if key == "zz" {
					feats = append(feats, "ref.missing")
				}
			}
			if v == nil {
				if _, isBin := it.E.(gen.Bin); isBin {
					nullResult = true
				}
			}
			out[key] = v
		}
		want = append(want, out)
		wantOf = append(wantOf, ri)
	}
	if nullResult {
		feats = append(feats, "nullresult", "null.operand")
	}
	doc := DocOf(t)
	if len(nonASCII) > 0 {
		// the document and the expected rows carry the keys under their real names
		doc = renameKeys(val.Copy(doc), nonASCII).(map[string]any)
		for i := range want {
			want[i] = renameKeys(val.Copy(want[i]), nonASCII)
		}
	}
	var chunks [][2]int
	if innerArrays {
		// the table arrives as inner arrays of a fan-out path: grp.t1 over
		// [{t1: rows 0..a}, {t1: rows a..b}, ...]; the result has that nesting
		rows := doc["t1"].([]any)
		var grp []any
		for at := 0; at < len(rows) || len(grp) == 0; {
			n := c.Intn(4)
			if at+n > len(rows) {
				n = len(rows) - at
			}
			grp = append(grp, map[string]any{"t1": rows[at : at+n : at+n]})
			chunks = append(chunks, [2]int{at, at + n})
			at += n
			if n == 0 && at >= len(rows) {
				break
			}
		}
		doc = map[string]any{"grp": grp}
		sql = strings.Replace(sql, " FROM t1", " FROM grp.t1", 1)
		feats = append(feats, "source.inner-arrays")
		if alias != "" || qualifier != "" {
			feats = append(feats, "source.inner-arrays.named")
		}
		if where == nil {
			feats = append(feats, "source.inner-arrays.no-where")
		}
	}
	o := Run(doc, sql, opts...)
	if innerArrays && o.OK() {
		// same nesting, then judged row by row like a flat result
		bad := len(o.Rows) != len(chunks)
		var flat []any
		for i := 0; !bad && i < len(chunks); i++ {
			inner, ok := o.Rows[i].([]any)
			n := 0
			for _, ri := range wantOf {
				if ri >= chunks[i][0] && ri < chunks[i][1] {
					n++
				}
			}
			if !ok || len(inner) != n {
				bad = true
				break
			}
			flat = append(flat, inner...)
		}
		if bad {
			c.Feature(feats...)
			c.Violate("nesting", fmt.Sprintf("the result of a query over %d inner arrays does not have their nesting (or an inner result has the wrong length): %s", len(chunks), short(val.Canon(o.Rows), 300)),
				map[string]any{"sql": sql, "doc": doc, "expected_flat": want, "chunks": chunks, "observed": o.Describe()})
			return
		}
		o.Rows = flat
	}
	c.Feature(feats...)
	c.Sample(map[string]any{"sql": sql, "rows_in": len(t.Rows), "rows_out": len(want), "first_expected": first(want)})
	detail := func() map[string]any {
		return map[string]any{"sql": sql, "doc": doc, "expected": want, "observed": o.Describe()}
	}
	if !o.OK() {
		c.Violate("error", fmt.Sprintf("in-domain projection failed: %v", o.Describe()), detail())
		return
	}
	if len(o.Rows) != len(want) {
		c.Violate("row-count", fmt.Sprintf("%d output rows, expected %d", len(o.Rows), len(want)), detail())
		return
	}
	for i := range want {
		got, ok := o.Rows[i].(map[string]any)
		if !ok {
			c.Violate("row-shape", fmt.Sprintf("row %d is %T, not an object", i, o.Rows[i]), detail())
			return
		}
		w := want[i].(map[string]any)
		if gk, wk := keysOf(got), keysOf(w); fmt.Sprint(gk) != fmt.Sprint(wk) {
			c.Violate("key-set", fmt.Sprintf("row %d has keys %v, expected %v", i, gk, wk), detail())
			return
		}
		for k, wv := range w {
			if !val.Equal(got[k], wv) {
				c.Violate("value", fmt.Sprintf("row %d column %q = %s, expected %s", i, k, short(val.Canon(got[k]), 80), short(val.Canon(wv), 80)), detail())
				return
			}
		}
	}
	// the same query once more on the very same document object: a first run
	// must not have rearranged the caller's table
	if c.Chance(0.3) {
		o2 := Run(doc, sql, opts...)
		if innerArrays && o2.OK() {
			var flat []any
			for _, inner := range o2.Rows {
				if in, ok := inner.([]any); ok {
					flat = append(flat, in...)
				} else {
					flat = append(flat, inner)
				}
			}
			o2.Rows = flat
		}
		if !o2.OK() || !(len(o2.Rows) == 0 && len(want) == 0) && !val.SameSeq(o2.Rows, want) {
			d := detail()
			d["second_run"] = o2.Describe()
			c.Violate("second-run", fmt.Sprintf("a second run of the query on the same document object returned %s", short(fmt.Sprint(o2.Describe()), 300)), d)
			return
		}
		c.Evals(1)
	}
	if len(want) > 0 && computed {
		c.Nontrivial(sql + "|" + val.Canon(t.Array()))
	}
}

// renameKeys renames object keys, at every depth, in place.
func renameKeys(v any, names map[string]string) any {
	switch t := v.(type) {
	case map[string]any:
		for k, x := range t {
			x = renameKeys(x, names)
			if to, ok := names[k]; ok {
				delete(t, k)
				t[to] = x
			} else {
				t[k] = x
			}
		}
	case []any:
		for i := range t {
			t[i] = renameKeys(t[i], names)
		}
	}
	return v
}

func keysOf(m map[string]any) []string {
	out := make([]string, 0, len(m))
	for k := range m {
		out = append(out, k)
	}
	sort.Strings(out)
	return out
}

func first(rows []any) any {
	if len(rows) == 0 {
		return nil
	}
	return rows[0]
}
