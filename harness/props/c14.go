package props

import (
	"fmt"
	"runtime"
	"sort"
	"strings"
	"sync/atomic"
	"time"

	"github.com/vedadiyan/genql"

	"verifharness/internal/fw"
	"verifharness/internal/gen"
	"verifharness/internal/ref"
	"verifharness/internal/val"
)

// ---------------------------------------------------------------------------
// Invocation ledger: an append-only log ordered by one atomic counter. Each
// slot is published with an atomic flag, so reading the log never races with
// an instrumented function that is (wrongly) still running.

const (
	evStart = 1
	evEnd   = 2
	evRet   = 3
)

type ledgerEvent struct {
	ready atomic.Int32
	kind  int32
	row   int32
	site  int32
}

var ledger struct {
	n      atomic.Int64
	events [1 << 14]ledgerEvent
}

func ledgerReset() {
	n := int(ledger.n.Load())
	if n > len(ledger.events) {
		n = len(ledger.events)
	}
	for i := 0; i < n; i++ {
		ledger.events[i].ready.Store(0)
	}
	ledger.n.Store(0)
}

func ledgerAppend(kind, row, site int32) int64 {
	i := ledger.n.Add(1) - 1
	if int(i) < len(ledger.events) {
		e := &ledger.events[i]
		e.kind, e.row, e.site = kind, row, site
		e.ready.Store(1)
	}
	return i
}

type ledgerView struct {
	kind, row, site int32
	seq             int64
}

func ledgerSnapshot() []ledgerView {
	n := int(ledger.n.Load())
	if n > len(ledger.events) {
		n = len(ledger.events)
	}
	var out []ledgerView
	for i := 0; i < n; i++ {
		e := &ledger.events[i]
		if e.ready.Load() == 1 {
			out = append(out, ledgerView{e.kind, e.row, e.site, int64(i)})
		}
	}
	return out
}

// vfEntered / vfExited count instrumented calls begun / finished since the
// process started; the check uses them to wait for detached (SPIN) calls,
// including ones whose goroutine has not started yet.
var vfEntered, vfExited atomic.Int64

// latency plan: (site,row) -> behaviour; written before the query starts,
// read-only while it runs.
var latPlan map[[2]int32]int32

func vfValue(arg any, site int32) any {
	switch x := arg.(type) {
	case float64:
		return x*2 + float64(site)
	case string:
		return x + fmt.Sprintf("!%d", site)
	case bool:
		return !x
	case nil:
		return nil // NULL in, NULL out: a memoised NULL is still a memoised value
	}
	return fmt.Sprintf("%v!%d", arg, site)
}

func toI32(v any) int32 {
	if f, ok := v.(float64); ok {
		return int32(f)
	}
	return -1
}

// VF(arg, rowid, site): instrumented pure function.
func vfInstrumented(_ *genql.Query, _ genql.Map, _ *genql.FunctionOptions, args []any) (any, error) {
	if len(args) != 3 {
		return nil, fmt.Errorf("VF needs (arg, rowid, site)")
	}
	row, site := toI32(args[1]), toI32(args[2])
	vfEntered.Add(1)
	defer vfExited.Add(1)
	ledgerAppend(evStart, row, site)
	switch l := latPlan[[2]int32{site, row}]; {
	case l == 0:
	case l == 1:
		runtime.Gosched()
	default:
		time.Sleep(time.Duration(l) * time.Microsecond)
	}
	v := vfValue(args[0], site)
	ledgerAppend(evEnd, row, site)
	return v, nil
}

func init() {
	genql.RegisterFunction("vf", vfInstrumented)
	genql.RegisterFunction("vfonce", vfInstrumented)
	fw.Register(&fw.Prop{
		ID:    "C14",
		Title: "Function execution strategies change timing, never results",
		Level: "exploration",
		Rule: "phase 'once-spelling': one ONCE function in several letter cases. ASYNC calls as the chosen branch of IF; a CTE read by both branches of a UNION; a name registered as plain first and immediate then. phase 'consumed': ASYNC columns of nested queries (derived table, CTE, join operand, IN sub-select, dual) consumed by the enclosing query vs the unqualified call; phase 'reexec-fail': one Query executed four times with a failing background call in one of the executions; an immediate function registered late; ledger shapes with a CTE read twice (named like its table, or from a nested scope); failures inside nested queries and inner dimensions. ledger shapes also: rows spread over 2..3 array levels, ORDER BY / DISTINCT over an async column (oracle: the unqualified query). Phase 'builtin' (race child): ASYNC over built-in functions on 32..288 rows with 256 B..128 KiB payloads vs the unqualified call. Phase 'failwait': a synchronous step fails on row k while background calls are in flight - none may be running when Exec returns its error. phase 'joinop': ASYNC / SPINASYNC / AWAIT(ASYNC) items of derived tables used as join operands (ledger + values + plain data). Ledger cases may carry a LIMIT/OFFSET page (also empty): rows the page drops must have no call running at exec-return. each case = a table of 0..12 rows x a select list mixing 1..4 calls of an instrumented pure function VF(arg, rowid, site) - unqualified, ASYNC., SPINASYNC., SPIN., ONCE. - with plain columns and *, optional WHERE, also inside a select-list subquery; run under 3 (thorough 12) latency profiles (zero, yield, random 10-500us, skewed so that later rows finish first, one 5 ms straggler). " +
			"The function logs call-start / call-end into an append-only ledger ordered by one atomic counter and the check logs exec-return right after Exec returns. Oracle over the ledger and the result: at exec-return every ASYNC and SPINASYNC (row, site) of every kept row has exactly one call-start and one call-end, both earlier; " +
			"each ASYNC column holds exactly the value the pure function gives (and the whole result equals the same query with the qualifiers removed); no unresolved slot or other non-plain value; SPIN / SPINASYNC add no column; ONCE is invoked exactly once per query and every row sees that value. " +
			"Phase 'immediate': every function registered as immediate (17 built-ins + one harness function) x ASYNC/SPIN/SPINASYNC must be rejected with an error. Phase 'race' repeats the ledger workload in a -race child with yields at the hooks inside the background goroutines. " +
			"Non-trivial = a case with at least 2 kept rows and at least one ASYNC or SPINASYNC call; distinct = distinct (table, SQL, latency profile). The evidence reports the distinct completion orders observed.",
		Assumptions: []string{
			"one ONCE call site per query; no LIMIT; function errors under ASYNC belong to C10/C19; SPIN completion before return is not required (only 'adds no column')",
			"ASYNC calls appear as direct select-list items (the README rules out ASYNC inside FROM clauses)",
		},
		Floor:         []string{"q.plain", "q.async", "q.spinasync", "q.spin", "q.once", "q.await-async", "star", "where", "nested", "shape.union", "shape.cte", "shape.cte-shadow-twice", "shape.multidim", "arg.null", "page", "page.empty", "order.async", "distinct.async", "joinop.derived", "joinop.both", "consumed.where", "consumed.aggregate", "consumed.group", "consumed.join-on", "consumed.in-subquery", "consumed.fnarg", "consumed.cte", "consumed.order", "consumed.dual", "failwait.nested", "reexec.async-failure", "shape.cte-nested-twice", "builtin.async", "failwait", "lat.zero", "lat.yield", "lat.random", "lat.skewed", "lat.straggler", "table.empty", "imm.async", "imm.spin", "imm.spinasync", "imm.harness", "imm.harness-mixedcase", "imm.registered-late", "imm.registered-after-plain", "q.async.if-branch", "shape.cte-union", "once.spelled-twice", "once.argument-of-first-row", "async.argument-from-register"},
		MinNontrivial: 30,
		Phases: []fw.Phase{
			{Name: "ledger", N: func(t fw.Tier) int { return pick(t, 2500, 40000) }, Run: func(c *fw.Case) { c14Ledger(c, false) }},
			{Name: "builtin", Race: true, Serial: true, N: func(t fw.Tier) int { return pick(t, 24, 240) }, Run: c14Builtin, Batch: 8},
			{Name: "failwait", N: func(t fw.Tier) int { return pick(t, 300, 6000) }, Run: c14FailWait},
			{Name: "joinop", N: func(t fw.Tier) int { return pick(t, 300, 6000) }, Run: c14JoinOperand},
			{Name: "consumed", N: func(t fw.Tier) int { return pick(t, 400, 8000) }, Run: c14Consumed},
			{Name: "reexec-fail", N: func(t fw.Tier) int { return pick(t, 300, 6000) }, Run: c14ReexecFail},
			{Name: "immediate", N: func(t fw.Tier) int { return len(c14Immediates) * 3 }, Run: c14Immediate},
			{Name: "once-spelling", N: func(t fw.Tier) int { return pick(t, 120, 2000) }, Run: c14OnceSpelling},
			{Name: "race", Race: true, N: func(t fw.Tier) int { return pick(t, 300, 5000) }, Run: func(c *fw.Case) { c14Ledger(c, true) }},
		},
		Witness: sqlWitness,
	})
}

type c14Item struct {
	ifWrap bool // the call is the chosen branch of an IF
	qual   string
	site   int32
	arg    string
	alias  string
}

var c14Profiles = []string{"zero", "yield", "random", "skewed", "straggler"}

func c14Plan(c *fw.Case, profile string, sites []int32, nrows int) {
	plan := map[[2]int32]int32{}
	for _, s := range sites {
		straggler := int32(c.Intn(nrows + 1))
		for r := 0; r < nrows; r++ {
			var l int32
			switch profile {
			case "zero":
				l = 0
			case "yield":
				l = 1
			case "random":
				l = int32(10 + c.Intn(490))
			case "skewed":
				l = int32(20 + (nrows-r)*60)
			case "straggler":
				if int32(r) == straggler {
					l = 5000
				}
			}
			plan[[2]int32{s, int32(r)}] = l
		}
	}
	latPlan = plan
}

func c14Ledger(c *fw.Case, race bool) {
	if race {
		setHookMode(1)
	}
	t := gen.RandTable(c.R, gen.TableSpec{Name: "t1", MaxRows: 12, NumCols: 2, StrCols: 1, BoolCols: 1, NullCols: 1, StrStyle: gen.Plain})
	force := ""
	forced := []string{"q.plain", "q.async", "q.spinasync", "q.spin", "q.once", "q.await-async", "star", "where", "nested", "table.empty", "shape.union", "shape.cte", "shape.multidim", "arg.null", "page", "page.empty", "order.async", "distinct.async"}
	if c.Idx < 3*len(forced) {
		force = forced[c.Idx%len(forced)]
	}
	if force == "table.empty" {
		t.Rows = nil
	}
	var feats []string
	if len(t.Rows) == 0 {
		feats = append(feats, "table.empty")
	}
	nested := force == "nested" || (force == "" && c.Chance(0.15))
	shape := ""
	switch {
	case force == "shape.union" || (force == "" && !nested && c.Chance(0.12)):
		shape = "union"
	case force == "shape.cte" || (force == "" && !nested && c.Chance(0.12)):
		shape = "cte"
	case force == "shape.multidim" || (force == "" && !nested && c.Chance(0.12)):
		// the table's rows spread over an array of arrays (2 or 3 levels)
		shape = "multidim"
	}
	// a CTE named like the table it reads, and read twice (by FROM and, for
	// every row, through the marker): its body still runs once
	cteTwice := shape == "cte" && (force == "shape.cte-shadow-twice" || c.Idx%2 == 0)
	// a CTE that both branches of a union read: its body still runs once
	cteUnion := shape == "cte" && !cteTwice && (force == "shape.cte-union" || c.Idx%3 != 0)
	mult := 1
	if shape == "union" {
		mult = 2
	}
	// a LIMIT/OFFSET page: the background calls of every row that reached the
	// select list are complete at return, whatever the page keeps
	page := force == "page" || force == "page.empty" || (force == "" && !nested && shape == "" && c.Chance(0.2))
	pageLim, pageOff := 0, 0
	// ORDER BY / DISTINCT over a column produced by a background call: the rows
	// are ordered / deduplicated by the values, as with the unqualified call
	byValue := ""
	if !page && !nested && shape == "" {
		switch {
		case force == "order.async" || (force == "" && c.Chance(0.12)):
			byValue = "order"
		case force == "distinct.async" || (force == "" && c.Chance(0.08)):
			byValue = "distinct"
		}
	}
	if shape != "" {
		feats = append(feats, "shape."+shape)
	}
	if nested {
		eid := 0
		for _, row := range t.Rows {
			n := c.Intn(3)
			arr := make([]any, n)
			for i := range arr {
				arr[i] = map[string]any{"e": float64(c.Intn(9)), "eid": float64(eid)}
				eid++
			}
			row["arr"] = arr
		}
	}
	// items
	quals := []string{"", "ASYNC", "SPINASYNC", "SPIN", "ONCE", "AWAIT-ASYNC"}
	n := 1 + c.Intn(4)
	var items []c14Item
	usedOnce := false
	for i := 0; i < n; i++ {
		q := gen.Pick(c.R, quals)
		if i == 0 && strings.HasPrefix(force, "q.") {
			q = map[string]string{"q.plain": "", "q.async": "ASYNC", "q.spinasync": "SPINASYNC", "q.spin": "SPIN", "q.once": "ONCE", "q.await-async": "AWAIT-ASYNC"}[force]
		}
		if page && q == "SPIN" {
			q = "SPINASYNC"
		}
		if byValue != "" {
			if i == 0 {
				q = gen.Pick(c.R, []string{"ASYNC", "AWAIT-ASYNC"})
			} else if q == "ONCE" || q == "SPIN" {
				q = "SPINASYNC"
			}
		}
		if q == "ONCE" {
			if usedOnce || nested || shape == "union" {
				q = "ASYNC"
			}
			usedOnce = true
		}
		arg := gen.Pick(c.R, []string{"n1", "s1", "n2", "b1", "z1"})
		if force == "arg.null" && i == 0 {
			arg = gen.Pick(c.R, []string{"z1", "nokey"})
			if !nested && !usedOnce && shape != "union" {
				q, usedOnce = "ONCE", true
			}
		}
		if arg == "z1" || arg == "nokey" {
			feats = append(feats, "arg.null")
		}
		ifWrap := q == "ASYNC" && !nested && byValue == "" && (c.Idx%25 == 7 || c.Chance(0.1))
		if ifWrap {
			feats = append(feats, "q.async.if-branch")
		}
		items = append(items, c14Item{qual: q, site: int32(i + 1), arg: arg, alias: fmt.Sprintf("a%d", i+1), ifWrap: ifWrap})
		feats = append(feats, map[string]string{"": "q.plain", "ASYNC": "q.async", "SPINASYNC": "q.spinasync", "SPIN": "q.spin", "ONCE": "q.once", "AWAIT-ASYNC": "q.await-async"}[q])
	}
	star := force == "star" || c.Chance(0.2)
	var where gen.Pred
	if force == "where" || c.Chance(0.35) {
		where = (&gen.PredGen{R: c.R, T: t, MaxDepth: 1, Disable: map[string]bool{"in.subquery": true, "isnull": true, "isnotnull": true}}).Gen()
		feats = append(feats, "where")
	}
	orderDir := gen.Pick(c.R, []string{"", " ASC", " DESC"})
	if byValue != "" {
		feats = append(feats, byValue+".async")
	}
	render := func(stripQual bool) string {
		var parts []string
		if byValue == "distinct" {
			// no row identity in the select list: equal values make equal rows
		} else if star && !nested {
			parts = append(parts, "*")
		} else {
			parts = append(parts, "rid")
		}
		var calls []string
		for _, it := range items {
			fn := "VF"
			q := it.qual
			if q == "ONCE" {
				fn = "VFONCE"
			}
			if stripQual && (q == "ASYNC") {
				q = ""
			}
			name := fn
			if q != "" {
				name = q + "." + fn
			}
			idcol := "rid"
			arg := it.arg
			if nested {
				idcol, arg = "eid", "e"
			}
			awaited := q == "AWAIT-ASYNC"
			if awaited {
				name = "ASYNC." + fn
				if stripQual {
					name = fn
				}
			}
			call := fmt.Sprintf("%s(%s, %s, %d)", name, arg, idcol, it.site)
			if awaited {
				call = "AWAIT(" + call + ")"
			}
			if it.ifWrap {
				// the condition holds on every row: the value is the call's
				call = []string{"IF(true, " + call + ", 0)", "IF(rid >= 0, " + call + ", NULL)", "IF(1 > 2, 'no', " + call + ")"}[int(it.site)%3]
			}
			if q == "SPIN" || q == "SPINASYNC" {
				calls = append(calls, call)
			} else {
				calls = append(calls, call+" AS "+it.alias)
			}
		}
		if nested {
			parts = append(parts, "(SELECT eid, "+strings.Join(calls, ", ")+" FROM arr) AS sub")
		} else {
			parts = append(parts, calls...)
		}
		sql := "SELECT " + strings.Join(parts, ", ") + " FROM t1"
		if where != nil {
			sql += " WHERE " + gen.RenderPred(where, gen.RenderOpts{})
		}
		if page {
			sql += fmt.Sprintf(" LIMIT %d OFFSET %d", pageLim, pageOff)
		}
		switch byValue {
		case "order":
			sql += " ORDER BY " + items[0].alias + orderDir + ", rid"
		case "distinct":
			sql = strings.Replace(sql, "SELECT ", "SELECT DISTINCT ", 1)
		}
		switch shape {
		case "union":
			sql = sql + " UNION ALL " + sql
		case "cte":
			if cteTwice && c.Idx%4 == 0 {
				// read twice from inside another CTE whose body has a WITH of its own
				sql = "WITH a AS (" + sql + "), b AS (WITH z AS (SELECT 1 AS one FROM dual) SELECT * FROM a WHERE rid IN (SELECT rid FROM `<-a`)) SELECT * FROM b"
			} else if cteTwice {
				sql = "WITH t1 AS (" + sql + ") SELECT * FROM t1 WHERE rid IN (SELECT rid FROM `<-t1`)"
			} else if cteUnion {
				sql = "WITH c1 AS (" + sql + ") SELECT * FROM c1 UNION ALL SELECT * FROM c1"
			} else {
				sql = "WITH c1 AS (" + sql + ") SELECT * FROM c1"
			}
		}
		return sql
	}
	if star {
		feats = append(feats, "star")
	}
	if cteUnion {
		feats = append(feats, "shape.cte-union")
	}
	if cteTwice && c.Idx%4 == 0 {
		feats = append(feats, "shape.cte-nested-twice")
	} else if cteTwice {
		feats = append(feats, "shape.cte-shadow-twice")
	}
	if nested {
		feats = append(feats, "nested")
	}
	// reference
	type unit struct {
		id  int32
		row map[string]any
	}
	var kept []map[string]any
	for _, row := range t.Rows {
		if where != nil {
			ok, err := ref.EvalPred(where, ref.Env{Row: row})
			if err != nil {
				c.Discard("reference: " + err.Error())
				return
			}
			if !ok {
				continue
			}
		}
		kept = append(kept, row)
	}
	if page {
		nk := len(kept)
		switch {
		case force == "page.empty" || c.Chance(0.5):
			switch c.Intn(4) {
			case 0:
				pageLim, pageOff = 0, 0
			case 1:
				pageLim, pageOff = 3, nk
			case 2:
				pageLim, pageOff = 1, nk+2
			default:
				pageLim, pageOff = 0, 1
			}
			feats = append(feats, "page.empty")
		default:
			pageLim, pageOff = 1+c.Intn(nk+1), c.Intn(nk+1)
		}
		feats = append(feats, "page")
	}
	sql := render(false)
	var units []unit // the (row) identities at which calls happen
	for _, row := range kept {
		if nested {
			for _, el := range row["arr"].([]any) {
				units = append(units, unit{toI32(el.(map[string]any)["eid"]), el.(map[string]any)})
			}
		} else {
			units = append(units, unit{toI32(row["rid"]), row})
		}
	}
	var onceVal any
	var sites []int32
	for _, it := range items {
		sites = append(sites, it.site)
	}
	expectRowVals := func(u unit) map[string]any {
		out := map[string]any{}
		for _, it := range items {
			arg := it.arg
			if nested {
				arg = "e"
			}
			switch it.qual {
			case "", "ASYNC", "AWAIT-ASYNC":
				out[it.alias] = vfValue(u.row[arg], it.site)
			case "ONCE":
				out[it.alias] = onceVal
			}
		}
		return out
	}
	if len(units) > 0 {
		for _, it := range items {
			if it.qual == "ONCE" {
				onceVal = vfValue(units[0].row[it.arg], it.site)
			}
		}
	}
	var want []any
	for _, row := range kept {
		out := map[string]any{}
		if star && !nested {
			for k, v := range row {
				out[k] = v
			}
		} else {
			out["rid"] = row["rid"]
		}
		if nested {
			var sub []any
			for _, el := range row["arr"].([]any) {
				m := el.(map[string]any)
				r := expectRowVals(unit{toI32(m["eid"]), m})
				r["eid"] = m["eid"]
				sub = append(sub, r)
			}
			out["sub"] = sub
		} else {
			for k, v := range expectRowVals(unit{toI32(row["rid"]), row}) {
				out[k] = v
			}
		}
		want = append(want, out)
	}
	expectedCalls := 0
	for _, it := range items {
		if it.qual == "ONCE" {
			if len(units) > 0 {
				expectedCalls++
			}
		} else {
			expectedCalls += len(units)
		}
	}
	if mult == 2 {
		want = append(append([]any{}, want...), want...)
		expectedCalls *= 2
	}
	if cteUnion {
		// the rows twice, the calls once
		want = append(append([]any{}, want...), want...)
	}
	inPage := func(ui int) bool { return !page || ui >= pageOff && ui < pageOff+pageLim }
	if page {
		if pageOff >= len(want) {
			want = nil
		} else {
			want = want[pageOff:]
			if pageLim < len(want) {
				want = want[:pageLim]
			}
		}
	}
	if byValue != "" {
		// the oracle for the rows is the same query with the qualifiers removed
		ledgerReset()
		c14Plan(c, "zero", sites, 64)
		base := vfEntered.Load()
		plain := Run(val.CopyMap(DocOf(t)), render(true))
		waitCalls(base, expectedCalls)
		if !plain.OK() {
			c.Discard("the unqualified form is rejected (not judged): " + short(fmt.Sprint(plain.Describe()), 100))
			return
		}
		want = plain.Rows
	}
	profiles := c14Profiles
	nprof := pick(c.Tier, 3, 12)
	doc := DocOf(t)
	if shape == "multidim" {
		// leaves of 0..3 rows in source order; optionally grouped into planes
		wantOf := map[int32]any{}
		for i, row := range kept {
			wantOf[toI32(row["rid"])] = want[i]
		}
		var leaves, wantLeaves []any
		for i := 0; i < len(t.Rows) || len(leaves) == 0; {
			n := c.Intn(4)
			var leaf, wl []any
			for ; n > 0 && i < len(t.Rows); n-- {
				leaf = append(leaf, t.Rows[i])
				if w, ok := wantOf[toI32(t.Rows[i]["rid"])]; ok {
					wl = append(wl, w)
				}
				i++
			}
			leaves, wantLeaves = append(leaves, normEmpty(leaf)), append(wantLeaves, wl)
			if len(t.Rows) == 0 {
				break
			}
		}
		nested3 := c.Chance(0.4)
		if nested3 {
			var planes, wantPlanes []any
			for i := 0; i < len(leaves); {
				n := 1 + c.Intn(2)
				if i+n > len(leaves) {
					n = len(leaves) - i
				}
				planes, wantPlanes = append(planes, leaves[i:i+n]), append(wantPlanes, wantLeaves[i:i+n])
				i += n
			}
			leaves, wantLeaves = planes, wantPlanes
		}
		for i := range leaves {
			if leaves[i] == nil {
				leaves[i] = []any{}
			}
		}
		doc = map[string]any{"t1": leaves}
		want = wantLeaves
	}
	hasBG := false
	for _, it := range items {
		if it.qual == "ASYNC" || it.qual == "SPINASYNC" || it.qual == "AWAIT-ASYNC" {
			hasBG = true
		}
	}
	c.Feature(feats...)
	for pi := 0; pi < nprof; pi++ {
		profile := profiles[(c.Idx+pi)%len(profiles)]
		c14Plan(c, profile, sites, 64)
		c.Feature("lat." + profile)
		ledgerReset()
		base := vfEntered.Load()
		waitLedgerQuiet := func() { waitCalls(base, expectedCalls) }
		o := Run(val.CopyMap(doc), sql)
		ret := ledgerAppend(evRet, -1, -1)
		snap := ledgerSnapshot()
		det := map[string]any{"sql": sql, "doc": doc, "latency_profile": profile, "expected": val.Show(want), "observed": o.Describe()}
		if !o.OK() {
			waitLedgerQuiet()
			c.Violate("error", fmt.Sprintf("query with execution strategies failed: %v", o.Describe()), det)
			return
		}
		// ledger oracle
		starts := map[[2]int32]int{}
		ends := map[[2]int32]int{}
		lateEnd, lateStart := 0, 0
		var completion []string
		for _, e := range snap {
			k := [2]int32{e.site, e.row}
			switch e.kind {
			case evStart:
				if e.seq < ret {
					starts[k]++
				} else {
					lateStart++
				}
			case evEnd:
				if e.seq < ret {
					ends[k]++
					completion = append(completion, fmt.Sprintf("%d.%d", e.site, e.row))
				} else {
					lateEnd++
				}
			}
		}
		for _, it := range items {
			for ui, u := range units {
				k := [2]int32{it.site, u.id}
				switch it.qual {
				case "ASYNC", "SPINASYNC", "", "AWAIT-ASYNC":
					if !inPage(ui) {
						// a row the page drops: whatever was started for it is complete at return
						if starts[k] != ends[k] || lateStart+lateEnd > 0 {
							det["ledger"] = fmt.Sprintf("site %d row %d (outside the page): %d call-start, %d call-end before exec-return; %d starts and %d ends after it", it.site, u.id, starts[k], ends[k], lateStart, lateEnd)
							waitLedgerQuiet()
							c.Violate("invocation", fmt.Sprintf("%s call (site %d) on row %d, which the LIMIT/OFFSET page drops, was still running when Exec returned", orPlain(it.qual), it.site, u.id), det)
							return
						}
						continue
					}
					if starts[k] != mult || ends[k] != mult {
						det["ledger"] = fmt.Sprintf("site %d row %d: %d call-start, %d call-end before exec-return (late starts %d, late ends %d)", it.site, u.id, starts[k], ends[k], lateStart, lateEnd)
						waitLedgerQuiet()
						c.Violate("invocation", fmt.Sprintf("%s call (site %d) on row %d: %d invocations started and %d completed when Exec returned (expected exactly %d and %d)", orPlain(it.qual), it.site, u.id, starts[k], ends[k], mult, mult), det)
						return
					}
				case "ONCE":
					want1 := 0
					if ui == 0 {
						want1 = 1
					}
					if starts[k] != want1 {
						total := 0
						for kk, v := range starts {
							if kk[0] == it.site {
								total += v
							}
						}
						if total != 1 {
							waitLedgerQuiet()
							c.Violate("once", fmt.Sprintf("ONCE function invoked %d times in one query (expected 1)", total), det)
							return
						}
					}
				}
			}
		}
		if probs := val.PlainWalk(o.Rows, "<-"); len(probs) > 0 {
			det["problems"] = probs
			waitLedgerQuiet()
			c.Violate("not-plain", fmt.Sprintf("unresolved or non-plain value in the result: %s", strings.Join(probs, "; ")), det)
			return
		}
		if !(len(o.Rows) == 0 && len(want) == 0) && !c14Same(o.Rows, want) {
			waitLedgerQuiet()
			kind := "value"
			if len(o.Rows) == len(want) && len(want) > 0 {
				if g, ok := o.Rows[0].(map[string]any); ok && len(g) != len(want[0].(map[string]any)) {
					kind = "columns"
				}
			}
			c.Violate(kind, fmt.Sprintf("result differs from what the pure function gives: got %s want %s", short(val.Canon(o.Rows), 300), short(val.Canon(want), 300)), det)
			return
		}
		if hasBG && len(completion) > 1 {
			c.SetAdd("completion_orders", strings.Join(completion, ","))
		}
		waitLedgerQuiet()
		c.Evals(1)
	}
	// the same query with ASYNC removed must return the same thing
	ledgerReset()
	c14Plan(c, "zero", sites, 64)
	base := vfEntered.Load()
	plain := Run(val.CopyMap(doc), render(true))
	waitCalls(base, expectedCalls)
	if !plain.OK() || (!(len(plain.Rows) == 0 && len(want) == 0) && !c14Same(plain.Rows, want)) {
		c.Violate("unqualified-differs", fmt.Sprintf("the query without the ASYNC qualifier returns %s, expected %s", short(fmt.Sprint(plain.Describe()), 200), short(val.Canon(want), 200)), map[string]any{"sql": render(true), "doc": doc})
		return
	}
	c.Sample(map[string]any{"sql": sql, "rows": len(t.Rows), "kept": len(kept), "profiles": nprof})
	if len(units) >= 2 && hasBG {
		c.Nontrivial(sql + "|" + val.Canon(t.Array()))
	}
}

func orPlain(q string) string {
	if q == "" {
		return "unqualified"
	}
	return q
}

// waitCalls waits (bounded) until `expected` more instrumented calls than
// `base` have been entered and every entered call has exited, so that detached
// SPIN calls - including ones whose goroutine has not started yet - cannot leak
// into the next run's ledger.
func waitCalls(base int64, expected int) {
	for i := 0; i < 20000; i++ {
		if vfEntered.Load()-base >= int64(expected) && vfEntered.Load() == vfExited.Load() {
			return
		}
		time.Sleep(time.Millisecond)
	}
}

var c14Immediates = []string{"SUM", "AVG", "MIN", "MAX", "COUNT", "FUSE", "DATERANGE", "CONSTANT", "GETVAR", "SETVAR", "RAISE", "RAISE_WHEN", "REPORT", "REPORT_WHEN", "TIMESTAMP", "TO_LOWER", "TO_UPPER", "VIMM", "VImmMixed", "vimmmixed", "vimmafterplain"}

var c14LateCalls atomic.Int64

func c14Immediate(c *fw.Case) {
	fn := c14Immediates[c.Idx%len(c14Immediates)]
	q := []string{"ASYNC", "SPIN", "SPINASYNC"}[(c.Idx/len(c14Immediates))%3]
	args := map[string]string{"SUM": "n1", "AVG": "n1", "MIN": "n1", "MAX": "n1", "COUNT": "n1", "FUSE": "obj", "DATERANGE": "'a', 'b'", "CONSTANT": "'c1'", "GETVAR": "'k'", "SETVAR": "'k', 1",
		"RAISE": "'x'", "RAISE_WHEN": "false, 'x'", "REPORT": "'x'", "REPORT_WHEN": "false, 'x'", "TIMESTAMP": "", "TO_LOWER": "s1", "TO_UPPER": "s1", "VIMM": "n1", "VImmMixed": "n1", "vimmmixed": "n1", "vimmafterplain": "n1"}[fn]
	doc := map[string]any{"t1": []any{map[string]any{"rid": 0.0, "n1": 1.0, "s1": "a", "obj": map[string]any{"k": 1.0}}, map[string]any{"rid": 1.0, "n1": 2.0, "s1": "b", "obj": map[string]any{"k": 2.0}}}}
	armFault(0, faultNone)
	if fn == "vimmmixed" {
		// a function registered as immediate late in the life of the process:
		// after queries have evaluated function calls, and while none is running
		if w := Run(val.CopyMap(doc), "SELECT rid, CONCAT(s1, '!') AS x, VIMM(n1) AS y FROM t1"); !w.OK() {
			c.Violate("error", fmt.Sprintf("warm-up query failed: %v", w.Describe()), map[string]any{"doc": doc})
			return
		}
		fn = fmt.Sprintf("VLate%dx%d", c.Idx, c.Intn(1000))
		genql.RegisterImmediateFunction(fn, func(q *genql.Query, cur genql.Map, o *genql.FunctionOptions, args []any) (any, error) {
			c14LateCalls.Add(1)
			return args[0], nil
		})
		args = "n1"
		c.Feature("imm.registered-late")
		if u := Run(val.CopyMap(doc), fmt.Sprintf("SELECT rid, %s(n1) AS v FROM t1", fn)); !u.OK() {
			c.Violate("error", fmt.Sprintf("an immediate function registered late cannot be called unqualified: %v", u.Describe()), map[string]any{"doc": doc, "function": fn})
			return
		}
	}
	if fn == "vimmafterplain" {
		// a name that was a plain function first and is registered as immediate then
		fn = fmt.Sprintf("VThenImm%dx%d", c.Idx, c.Intn(1000))
		body := func(q *genql.Query, cur genql.Map, o *genql.FunctionOptions, args []any) (any, error) {
			c14LateCalls.Add(1)
			return args[0], nil
		}
		genql.RegisterFunction(fn, body)
		if w := Run(val.CopyMap(doc), fmt.Sprintf("SELECT rid, ASYNC.%s(n1) AS v FROM t1", fn)); !w.OK() {
			c.Violate("error", fmt.Sprintf("a plain function cannot be called with ASYNC: %v", w.Describe()), map[string]any{"doc": doc, "function": fn})
			return
		}
		genql.RegisterImmediateFunction(fn, body)
		c.Feature("imm.registered-after-plain")
	}
	lateBefore := c14LateCalls.Load()
	sql := fmt.Sprintf("SELECT rid, %s.%s(%s) AS v FROM t1", q, fn, args)
	o := Run(doc, sql, genql.WithVars(map[string]any{}), genql.WithConstants(map[string]any{"c1": 1.0}))
	c.Feature("imm." + strings.ToLower(q))
	if fn == "VIMM" {
		c.Feature("imm.harness")
	}
	if fn == "VImmMixed" || fn == "vimmmixed" {
		c.Feature("imm.harness-mixedcase")
	}
	c.Sample(map[string]any{"sql": sql, "outcome": short(fmt.Sprint(o.Describe()), 160)})
	det := map[string]any{"sql": sql, "doc": doc, "observed": o.Describe()}
	if o.Panic != nil {
		c.Violate("panic", fmt.Sprintf("panic: %v", o.Panic), det)
		return
	}
	if n := c14LateCalls.Load() - lateBefore; n != 0 {
		c.Violate("immediate-accepted", fmt.Sprintf("%s is registered as immediate but was run %d times by %s", fn, n, q), det)
		return
	}
	if o.Err == nil {
		c.Violate("immediate-accepted", fmt.Sprintf("%s is registered as immediate but %s.%s was accepted without an error", fn, q, fn), det)
		return
	}
	c.Nontrivial(sql)
}

var _ = sort.Strings

// c14JoinOperand: ASYNC calls in the select list of a derived table that is an
// operand of a join. When Exec returns every call has completed and its value
// sits in the column, whether the outer query reads the column or the row.
func c14JoinOperand(c *fw.Case) {
	t := gen.RandTable(c.R, gen.TableSpec{Name: "t1", MinRows: 1, MaxRows: 10, NumCols: 2, StrCols: 1, StrStyle: gen.Plain})
	doc := DocOf(t)
	both := c.Idx%3 == 0
	jn := gen.Pick(c.R, []string{"JOIN", "LEFT JOIN", "HASH_JOIN", "PARALLEL JOIN"})
	arg := gen.Pick(c.R, []string{"n1", "s1", "n2"})
	left := fmt.Sprintf("(SELECT rid, ASYNC.VF(%s, rid, 1) AS a, SPINASYNC.VF(n1, rid, 2) FROM t1)", arg)
	right := "t1"
	expectedCalls := 2 * len(t.Rows)
	c.Feature("joinop.derived")
	if both {
		right = fmt.Sprintf("(SELECT rid, AWAIT(ASYNC.VF(%s, rid, 3)) AS b FROM t1)", arg)
		expectedCalls += len(t.Rows)
		c.Feature("joinop.both")
	}
	form := c.Intn(3)
	var sql string
	switch form {
	case 0:
		sql = "SELECT x.rid AS rid, x.a AS a FROM " + left + " x " + jn + " " + right + " y ON x.rid = y.rid"
	case 1:
		sql = "SELECT * FROM " + left + " x " + jn + " " + right + " y ON x.rid = y.rid"
	default:
		sql = "SELECT x AS item FROM " + left + " x " + jn + " " + right + " y ON x.rid = y.rid"
	}
	profile := c14Profiles[c.Idx%len(c14Profiles)]
	c14Plan(c, profile, []int32{1, 2, 3}, 64)
	c.Feature("lat." + profile)
	ledgerReset()
	base := vfEntered.Load()
	o := Run(val.CopyMap(doc), sql)
	ret := ledgerAppend(evRet, -1, -1)
	snap := ledgerSnapshot()
	waitCalls(base, expectedCalls)
	c.Evals(1)
	c.Sample(map[string]any{"sql": sql, "rows": len(t.Rows), "latency_profile": profile})
	det := map[string]any{"sql": sql, "doc": doc, "latency_profile": profile, "observed": o.Describe()}
	if !o.OK() {
		c.Violate("error", fmt.Sprintf("join over a derived table with ASYNC items failed: %v", o.Describe()), det)
		return
	}
	ends := map[[2]int32]int{}
	late := 0
	for _, e := range snap {
		if e.kind == evEnd {
			if e.seq < ret {
				ends[[2]int32{e.site, e.row}]++
			} else {
				late++
			}
		}
	}
	sites := []int32{1, 2}
	if both {
		sites = append(sites, 3)
	}
	for _, r := range t.Rows {
		for _, s := range sites {
			if ends[[2]int32{s, toI32(r["rid"])}] != 1 {
				det["ledger"] = fmt.Sprintf("site %d row %v: %d call-end before exec-return, %d after", s, r["rid"], ends[[2]int32{s, toI32(r["rid"])}], late)
				c.Violate("invocation", fmt.Sprintf("background call (site %d) of row %v in a join operand had completed %d times when Exec returned (expected exactly 1)", s, r["rid"], ends[[2]int32{s, toI32(r["rid"])}]), det)
				return
			}
		}
	}
	if probs := val.PlainWalk(o.Rows, "<-"); len(probs) > 0 {
		det["problems"] = probs
		c.Violate("not-plain", fmt.Sprintf("unresolved or non-plain value in the result: %s", strings.Join(probs, "; ")), det)
		return
	}
	var want []any
	for _, r := range t.Rows {
		x := map[string]any{"rid": r["rid"], "a": vfValue(r[arg], 1)}
		var y any
		if both {
			y = map[string]any{"rid": r["rid"], "b": vfValue(r[arg], 3)}
		} else {
			y = val.Copy(r)
		}
		switch form {
		case 0:
			want = append(want, x)
		case 1:
			want = append(want, map[string]any{"x": x, "y": y})
		default:
			want = append(want, map[string]any{"item": x})
		}
	}
	det["expected"] = val.Show(want)
	if !val.SameMultiset(o.Rows, want) {
		c.Violate("value", fmt.Sprintf("result differs from what the pure function gives: got %s want %s", short(val.Canon(o.Rows), 300), short(val.Canon(want), 300)), det)
		return
	}
	if len(t.Rows) >= 2 {
		c.Nontrivial(sql + "|" + val.Canon(t.Array()))
	}
}

// c14Same compares a (possibly nested) result with the expected structure;
// an empty inner result may come back as nil or as an empty array.
func c14Same(got any, want any) bool {
	switch w := want.(type) {
	case []any:
		g, ok := got.([]any)
		if !ok {
			return got == nil && len(w) == 0
		}
		if len(g) != len(w) {
			return false
		}
		for i := range w {
			if !c14Same(g[i], w[i]) {
				return false
			}
		}
		return true
	case nil:
		if g, ok := got.([]any); ok {
			return len(g) == 0
		}
		return got == nil
	}
	return sameSelValue(got, want)
}

// c14Builtin: ASYNC applied to the library's own (non-immediate) built-in
// functions over many rows with large payloads, so that the calls overlap; in
// every row the ASYNC column must equal the unqualified call of the same row.
// Runs in the -race child.
func c14Builtin(c *fw.Case) {
	setHookMode(1)
	n := 32 + c.Intn(pick(c.Tier, 64, 256))
	size := 1 << (8 + c.Intn(10)) // 256 B .. 128 KiB
	rows := make([]any, n)
	for i := range rows {
		b := make([]byte, size+c.Intn(64))
		for k := range b {
			b[k] = byte('a' + (i*7+k*13+c.Intn(3))%26)
		}
		rows[i] = map[string]any{"rid": float64(i), "s": string(b), "n": float64(i) * 1.5}
	}
	doc := map[string]any{"big": rows}
	type pair struct{ call, name string }
	all := []pair{{"HASH(s, 'sha256')", "h256"}, {"HASH(s, 'sha1')", "h1"}, {"HASH(s, 'md5')", "hmd5"}, {"HASH(s, 'sha512')", "h512"}, {"ENCODE(s, 'hex')", "ehex"}, {"ENCODE(s, 'base64')", "e64"},
		{"DECODE(ENCODE(s, 'base32'), 'base32')", "rt32"}, {"CONCAT(s, '|', n)", "cc"}, {"CHANGETYPE(n, 'string')", "ct"}, {"ARRAY(n, s)", "ar"}, {"FIRST(ARRAY(s, n))", "fi"}}
	c.R.Shuffle(len(all), func(i, j int) { all[i], all[j] = all[j], all[i] })
	pick3 := all[:2+c.Intn(3)]
	var items []string
	for _, p := range pick3 {
		fn := p.call[:strings.Index(p.call, "(")]
		items = append(items, "ASYNC."+p.call+" AS a_"+p.name, p.call+" AS p_"+p.name)
		_ = fn
	}
	sql := "SELECT rid, " + strings.Join(items, ", ") + " FROM big"
	c.Feature("builtin.async")
	o := Run(doc, sql)
	c.Evals(1)
	c.Sample(map[string]any{"sql": sql, "rows": n, "payload_bytes": size})
	det := map[string]any{"sql": sql, "rows": n, "payload_bytes": size, "observed": short(fmt.Sprint(o.Describe()), 600)}
	if !o.OK() {
		c.Violate("error", fmt.Sprintf("ASYNC over built-in functions failed: %v", short(fmt.Sprint(o.Describe()), 300)), det)
		return
	}
	if len(o.Rows) != n {
		c.Violate("value", fmt.Sprintf("%d rows out, %d in", len(o.Rows), n), det)
		return
	}
	for i, r := range o.Rows {
		m, _ := r.(map[string]any)
		for _, p := range pick3 {
			if !val.Equal(val.Deref(m["a_"+p.name]), val.Deref(m["p_"+p.name])) {
				c.Violate("value", fmt.Sprintf("row %d: ASYNC.%s = %s, the unqualified call gives %s", i, p.call, short(val.Canon(m["a_"+p.name]), 120), short(val.Canon(m["p_"+p.name]), 120)), det)
				return
			}
		}
	}
	c.Nontrivial(sql + fmt.Sprint(n, size, c.Idx))
}

// c14FailWait: a synchronous step fails on some row while background calls of
// earlier rows are in flight. Exec reports the failure - and when it returns,
// no ASYNC / SPINASYNC call it started is still running.
func c14FailWait(c *fw.Case) {
	t := gen.RandTable(c.R, gen.TableSpec{Name: "t1", MinRows: 2, MaxRows: 12, NumCols: 2, StrCols: 1, StrStyle: gen.Plain})
	k := 1 + c.Intn(len(t.Rows))
	sql := gen.Pick(c.R, []string{
		"SELECT rid, ASYNC.VF(n1, rid, 1) AS a, SPINASYNC.VF(s1, rid, 2), VFAIL(rid) AS f FROM t1",
		"SELECT rid, AWAIT(ASYNC.VF(n1, rid, 1)) AS a, ASYNC.VF(n2, rid, 2) AS b, VFAIL(rid) AS f FROM t1",
		"SELECT rid, SPINASYNC.VF(n1, rid, 1), VFAIL(rid) AS f FROM t1 WHERE n1 >= n1",
		"WITH c1 AS (SELECT rid, ASYNC.VF(n1, rid, 1) AS a, VFAIL(rid) AS f FROM t1) SELECT * FROM c1",
		// the calls and the failure inside a nested query: a select-list subquery, EXISTS, a derived table
		"SELECT rid, (SELECT ASYNC.VF(n1, rid, 1) AS v, VFAIL(rid) AS f FROM `<-t1`) AS s FROM t1",
		"SELECT rid FROM t1 WHERE EXISTS (SELECT ASYNC.VF(n1, rid, 1) AS v, SPINASYNC.VF(n2, rid, 2), VFAIL(rid) AS f FROM `<-t1`)",
		"SELECT q.rid FROM (SELECT rid, ASYNC.VF(n1, rid, 1) AS a, SPINASYNC.VF(s1, rid, 2), VFAIL(rid) AS f FROM t1) q",
		// ... and inside the inner arrays of a multi-dimensional FROM
		"SELECT rid, ASYNC.VF(n1, rid, 1) AS v, SPINASYNC.VF(n2, rid, 2), VFAIL(rid) AS f FROM mm",
	})
	if strings.Contains(sql, "FROM `<-t1`") || strings.Contains(sql, ") q") || strings.Contains(sql, "FROM mm") {
		c.Feature("failwait.nested")
	}
	profile := c14Profiles[1+c.Idx%(len(c14Profiles)-1)]
	c14Plan(c, profile, []int32{1, 2}, 64)
	ledgerReset()
	armFault(k, faultError)
	fdoc := DocOf(t)
	if rows := fdoc["t1"].([]any); len(rows) >= 2 {
		// the same rows spread over inner arrays
		fdoc["mm"] = []any{rows[:len(rows)/2], rows[len(rows)/2:], []any{}}
	}
	o := Run(fdoc, sql)
	ret := ledgerAppend(evRet, -1, -1)
	armFault(0, faultNone)
	// let everything that was started finish, then read the whole ledger
	for i := 0; i < 20000 && vfEntered.Load() != vfExited.Load(); i++ {
		sleepMs(1)
	}
	snap := ledgerSnapshot()
	c.Evals(1)
	c.Feature("failwait", "lat."+profile)
	c.Sample(map[string]any{"sql": sql, "rows": len(t.Rows), "fault_at": k, "latency_profile": profile})
	det := map[string]any{"sql": sql, "doc": DocOf(t), "fault_at_invocation": k, "latency_profile": profile, "observed": o.Describe()}
	if o.Err == nil {
		c.Discard("the planned fault did not fail the query")
		return
	}
	started, lateEnds, lateStarts := 0, 0, 0
	for _, e := range snap {
		switch {
		case e.kind == evStart && e.seq < ret:
			started++
		case e.kind == evStart:
			lateStarts++
		case e.kind == evEnd && e.seq > ret:
			lateEnds++
		}
	}
	if lateEnds > 0 || lateStarts > 0 {
		det["ledger"] = fmt.Sprintf("%d calls started before Exec returned its error; %d call-ends and %d call-starts are recorded after the return", started, lateEnds, lateStarts)
		c.Violate("invocation", fmt.Sprintf("Exec returned its error while %d background call(s) it had started were still running", lateEnds+lateStarts), det)
		return
	}
	if started >= 1 {
		c.Nontrivial(sql + fmt.Sprint(k) + val.Canon(t.Array()))
	}
}

// c14Consumed: an ASYNC call in the select list of a nested query (derived
// table, CTE, joined derived table, IN sub-select) whose column the enclosing
// query consumes while it runs - in WHERE, an aggregate, GROUP BY, ON, a
// function argument, ORDER BY. Qualifying the call changes when it runs, not
// what the query returns: the result equals the unqualified query's, and no
// call is still running when Exec returns.
var c14ConsumedForms = []struct {
	feat, tpl string
	multiset  bool
}{
	{"consumed.where", "SELECT d.rid, d.v FROM (SELECT rid, %sVF(n1, rid, 1)%s AS v FROM t1) d WHERE d.v > %K", false},
	{"consumed.where", "SELECT d.rid FROM (SELECT rid, %sVF(s1, rid, 1)%s AS v, n1 FROM t1 WHERE n1 >= 0) d WHERE d.v != 'zz' AND d.v LIKE '%%!1'", false},
	{"consumed.aggregate", "SELECT SUM(d.v) AS s, COUNT(*) AS c, MAX(d.v) AS m FROM (SELECT rid, %sVF(n1, rid, 1)%s AS v FROM t1) d", false},
	{"consumed.group", "SELECT d.s1, SUM(d.v) AS s FROM (SELECT s1, %sVF(n1, rid, 1)%s AS v FROM t1) d GROUP BY d.s1", true},
	{"consumed.group", "SELECT d.v AS k, COUNT(*) AS c FROM (SELECT rid, %sVF(s1, rid, 1)%s AS v FROM t1) d GROUP BY d.v", true},
	{"consumed.join-on", "SELECT o.rid, c.k FROM t1 o JOIN (SELECT rid, %sVF(n2, rid, 1)%s AS k FROM t1) c ON o.n1 = c.k", true},
	{"consumed.join-on", "SELECT o.rid, c.k FROM t1 o LEFT JOIN (SELECT rid, %sVF(n2, rid, 1)%s AS k FROM t1) c ON o.n1 <= c.k", true},
	{"consumed.in-subquery", "SELECT rid FROM t1 WHERE n1 IN (SELECT %sVF(n2, rid, 1)%s AS q FROM `<-t1`)", false},
	{"consumed.fnarg", "SELECT d.rid, CONCAT(d.v, '!') AS c, ARRAY(d.v) AS a, IF(d.v = d.v, 1, 0) AS e FROM (SELECT rid, %sVF(s1, rid, 1)%s AS v FROM t1) d", false},
	{"consumed.cte", "WITH d AS (SELECT rid, %sVF(n1, rid, 1)%s AS v FROM t1) SELECT rid, (v + 1) AS w FROM d WHERE v >= %K", false},
	{"consumed.order", "SELECT d.rid, d.v FROM (SELECT rid, %sVF(n1, rid, 1)%s AS v FROM t1) d ORDER BY d.v DESC, d.rid ASC", false},
	{"consumed.dual", "SELECT s.d FROM (SELECT %sVF(5, 0, 1)%s AS d FROM dual) s WHERE s.d > 1", false},
	{"consumed.dual", "SELECT s.d, (s.d + 1) AS e, CONCAT(s.d, '!') AS c FROM (SELECT %sVF(%K, 0, 1)%s AS d FROM dual) s", false},
}

func c14Consumed(c *fw.Case) {
	t := gen.RandTable(c.R, gen.TableSpec{Name: "t1", MinRows: 1, MaxRows: 10, NumCols: 2, StrCols: 1, StrStyle: gen.Plain})
	doc := DocOf(t)
	f := c14ConsumedForms[c.Idx%len(c14ConsumedForms)]
	k := gen.SQLLit(vfValue(gen.Pick(c.R, t.Pools["n1"]), 1), 0)
	mk := func(pre, post string) string {
		sql := strings.ReplaceAll(f.tpl, "%K", k)
		sql = strings.Replace(sql, "%s", pre, 1)
		sql = strings.Replace(sql, "%s", post, 1)
		return strings.ReplaceAll(sql, "%%", "%")
	}
	plain := mk("", "")
	sql := mk("ASYNC.", "")
	if c.Chance(0.25) {
		sql = mk("AWAIT(ASYNC.", ")")
		c.Feature("q.await-async")
	}
	c.Feature(f.feat)
	profile := c14Profiles[c.Idx%len(c14Profiles)]
	c14Plan(c, profile, []int32{1}, 64)
	c.Feature("lat." + profile)
	armFault(0, faultNone)
	base := vfEntered.Load()
	p := Run(val.CopyMap(doc), plain)
	waitCalls(base, 0)
	ledgerReset()
	base = vfEntered.Load()
	o := Run(val.CopyMap(doc), sql)
	ret := ledgerAppend(evRet, -1, -1)
	snap := ledgerSnapshot()
	waitCalls(base, 0)
	total := int(vfEntered.Load() - base)
	c.Evals(2)
	c.Sample(map[string]any{"sql": sql, "rows": len(t.Rows), "latency_profile": profile})
	det := map[string]any{"sql": sql, "unqualified": plain, "doc": doc, "latency_profile": profile, "observed": o.Describe(), "unqualified_result": p.Describe()}
	if !p.OK() {
		c.Discard("the unqualified query fails")
		return
	}
	if !o.OK() {
		c.Violate("error", fmt.Sprintf("the query fails with ASYNC although the unqualified query succeeds: %v", o.Describe()), det)
		return
	}
	ends := 0
	for _, e := range snap {
		if e.kind == evEnd && e.seq < ret {
			ends++
		}
	}
	if ends != total {
		det["ledger"] = fmt.Sprintf("%d calls in all, %d call-ends before exec-return", total, ends)
		c.Violate("invocation", fmt.Sprintf("the query made %d background calls, %d had completed when Exec returned", total, ends), det)
		return
	}
	if probs := val.PlainWalk(o.Rows, "<-"); len(probs) > 0 {
		det["problems"] = probs
		c.Violate("not-plain", fmt.Sprintf("unresolved or non-plain value in the result: %s", strings.Join(probs, "; ")), det)
		return
	}
	same := val.SameSeq(o.Rows, p.Rows) || f.multiset && val.SameMultiset(o.Rows, p.Rows) || len(o.Rows) == 0 && len(p.Rows) == 0
	if !same {
		c.Violate("value", fmt.Sprintf("with ASYNC the query returns %s, unqualified it returns %s", short(val.Canon(o.Rows), 300), short(val.Canon(p.Rows), 300)), det)
		return
	}
	if len(p.Rows) >= 1 && total >= 2 {
		c.Nontrivial(sql + "|" + val.Canon(t.Array()))
	}
}

// c14ReexecFail: one Query kept and executed several times; in one of the
// executions a background call fails. That execution reports the failure, as
// the unqualified call does - in whichever execution it happens - and the
// executions around it return the rows.
func c14ReexecFail(c *fw.Case) {
	t := gen.RandTable(c.R, gen.TableSpec{Name: "t1", MinRows: 1, MaxRows: 8, NumCols: 2, StrCols: 1, StrStyle: gen.Plain})
	doc := DocOf(t)
	qual := gen.Pick(c.R, []string{"ASYNC.", "ASYNC.", "AWAIT(ASYNC."})
	closeP := ""
	if strings.HasPrefix(qual, "AWAIT") {
		closeP = ")"
	}
	sql := fmt.Sprintf("SELECT rid, %sVBG(n1)%s AS v, s1 FROM t1", qual, closeP)
	plain := "SELECT rid, VBG(n1) AS v, s1 FROM t1"
	armFault(0, faultNone)
	q, nerr := newSafe(val.CopyMap(doc), sql)
	p, perr := newSafe(val.CopyMap(doc), plain)
	if q == nil || p == nil {
		c.Violate("error", fmt.Sprintf("query could not be constructed: %v %v", nerr.Describe(), perr.Describe()), map[string]any{"sql": sql})
		return
	}
	c.Feature("reexec.async-failure")
	failAt := 1 + c.Intn(3) // the execution in which a call fails
	k := 1 + c.Intn(len(t.Rows))
	for i := 1; i <= 4; i++ {
		run := func(qq *genql.Query) Outcome {
			if i == failAt {
				armFault(k, faultError)
			} else {
				armFault(0, faultNone)
			}
			o := execBuilt(qq)
			waitBackground()
			armFault(0, faultNone)
			return o
		}
		want := run(p)
		got := run(q)
		c.Evals(2)
		det := map[string]any{"sql": sql, "unqualified": plain, "doc": doc, "execution": i, "failing_execution": failAt, "fault_at_invocation": k, "observed": got.Describe(), "unqualified_result": want.Describe()}
		if got.Panic != nil {
			c.Violate("panic", fmt.Sprintf("panic: %v", got.Panic), det)
			return
		}
		if want.OK() != got.OK() {
			c.Violate("value", fmt.Sprintf("execution %d: with ASYNC the query %s, unqualified it %s", i, okWord(got), okWord(want)), det)
			return
		}
		if want.OK() && !val.SameSeq(got.Rows, want.Rows) {
			c.Violate("value", fmt.Sprintf("execution %d: with ASYNC the query returns %s, unqualified %s", i, short(val.Canon(got.Rows), 200), short(val.Canon(want.Rows), 200)), det)
			return
		}
	}
	c.Sample(map[string]any{"sql": sql, "failing_execution": failAt})
	c.Nontrivial(sql + fmt.Sprint(failAt, k) + val.Canon(t.Array()))
}

func okWord(o Outcome) string {
	if o.OK() {
		return fmt.Sprintf("returns %d rows", len(o.Rows))
	}
	return fmt.Sprintf("fails (%v)", o.Err)
}


// c14OnceSpelling: one ONCE function named in several letter cases within one
// query (qualifier and name): it is one function, invoked a single time, and
// every call site and every row sees that one value.
func c14OnceSpelling(c *fw.Case) {
	t := gen.RandTable(c.R, gen.TableSpec{Name: "t1", MinRows: 1, MaxRows: 8, NumCols: 1, StrCols: 1, StrStyle: gen.Plain})
	spell := func() string {
		return gen.Pick(c.R, []string{"ONCE", "once", "Once"}) + "." + gen.Pick(c.R, []string{"VFONCE", "vfonce", "VfOnce", "vfOnce"})
	}
	if c.Idx%3 == 2 {
		c14OnceArgs(c, t)
		return
	}
	if c.Idx%3 == 1 {
		c14AsyncArgs(c)
		return
	}
	a, b, d := spell(), spell(), spell()
	sql := fmt.Sprintf("SELECT rid, %s(7, 0, 1) AS a, %s(7, 0, 1) AS b FROM t1", a, b)
	if c.Chance(0.5) {
		sql = fmt.Sprintf("SELECT rid, %s(7, 0, 1) AS a, %s(7, 0, 1) AS b FROM t1 WHERE %s(7, 0, 1) >= 0", a, b, d)
	}
	if a == b {
		c.Discard("one spelling only")
		return
	}
	latPlan = nil
	ledgerReset()
	o := Run(DocOf(t), sql)
	c.Feature("once.spelled-twice")
	c.Sample(map[string]any{"sql": sql})
	det := map[string]any{"sql": sql, "doc": DocOf(t), "observed": o.Describe()}
	if !o.OK() {
		c.Violate("error", fmt.Sprintf("query failed: %v", o.Describe()), det)
		return
	}
	starts := 0
	for _, e := range ledgerSnapshot() {
		if e.kind == evStart {
			starts++
		}
	}
	want := vfValue(7.0, 1)
	for _, r := range o.Rows {
		m, _ := r.(map[string]any)
		if m == nil || !val.Equal(m["a"], want) || !val.Equal(m["b"], want) {
			c.Violate("value", fmt.Sprintf("a ONCE call site does not show the function's value %v: %s", want, short(val.Canon(r), 200)), det)
			return
		}
	}
	if starts != 1 {
		c.Violate("once", fmt.Sprintf("one ONCE function spelled in several letter cases was invoked %d times in one query", starts), det)
		return
	}
	c.Nontrivial(sql)
}

// c14OnceArgs: the single invocation of a ONCE call takes its arguments from
// the row that triggers it; every row sees that one value - also the rows on
// which the argument expression itself could not be evaluated.
func c14OnceArgs(c *fw.Case, t *gen.Table) {
	for len(t.Rows) < 2 {
		t.Rows = append(t.Rows, map[string]any{"rid": float64(len(t.Rows))})
	}
	for i, row := range t.Rows {
		row["tags"] = []any{9.0}
		if i == 0 {
			row["tags"] = []any{7.0, 8.0}
		} else if c.Chance(0.3) {
			row["tags"] = []any{5.0, 6.0, 4.0}
		}
	}
	sql := gen.Pick(c.R, []string{"SELECT rid, ONCE.VFONCE(ELEMENTAT(tags, 1), 0, 1) AS a FROM t1", "SELECT rid, once.vfonce(ELEMENTAT(tags, 1), 0, 1) AS a, rid AS b FROM t1 x",
		"SELECT rid, ONCE.VFONCE(ELEMENTAT(tags, 1), 0, 1) AS a FROM t1 WHERE ONCE.VFONCE(ELEMENTAT(tags, 1), 0, 1) >= 0"})
	latPlan = nil
	ledgerReset()
	doc := DocOf(t)
	o := Run(doc, sql)
	c.Feature("once.argument-of-first-row")
	c.Sample(map[string]any{"sql": sql})
	det := map[string]any{"sql": sql, "doc": doc, "observed": o.Describe()}
	if !o.OK() {
		c.Violate("error", fmt.Sprintf("query failed: %v (the ONCE call is made once, with the first row's arguments)", o.Describe()), det)
		return
	}
	starts := 0
	for _, e := range ledgerSnapshot() {
		if e.kind == evStart {
			starts++
		}
	}
	want := vfValue(8.0, 1)
	if len(o.Rows) != len(t.Rows) {
		c.Violate("value", fmt.Sprintf("%d rows, expected %d", len(o.Rows), len(t.Rows)), det)
		return
	}
	for _, r := range o.Rows {
		m, _ := r.(map[string]any)
		if m == nil || !val.Equal(m["a"], want) {
			c.Violate("value", fmt.Sprintf("a row does not show the ONCE call's one value %v: %s", want, short(val.Canon(r), 200)), det)
			return
		}
	}
	if starts != 1 {
		c.Violate("once", fmt.Sprintf("the ONCE function was invoked %d times in one query", starts), det)
		return
	}
	c.Nontrivial(sql + val.Canon(doc))
}

// c14AsyncArgs: the arguments of an ASYNC call are what the unqualified call's
// arguments are - values of the row's moment, also when they come from a
// register that the next row overwrites.
func c14AsyncArgs(c *fw.Case) {
	n := 6 + c.Intn(20)
	rows := make([]any, n)
	for i := range rows {
		rows[i] = map[string]any{"rid": float64(i), "n1": float64(c.Intn(1000))}
	}
	doc := map[string]any{"t1": rows}
	sql := gen.Pick(c.R, []string{"SELECT rid, SETVAR('cur', n1), ASYNC.VF(GETVAR('cur'), rid, 1) AS a FROM t1", "SELECT rid, SETVAR('cur', n1), ASYNC.VF(GETVAR('cur'), rid, 1) AS a, SPINASYNC.VF(GETVAR('cur'), rid, 2) FROM t1 WHERE n1 >= 0"})
	latPlan = nil
	ledgerReset()
	o := Run(doc, sql, genql.WithVars(map[string]any{}))
	c.Feature("async.argument-from-register")
	c.Sample(map[string]any{"sql": sql})
	det := map[string]any{"sql": sql, "doc": doc, "observed": o.Describe()}
	if !o.OK() || len(o.Rows) != n {
		c.Violate("error", fmt.Sprintf("query failed or lost rows: %v", o.Describe()), det)
		return
	}
	for i, r := range o.Rows {
		m, _ := r.(map[string]any)
		want := vfValue(rows[i].(map[string]any)["n1"], 1)
		if m == nil || !val.Equal(val.Deref(m["a"]), want) {
			c.Violate("value", fmt.Sprintf("row %d: the ASYNC column is %s, the unqualified call on that row gives %v", i, short(val.Canon(val.Deref(m["a"])), 100), want), det)
			return
		}
	}
	c.Nontrivial(sql + val.Canon(doc))
}
