package props

import (
	"fmt"
	"strings"
	"sync"

	"github.com/vedadiyan/genql"

	"verifharness/internal/fw"
	"verifharness/internal/gen"
	"verifharness/internal/ref"
	"verifharness/internal/val"
)

var c13Workloads = []string{"separate-docs.fresh-selectors", "separate-docs.cached-selectors", "shared-doc.queries", "internal-parallelism", "shared-doc.execreader", "reexec.results-reused"}

func init() {
	// a function that dereferences a NULL argument (as TO_LOWER and friends
	// do): a run-time panic inside whatever evaluates it
	genql.RegisterFunction("vpanicnull", func(q *genql.Query, cur genql.Map, o *genql.FunctionOptions, args []any) (any, error) {
		if len(args) == 0 || args[0] == nil {
			var p *int
			return *p, nil
		}
		return true, nil
	})
	floor := []string{}
	for _, w := range c13Workloads {
		floor = append(floor, "workload."+w)
	}
	floor = append(floor, "separate.builtins", "separate.two-dialects", "par.bg-reads-derived-row", "shared.where", "shared.subquery", "shared.exists", "shared.in-subquery", "shared.order", "shared.group", "shared.distinct", "shared.marker-between", "shared.cte-wrapped", "shared.cte-path", "shared.join-unaliased", "par.join", "par.join-fail", "par.async", "par.spinasync", "par.await-async", "par.async-deep", "par.join-like", "par.join-stateful", "par.join-panic", "workload.cold-start", "reexec.results-reused", "cached.open-range", "reader.fn-spelling")
	fw.Register(&fw.Prop{
		ID:    "C13",
		Title: "Concurrent queries are free of data races, crashes and cross-talk",
		Level: "exploration",
		Rule: "one text under two option sets at once (expected rows from the harness); stateful ONs under the hash-join spellings. HASH / ENCODE over many rows on separate documents; PARALLEL joins whose ON holds a call followed by plain operands; background calls that read rows of a derived table. phase 'coldstart': every case is a fresh process whose first use of the library is a burst of 4..16 concurrent queries (run-alone results afterwards); jobs also: a panicking ON in PARALLEL joins, selectors that go on past the name of an unread CTE, un-aliased outer joins on the shared document. PARALLEL joins whose ON touches query state (ONCE, EXISTS, a CTE not yet read); BETWEEN with `<-` bounds on a shared document; top-level selector functions in unseen spellings (the execreader workload computes its run-alone results after the concurrent run). internal-parallelism jobs include bare ASYNC over three array levels and LIKE inside the ON of nested-loop PARALLEL joins. every case runs in a child built with the Go race detector (GORACE halt_on_error=0, reports collected from the log and deduplicated by outermost genql frame pair) with yields injected at the verif hooks (selector cache, PARALLEL-join goroutines, background function goroutines, after the wait). " +
			"A case = G goroutines (2..8 quick, 2..16 thorough) x several queries each, in one of five workloads: (1) separate documents with selector texts never seen before (table and column names unique per goroutine and iteration, so cache misses and hits run concurrently), (2) separate documents with cached selectors, " +
			"(3) ONE shared document read by queries of every kind that used to write markers (WHERE comparisons, row- and root-scoped subqueries, EXISTS, IN (subquery)) plus ORDER BY, GROUP BY, DISTINCT and CTEs under Wrapped(), (4) the library's own parallelism (all PARALLEL join variants, ASYNC / SPINASYNC calls with injected latencies) G at a time, (5) concurrent ExecReader calls on one shared document. " +
			"Oracle: no race report with genql frames, no child death (concurrent map access, panic), no deadlock (watchdog), every goroutine's result equals the result of the same (query, document) run alone (before the goroutines start; after they finish for the fresh-selector workload), and the shared document is unchanged. " +
			"Non-trivial = a case in which at least 2 goroutines each completed at least one query with a non-empty result; distinct = distinct (workload, queries, documents).",
		Assumptions: []string{
			"harness functions and the hook are registered in init, before any goroutine exists (the registries are unsynchronised by design: written at init, read thereafter)",
			"several concurrent queries sharing one WithVars map are out of scope (the property does not claim it)",
			"the hook only yields / sleeps; it touches no shared variable, so it adds no happens-before edge that could hide a race",
		},
		Floor:         floor,
		MinNontrivial: 10,
		Phases: []fw.Phase{
			{Name: "concurrent", Race: true, N: func(t fw.Tier) int { return pick(t, 400, 8000) }, Run: c13Run},
			{Name: "coldstart", Race: true, Batch: 1, N: func(t fw.Tier) int { return pick(t, 48, 800) }, Run: c13Cold},
		},
		Witness: func(c *fw.Case, w *fw.Finding) { c.Discard("covered by the workload") },
	})
}

type c13Job struct {
	doc      map[string]any
	sql      string
	opts     OptSet
	multiset bool
	reader   bool         // ExecReader(doc, sql) instead of a query
	built    *genql.Query // an already constructed query, executed again (only ever by one goroutine)
	refWant  bool         // want / wantErr come from the reference model, not from a run in this process
	feat     string
	want     string
	wantErr  bool
	got      string
	gotErr   bool
	panicked any
	nonEmpty bool
}

func (j *c13Job) exec() (string, bool, any, bool) {
	if j.reader {
		v, err, pan, _ := reader(j.doc, j.sql)
		if pan != nil {
			return "", false, pan, false
		}
		if err != nil {
			return "", true, nil, false
		}
		return val.Canon(normEmpty(v)), false, nil, v != nil
	}
	var o Outcome
	if j.built != nil {
		o = execBuilt(j.built)
	} else {
		o = Run(j.doc, j.sql, j.opts.Options()...)
	}
	if o.Panic != nil {
		return "", false, o.Panic, false
	}
	if o.Err != nil {
		return "", true, nil, false
	}
	if j.multiset {
		cs := val.CanonSeq(o.Rows)
		sortStrings(cs)
		return strings.Join(cs, "\n"), false, nil, len(o.Rows) > 0
	}
	return val.Canon(normEmpty(o.Rows)), false, nil, len(o.Rows) > 0
}

var c13Shared = []struct{ feat, sql string }{
	{"shared.where", "SELECT rid, s1 FROM t1 WHERE n1 >= 0 AND s1 != 'zz'"},
	{"shared.where", "SELECT * FROM t1 WHERE n1 > n2 OR b1 = true"},
	{"shared.subquery", "SELECT rid, (SELECT e, f FROM arr WHERE e > 1) AS sub FROM t1"},
	{"shared.subquery", "SELECT rid, (SELECT ip FROM `<-meta`) AS m, (SELECT un1 FROM `<-u1`) AS us FROM t1"},
	{"shared.exists", "SELECT rid FROM t1 WHERE EXISTS (SELECT e FROM arr WHERE e >= n1)"},
	{"shared.exists", "SELECT * FROM t1 WHERE NOT EXISTS (SELECT e FROM arr WHERE e > 3)"},
	{"shared.in-subquery", "SELECT rid FROM t1 WHERE n1 IN (SELECT un1 FROM `<-u1`)"},
	{"shared.in-subquery", "SELECT rid FROM t1 WHERE n1 IN (SELECT e FROM arr)"},
	{"shared.order", "SELECT rid, n1 FROM t1 ORDER BY n1 DESC, rid ASC LIMIT 5"},
	{"shared.group", "SELECT s1, COUNT(*) AS c, SUM(n1) AS s, * FROM t1 GROUP BY s1"},
	{"shared.distinct", "SELECT DISTINCT s1, b1 FROM t1"},
	{"shared.distinct", "SELECT DISTINCT * FROM t1"},
	{"shared.marker-between", "SELECT rid, (SELECT e FROM arr WHERE e BETWEEN `<-n2` AND `<-n1`) AS s FROM t1"},
	{"shared.marker-between", "SELECT rid FROM t1 WHERE EXISTS (SELECT e FROM arr WHERE e NOT BETWEEN `<-.n1` AND `<-.n2`)"},
	{"shared.marker-between", "SELECT rid, (SELECT un1 FROM `<-u1` WHERE un1 BETWEEN `<-n2` AND `<-n1` OR un1 IN (`<-n1`, `<-n2`)) AS s FROM t1"},
	{"shared.cte-wrapped", "WITH c1 AS (SELECT rid, n1 FROM `root.t1` WHERE n1 >= 0) SELECT * FROM c1 WHERE rid >= 0"},
	{"shared.cte-wrapped", "WITH c1 AS (SELECT rid, n1 FROM `root.t1`), c2 AS (SELECT rid FROM c1 WHERE n1 > 0) SELECT * FROM c2"},
	// outer joins whose preserved side is read straight from the shared document, without an alias
	{"shared.join-unaliased", "SELECT * FROM t1 LEFT JOIN u1 y ON n1 = y.un1 AND y.us1 = 'no such'"},
	{"shared.join-unaliased", "SELECT * FROM u1 x RIGHT JOIN t1 ON x.un1 = n1"},
	{"shared.join-unaliased", "SELECT * FROM t1 LEFT JOIN u1 y ON n1 > y.un1"},
	// "direct selection from CTEs": a selector that goes on past the name of a CTE that has not been read yet
	{"shared.cte-path", "WITH c1 AS (SELECT rid, obj, arr FROM t1) SELECT k, w FROM `c1.obj`"},
	{"shared.cte-path", "WITH c1 AS (SELECT rid, obj, arr FROM t1) SELECT e FROM `mix=>c1.arr` WHERE e >= 0"},
	{"shared.cte-path", "WITH c1 AS (SELECT rid, obj FROM t1), c2 AS (SELECT k FROM `c1.obj`) SELECT k FROM c2"},
}

func c13Run(c *fw.Case) { c13RunW(c, c13Workloads[c.Idx%len(c13Workloads)]) }

// c13Cold: every case is a process of its own (Batch: 1) whose very first use
// of the library is a burst of concurrent queries, so that whatever the library
// sets up on first use (registries, indexes, caches, pools) is set up under
// concurrency; the run-alone results are computed afterwards.
func c13Cold(c *fw.Case) { c13RunW(c, "cold-start") }

var c13ColdQueries = []struct {
	sql      string
	multiset bool
	wrapped  bool
}{
	{"SELECT rid, TO_UPPER(s1) AS u, CONCAT(s1, 'x', n1) AS c FROM t1", false, false},
	{"SELECT rid, ASYNC.TO_UPPER(s1) AS u FROM t1", false, false},
	{"SELECT rid, IF(n1 > 1, 'a', 'b') AS v, SPINASYNC.TO_LOWER(s1) FROM t1", false, false},
	{"SELECT rid, ASYNC.VIMM(n1) AS v FROM t1", false, false},
	{"SELECT rid, VIMM(n1) AS v, VF(s1, rid, 1) AS w FROM t1", false, false},
	{"SELECT rid, ASYNC.VF(n1, rid, 1) AS a, AWAIT(ASYNC.VF(s1, rid, 2)) AS b FROM t1", false, false},
	{"SELECT rid FROM t1 WHERE s1 LIKE '%a%' OR s1 NOT LIKE '_'", false, false},
	{"SELECT s1, COUNT(*) AS c, SUM(n1) AS s FROM t1 GROUP BY s1", false, false},
	{"SELECT COUNT(*) AS c, MAX(n1) AS m FROM t1 WHERE n1 >= 0", false, false},
	{"SELECT * FROM t1 x JOIN u1 y ON x.n1 = y.un1", true, false},
	{"SELECT * FROM t1 x PARALLEL JOIN u1 y ON x.n1 >= y.un1", true, false},
	{"SELECT * FROM t1 x PARALLEL LEFT HASH_JOIN u1 y ON x.n1 = y.un1", true, false},
	{"SELECT rid, (SELECT e FROM arr WHERE e > 1) AS s FROM t1 WHERE EXISTS (SELECT e FROM arr)", false, false},
	{"WITH c1 AS (SELECT rid, n1 FROM t1) SELECT * FROM c1 WHERE n1 IN (SELECT un1 FROM `<-u1`)", false, false},
	{"SELECT DISTINCT s1, b1 FROM t1 ORDER BY s1 DESC LIMIT 3", false, false},
	{"SELECT rid FROM t1 UNION SELECT un1 AS rid FROM u1", false, false},
	{"SELECT a FROM mm WHERE a > 2", false, false},
	{"SELECT e FROM `mix=>t1.arr`", false, false},
	{"SELECT rid, `distinct=>tags` AS t, `arr[(0:1)]` AS h FROM t1", false, false},
	{"SELECT rid, n1 FROM `root.t1` WHERE n1 >= 0", false, true},
	{"SELECT rid, CHANGETYPE(n1, 'string') AS s, FIRST(tags) AS f, ELEMENTAT(tags, 1) AS e FROM t1", false, false},
	{"SELECT rid, GETVAR('k') AS g, CONSTANT('c1') AS k FROM t1", false, false},
}

func c13RunW(c *fw.Case, w string) {
	setHookMode(1)
	armFault(0, faultNone)
	G := 2 + c.Intn(pick(c.Tier, 7, 15))
	iters := 2 + c.Intn(pick(c.Tier, 4, 8))
	feats := []string{"workload." + w}
	jobs := make([][]*c13Job, G)
	postBaseline := false
	var sharedDoc map[string]any
	switch w {
	case "cold-start":
		postBaseline = true
		G = 4 + c.Intn(13)
		jobs = make([][]*c13Job, G)
		for g := 0; g < G; g++ {
			d := newRichDoc(c)
			for i, n := 0, 1+c.Intn(2); i < n; i++ {
				var j *c13Job
				switch k := c.Intn(len(c13ColdQueries) + len(c12Forms)/4 + 3); {
				case k < len(c13ColdQueries):
					q := c13ColdQueries[k]
					j = &c13Job{doc: d.fresh(), sql: q.sql, multiset: q.multiset}
					j.opts.Wrapped = q.wrapped
				case k < len(c13ColdQueries)+3:
					j = &c13Job{doc: d.fresh(), sql: gen.Pick(c.R, []string{"t1[0].arr[(0:1)]", "distinct=>t1[0].tags", "t1[each].rid", "mix=>mm"}), reader: true}
				default:
					j = &c13Job{doc: d.fresh(), sql: "SELECT rid, " + c12Forms[c.Intn(len(c12Forms))].sql + " AS v FROM t1"}
				}
				jobs[g] = append(jobs[g], j)
			}
		}
	case "separate-docs.fresh-selectors":
		postBaseline = true
		for g := 0; g < G; g++ {
			for i := 0; i < iters; i++ {
				sfx := fmt.Sprintf("_%d_%d_%d_%d", c.Seed, c.Idx, g, i)
				tname, col, col2 := "t"+sfx, "c"+sfx, "d"+sfx
				rows := make([]any, 1+c.Intn(5))
				for r := range rows {
					rows[r] = map[string]any{"rid": float64(r), col: float64(c.Intn(9)), col2: gen.Pick(c.R, []any{"p", "q"}), "nested" + sfx: []any{map[string]any{"e" + sfx: float64(c.Intn(5))}}}
				}
				doc := map[string]any{tname: rows}
				sql := gen.Pick(c.R, []string{
					fmt.Sprintf("SELECT rid, %s FROM %s WHERE %s >= 0", col, tname, col),
					fmt.Sprintf("SELECT %s, COUNT(*) AS n FROM %s GROUP BY %s", col2, tname, col2),
					fmt.Sprintf("SELECT rid, (SELECT e%s FROM nested%s) AS s FROM %s ORDER BY %s, rid", sfx, sfx, tname, col),
					fmt.Sprintf("SELECT x.rid FROM %s x JOIN %s y ON x.%s = y.%s", tname, tname, col, col),
					fmt.Sprintf("SELECT x.rid, y.rid FROM %s x PARALLEL JOIN %s y ON x.%s <= y.%s", tname, tname, col, col),
					fmt.Sprintf("SELECT x.rid, y.rid FROM %s x PARALLEL LEFT JOIN %s y ON x.%s < y.%s OR x.%s = y.%s", tname, tname, col, col, col2, col2),
				})
				jobs[g] = append(jobs[g], &c13Job{doc: doc, sql: sql, multiset: strings.Contains(sql, "JOIN")})
			}
		}
	case "separate-docs.cached-selectors":
		for g := 0; g < G; g++ {
			for i := 0; i < iters; i++ {
				d := newRichDoc(c)
				if c.Chance(0.3) {
					// the same selector text (open ranges, each, pipes) against documents
					// of different sizes: whatever is cached must not remember a document
					each := ref.Dim{Kind: ref.DimEach}
					rng := func(m int, begin bool) ref.Dim { return ref.Dim{Kind: ref.DimRange, M: m, Begin: begin, End: true} }
					k := func(n string) ref.SelStep { return ref.KeyStep{Name: n} }
					asts := []ref.Selector{
						{Segments: []ref.Segment{{Steps: []ref.SelStep{k("t1"), ref.IndexStep{Dims: []ref.Dim{rng(1, false)}}}}}},
						{Segments: []ref.Segment{{Steps: []ref.SelStep{k("t1"), ref.IndexStep{Dims: []ref.Dim{{Kind: ref.DimRange, Begin: true, N: 1}}}}}}},
						{Segments: []ref.Segment{{Steps: []ref.SelStep{k("mm"), ref.IndexStep{Dims: []ref.Dim{each, rng(0, false)}}}}}},
						{Segments: []ref.Segment{{Steps: []ref.SelStep{k("t1"), ref.IndexStep{Dims: []ref.Dim{each}}, k("obj"), ref.PipeStep{Fields: []ref.PipeField{{Key: "k", Type: "string"}, {Key: "w"}}}}}}},
						{Segments: []ref.Segment{{Steps: []ref.SelStep{k("t1"), ref.IndexStep{Keep: true, Dims: []ref.Dim{rng(1, false)}}}}}},
						{Segments: []ref.Segment{{Steps: []ref.SelStep{k("u1"), ref.IndexStep{Dims: []ref.Dim{rng(0, true)}}, k("un1")}}}},
					}
					ast := gen.Pick(c.R, asts)
					sel := ast.Render()
					doc := d.fresh()
					// "alone" is decided by the reference model: a baseline computed in this
					// process would share the process-wide selector cache with the others
					rv, rerr := ref.EvalSelector(ast, val.Copy(doc))
					j := &c13Job{doc: doc, sql: sel, reader: true, refWant: true, wantErr: rerr != nil}
					if rerr == nil {
						j.want = val.Canon(normEmpty(rv))
						if arr, ok := rv.([]any); ok && c.Chance(0.5) && len(arr) > 0 {
							if _, isObj := arr[0].(map[string]any); isObj {
								j.reader, j.sql = false, "SELECT * FROM `"+sel+"`"
							}
						}
					}
					jobs[g] = append(jobs[g], j)
					feats = append(feats, "cached.open-range")
					continue
				}
				if c.Chance(0.15) {
					// one text under two option sets at once: a double-quoted word is a column
					// under PostgresEscapingDialect and a string constant without it
					sql := gen.Pick(c.R, []string{"SELECT rid, \"s1\" AS v FROM t1", "SELECT rid, \"s1\" AS v, \"n1\" AS w FROM t1"})
					pg := (g+i)%2 == 0
					doc := d.fresh()
					var want []any
					for _, r := range d.t.Rows {
						row := map[string]any{"rid": r["rid"], "v": "s1"}
						if pg {
							row["v"] = r["s1"]
						}
						if strings.Contains(sql, "AS w") {
							row["w"] = "n1"
							if pg {
								row["w"] = r["n1"]
							}
						}
						want = append(want, row)
					}
					j := &c13Job{doc: doc, sql: sql, refWant: true, want: val.Canon(normEmpty(want)), feat: "separate.two-dialects"}
					j.opts.PG = pg
					jobs[g] = append(jobs[g], j)
					feats = append(feats, "separate.two-dialects")
					continue
				}
				if c.Chance(0.2) {
					// built-in functions that serialise their argument (HASH, ENCODE)
					// over many rows of documents that share nothing: whatever
					// buffers they use, each query gets the digests of its own values
					rows := make([]any, 30+c.Intn(40))
					for r := range rows {
						rows[r] = map[string]any{"rid": float64(r), "s": fmt.Sprintf("%s-%d-%d-%d", gen.RandString(c.R, gen.Plain, 3), g, i, r), "n": float64(c.Intn(100000)) / 8}
					}
					sql := gen.Pick(c.R, []string{
						"SELECT rid, HASH(s, 'sha256') AS h, ENCODE(s, 'base64') AS e FROM big",
						"SELECT rid, HASH(n, 'md5') AS h, ENCODE(n, 'hex') AS e, HASH(s, 'sha1') AS h2 FROM big",
						"SELECT rid, DECODE(ENCODE(s, 'base32'), 'base32') AS back, HASH(s, 'sha512') AS h FROM big WHERE HASH(s, 'md5') != ''",
					})
					jobs[g] = append(jobs[g], &c13Job{doc: map[string]any{"big": rows}, sql: sql, feat: "separate.builtins"})
					feats = append(feats, "separate.builtins")
					continue
				}
				f := richForms[c.Intn(len(richForms))]
				sql := f.build(c, d, "VFAIL")
				jobs[g] = append(jobs[g], &c13Job{doc: d.fresh(), sql: sql, multiset: f.multiset || strings.Contains(sql, "JOIN")})
			}
		}
	case "shared-doc.queries":
		d := newRichDoc(c)
		for len(d.t.Rows) < 2 {
			d = newRichDoc(c)
		}
		sharedDoc = d.fresh()
		for g := 0; g < G; g++ {
			for i := 0; i < iters; i++ {
				q := c13Shared[c.Intn(len(c13Shared))]
				j := &c13Job{doc: sharedDoc, sql: q.sql, feat: q.feat}
				if q.feat == "shared.cte-wrapped" {
					j.opts.Wrapped = true
				}
				jobs[g] = append(jobs[g], j)
				feats = append(feats, q.feat)
			}
		}
	case "internal-parallelism":
		d := newRichDoc(c)
		for len(d.t.Rows) < 2 {
			d = newRichDoc(c)
		}
		shared := c.Chance(0.5)
		sharedDoc = d.fresh()
		plan := map[[2]int32]int32{}
		for s := int32(1); s <= 2; s++ {
			for r := int32(0); r < 32; r++ {
				plan[[2]int32{s, r}] = int32(c.Intn(3)) * int32(c.Intn(200))
			}
		}
		latPlan = plan
		for g := 0; g < G; g++ {
			for i := 0; i < iters; i++ {
				var sql, feat string
				switch c.Intn(12) {
				case 9:
					// the ON expression panics for the key groups whose z1 is NULL, while the
					// other key groups are still being evaluated: an error, never a dead-lock
					jn := gen.Pick(c.R, []string{"PARALLEL JOIN", "PARALLEL LEFT JOIN", "PARALLEL STRAIGHT_JOIN", "PARALLEL RIGHT JOIN"})
					on := gen.Pick(c.R, []string{"x.n1 >= y.un1 AND VPANICNULL(x.z1)", "x.rid >= 0 AND IF(VPANICNULL(x.z1), TRUE, FALSE)", "x.n1 = y.un1 OR VPANICNULL(x.z1)"})
					sql, feat = "SELECT x.rid, y.un1 FROM t1 x "+jn+" u1 y ON "+on, "par.join-panic"
				case 8:
					// an ON expression that touches state of the query: a ONCE memo, pending
					// work of a subquery, a CTE of the scope that has not been read yet
					// (also spelled as a hash join: an ON that is no conjunction of equalities falls back to the nested loop)
					jn := gen.Pick(c.R, []string{"PARALLEL JOIN", "PARALLEL LEFT JOIN", "PARALLEL STRAIGHT_JOIN", "PARALLEL HASH_JOIN", "PARALLEL LEFT HASH_JOIN", "PARALLEL RIGHT HASH_JOIN"})
					on := gen.Pick(c.R, []string{"x.n1 = y.un1 AND ONCE.VFONCE(true, 1, 1)", "x.n1 >= y.un1 AND EXISTS (SELECT e FROM `x.arr` WHERE e >= 0)", "x.n1 = y.un1 OR EXISTS (SELECT 1 FROM `<-.c9`)",
						"x.n1 >= y.un1 AND x.n1 IN (SELECT un1 FROM `<-u1`)", "x.s1 = y.us1 OR VF(true, 1, 2)",
						// a call that is followed by plain columns among the operands of one expression
						"ONCE.VFONCE(3, 1, 1) BETWEEN y.un1 AND x.n1", "ONCE.VFONCE(2, 1, 1) <= y.un1 AND x.rid >= 0", "x.rid >= 0 AND ONCE.VFONCE(4, 1, 1) NOT BETWEEN x.n1 AND y.un1", "ONCE.VFONCE(1, 1, 1) IN (x.n1, y.un1, 1)",
						"x.n1 = y.un1 AND COUNT(*) BETWEEN 0 AND 500", "x.n1 >= y.un1 AND SUM(y.un1) IS NULL", "x.n1 = y.un1 AND MAX(x.n1) IS NOT NULL AND COUNT(*) BETWEEN 0 AND 9"})
					sql, feat = "WITH c9 AS (SELECT rid FROM t1) SELECT x.rid, y.un1 FROM t1 x "+jn+" u1 y ON "+on, "par.join-stateful"
					if !strings.Contains(on, "c9") && c.Chance(0.7) {
						// (a CTE that has not been read serialises the join by itself)
						sql = strings.TrimPrefix(sql, "WITH c9 AS (SELECT rid FROM t1) ")
					}
				case 5, 11:
					// background calls that are handed whole rows of a derived table and read them
					q := gen.Pick(c.R, []string{"SPIN", "SPINASYNC", "ASYNC", "SPIN"})
					sql, feat = gen.Pick(c.R, []string{"SELECT "+q+".VBGREAD(x) AS v FROM (SELECT * FROM t1) x", "SELECT "+q+".VBGREAD((SELECT * FROM `<-.u1`)) AS v FROM t1", "WITH c AS (SELECT * FROM t1) SELECT "+q+".VBGREAD(x) AS v FROM c x"}), "par.bg-reads-derived-row"
				case 6:
					// ASYNC calls, not wrapped in AWAIT, below the second FROM dimension
					sql, feat = gen.Pick(c.R, []string{"SELECT rid, ASYNC.VF(a, rid, 1) AS r FROM cube", "SELECT rid, ASYNC.VF(b, rid, 2) AS r, SPINASYNC.VF(a, rid, 1) FROM cube WHERE a >= 0", "SELECT a, ASYNC.VF(a, 1, 1) AS r FROM mm"}), "par.async-deep"
				case 7:
					// LIKE with a column pattern inside the ON of a nested-loop PARALLEL join
					jn := gen.Pick(c.R, []string{"PARALLEL JOIN", "PARALLEL LEFT JOIN", "PARALLEL RIGHT JOIN", "PARALLEL STRAIGHT_JOIN"})
					on := gen.Pick(c.R, []string{"x.s1 LIKE y.us1", "x.s1 NOT LIKE y.us1", "x.s1 LIKE y.us1 OR x.n1 = y.un1", "y.us1 LIKE x.s1 AND x.n1 >= y.un1", "x.s1 LIKE '%a%' OR x.s1 LIKE y.us1"})
					sql, feat = "SELECT * FROM t1 x "+jn+" u1 y ON "+on, "par.join-like"
				case 4:
					// several key groups fail at once: the join must report an error, not dead-lock
					jn := gen.Pick(c.R, []string{"PARALLEL JOIN", "PARALLEL LEFT JOIN", "PARALLEL HASH_JOIN", "PARALLEL STRAIGHT_JOIN"})
					sql, feat = "SELECT * FROM t1 x "+jn+" u1 y ON x.n1 = y.un1 AND "+gen.Pick(c.R, []string{"5", "x.s1", "NOSUCHFN(1)"}), "par.join-fail"
				case 0, 1:
					jn := gen.Pick(c.R, []string{"PARALLEL JOIN", "PARALLEL LEFT JOIN", "PARALLEL RIGHT JOIN", "PARALLEL HASH_JOIN", "PARALLEL LEFT HASH_JOIN", "PARALLEL RIGHT HASH_JOIN", "PARALLEL STRAIGHT_JOIN"})
					on := gen.Pick(c.R, []string{"x.n1 = y.un1", "x.n1 >= y.un1", "x.n1 = y.un1 OR x.s1 = y.us1", "x.s1 = y.us1 AND x.n1 != y.un1"})
					sql, feat = "SELECT * FROM t1 x "+jn+" u1 y ON "+on, "par.join"
				case 2:
					sql, feat = "SELECT rid, ASYNC.VF(n1, rid, 1) AS a, ASYNC.VF(s1, rid, 2) AS b FROM t1 WHERE n1 >= 0", "par.async"
				case 3:
					sql, feat = "SELECT rid, AWAIT(ASYNC.VF(n1, rid, 1)) AS a, ASYNC.VF(s1, rid, 2) AS b FROM t1", "par.await-async"
				default:
					sql, feat = "SELECT rid, SPINASYNC.VF(n1, rid, 1), ASYNC.VF(s1, rid, 2) AS b FROM t1", "par.spinasync"
				}
				doc := sharedDoc
				if !shared {
					doc = d.fresh()
				}
				jobs[g] = append(jobs[g], &c13Job{doc: doc, sql: sql, multiset: strings.Contains(sql, "JOIN"), feat: feat})
				feats = append(feats, feat)
			}
		}
		if !shared {
			sharedDoc = nil
		}
	case "reexec.results-reused":
		// one goroutine executes a Query object again and again while the others
		// use the rows its FIRST execution returned as the document of their own
		// queries: an execution that is over writes nothing into what it returned
		d := newRichDoc(c)
		for len(d.t.Rows) < 2 {
			d = newRichDoc(c)
		}
		qsql := gen.Pick(c.R, []string{"SELECT *, ASYNC.VF(n1, rid, 1) AS a FROM t1", "SELECT rid, n1, AWAIT(ASYNC.VF(s1, rid, 2)) AS b, (SELECT e FROM arr) AS es FROM t1", "SELECT * FROM t1 WHERE n1 >= n1", "SELECT q.rid, q.a FROM (SELECT rid, ASYNC.VF(n1, rid, 1) AS a FROM t1) q"})
		q, nerr := newSafe(d.fresh(), qsql)
		if q == nil || nerr.Err != nil {
			c.Discard("query could not be constructed")
			return
		}
		first := execBuilt(q)
		if !first.OK() {
			c.Discard("first execution failed")
			return
		}
		sharedDoc = map[string]any{"r": first.Rows}
		for i := 0; i < iters+3; i++ {
			jobs[0] = append(jobs[0], &c13Job{built: q, sql: qsql + "  -- (the same Query object, executed again)", feat: "reexec.results-reused"})
		}
		for g := 1; g < G; g++ {
			for i := 0; i < iters+2; i++ {
				rsql := gen.Pick(c.R, []string{"SELECT * FROM r", "SELECT rid FROM r WHERE rid >= 0", "SELECT DISTINCT * FROM r", "SELECT COUNT(*) AS n FROM r"})
				jobs[g] = append(jobs[g], &c13Job{doc: sharedDoc, sql: rsql, feat: "reexec.results-reused"})
			}
		}
		feats = append(feats, "reexec.results-reused")
	case "shared-doc.execreader":
		// the "alone" results are computed after the concurrent run: whatever a
		// first evaluation of a text does to process-wide state must happen
		// while the other goroutines are running
		postBaseline = true
		doc := c09Doc(c)
		sharedDoc = doc
		for g := 0; g < G; g++ {
			for i := 0; i < iters+2; i++ {
				var fs []string
				sel := c09Selector(c, doc, "", &fs).Render()
				if c.Chance(0.3) {
					sel += fmt.Sprintf("::nokey_%d_%d_%d", c.Idx, g, i) // a fresh selector text: cache miss
				}
				if c.Chance(0.25) {
					// top-level functions in spellings the process has not seen
					// (whether a spelling is accepted is not the point: it is the same alone and concurrently)
					fn := gen.Pick(c.R, []string{"Mix", "MIX", "Distinct", "DISTINCT", "dIsTiNcT", "mIx", "Vsel", "VSEL"})
					spell := []byte(fn)
					for k := range spell {
						if (c.Idx+g+i+k)%3 == 0 {
							spell[k] ^= 0x20
						}
					}
					sel = string(spell) + "=>" + gen.Pick(c.R, []string{"users", "data", "rag", "items"})
					feats = append(feats, "reader.fn-spelling")
				}
				jobs[g] = append(jobs[g], &c13Job{doc: doc, sql: sel, reader: true})
			}
		}
	}
	c.Feature(feats...)
	var before val.Snapshot
	if sharedDoc != nil {
		before = val.Snap(sharedDoc)
	}
	if !postBaseline {
		for _, js := range jobs {
			for _, j := range js {
				if j.refWant {
					continue
				}
				j.want, j.wantErr, j.panicked, _ = j.exec()
				if j.panicked != nil {
					c.Violate("panic", fmt.Sprintf("panic in the sequential baseline: %v", j.panicked), map[string]any{"sql": j.sql})
					return
				}
			}
		}
		base := vfEntered.Load()
		_ = base
	}
	// the concurrent run
	var wg sync.WaitGroup
	start := make(chan struct{})
	// the order in which the goroutines finish is an observable of the schedule;
	// it is sent when a goroutine has nothing left to do, so it orders nothing
	// inside the queries
	finished := make(chan int, G)
	for g := 0; g < G; g++ {
		wg.Add(1)
		go func(g int, js []*c13Job) {
			defer wg.Done()
			<-start
			for _, j := range js {
				j.got, j.gotErr, j.panicked, j.nonEmpty = j.exec()
			}
			finished <- g
		}(g, jobs[g])
	}
	close(start)
	wg.Wait()
	close(finished)
	order := ""
	for g := range finished {
		order += fmt.Sprint(g, ",")
	}
	c.SetAdd("goroutine_finish_orders", fmt.Sprintf("%d:%s", G, order))
	// let detached calls drain before the next case
	for i := 0; i < 500 && vfEntered.Load() != vfExited.Load(); i++ {
		sleepMs(1)
	}
	if postBaseline {
		for _, js := range jobs {
			for _, j := range js {
				j.want, j.wantErr, _, _ = j.exec()
			}
		}
	}
	total, busy := 0, 0
	for g, js := range jobs {
		okInG := false
		for i, j := range js {
			total++
			det := map[string]any{"workload": w, "goroutines": G, "goroutine": g, "iteration": i, "sql": j.sql, "doc": val.Show(j.doc), "alone": short(j.want, 600), "concurrent": short(j.got, 600), "alone_error": j.wantErr, "concurrent_error": j.gotErr}
			if j.panicked != nil {
				c.Violate("panic", fmt.Sprintf("panic escaped under concurrency: %v", j.panicked), det)
				return
			}
			if j.gotErr != j.wantErr || j.got != j.want {
				c.Violate("cross-talk", fmt.Sprintf("goroutine %d, query %d returned something else than when run alone: `%s`", g, i, short(j.sql, 160)), det)
				return
			}
			if j.nonEmpty {
				okInG = true
			}
			if j.multiset && strings.Contains(j.sql, "PARALLEL") {
				c.SetAdd("parallel_join_queries", fmt.Sprintf("%x", val.Hash64(j.sql+val.Canon(j.doc))))
			}
		}
		if okInG {
			busy++
		}
	}
	if sharedDoc != nil {
		if d := before.Diff(val.Snap(sharedDoc), 5); len(d) > 0 {
			c.Violate("shared-doc-modified", fmt.Sprintf("the shared document changed: %s", strings.Join(d, "; ")), map[string]any{"workload": w, "diff": d})
			return
		}
	}
	c.Evals(total)
	c.Count("goroutines_started", G)
	c.Count("concurrent_queries", total)
	c.SetAdd("goroutine_counts", fmt.Sprint(G))
	c.Sample(map[string]any{"workload": w, "goroutines": G, "queries_per_goroutine": len(jobs[0]), "example": short(jobs[0][0].sql, 200)})
	if busy >= 2 {
		c.Nontrivial(fmt.Sprintf("%s|%d|%s", w, c.Idx, short(jobs[0][0].sql, 100)))
	}
}

var _ = genql.ExecReader
