package props

import (
	"github.com/vedadiyan/genql"
	"math/rand/v2"

	"fmt"
	"math"
	"strings"

	"verifharness/internal/fw"
	"verifharness/internal/gen"
	"verifharness/internal/ref"
	"verifharness/internal/val"
)

var c05Floor = []string{"keys.1", "keys.2", "keys.3", "dir.asc", "dir.desc", "dir.mixed", "key.null", "key.computed-null", "key.alias", "key.alias.nonword", "key.alias.shadow", "key.table-qualified", "key.native", "reexec.window", "key.null.multi", "shape.dual", "key.str", "key.num", "ties", "limit.huge",
	"limit.bare", "limit.beyond-int64", "limit.offset", "limit.comma", "limit.zero", "offset.beyond", "window.straddle", "window.inside", "window.noorder", "where",
	"shape.distinct", "shape.agg-all", "shape.group", "shape.union", "shape.bigint", "shape.union-order", "shape.qualified", "shape.shrunk-offset", "shape.distinct-star", "shape.union-star-order", "shape.agg-mixed", "key.native.mixed-types", "limit.zero-padded"}

func init() {
	fw.Register(&fw.Prop{
		ID:    "C05",
		Title: "ORDER BY sorts, LIMIT/OFFSET return the exact window and never fail",
		Level: "exploration",
		Rule: "equal keys under different Go types within one column (the next key decides); zero-padded LIMIT / OFFSET literals. shapes also: DISTINCT * / UNION of whole rows under a partial ORDER BY (a permutation of the unordered query), an aggregate next to plain columns under LIMIT. aliases that shadow another selected source column; keys qualified by the table's own name; natively typed keys; nullable keys among several keys (two NULLs tie, the next key decides); phase 'reexec': a windowed Query executed over sequences of changing length; shape 'dual'. a quarter of the quick tables has up to 40 rows (sort.Slice is an insertion sort up to 12); shapes also cover ORDER BY of a UNION and keys named by their qualified source name. phase 'shapes': a (limit, offset) grid around the final and the source length over DISTINCT, all-aggregate, GROUP BY and UNION queries against the un-windowed sequence of the same query, and ORDER BY over native int64/uint64 keys beyond 2^53. Phase 'order': each case = random table (ties, NULL/missing single keys) x ORDER BY over 1..3 projected columns (plain or aliased, every direction mix) x optional WHERE x (limit, offset) drawn from {0,1,len-1,len,len+1,2len} in the three spellings; " +
			"three real executions are compared: unordered U, ordered O, windowed W. Oracle: O is a permutation of U (rid multiset), every adjacent pair of O respects the key list lexicographically with its directions, NULL single keys come last in both directions; " +
			"W has exactly max(0,min(n,len-m)) rows, its key-tuple sequence equals that of O[m:m+n], every row of W is a row of O (no padding, no phantom), and no error is returned; without ORDER BY, W equals U[m:m+n] row for row. " +
			"Non-trivial = at least 3 rows with at least 2 distinct key tuples (ordering) or a window that cuts the sequence (LIMIT); distinct = distinct (table, SQL).",
		Assumptions: []string{
			"sort keys are projected columns holding one scalar kind; multi-key sorts use non-NULL columns (the property defines NULL placement for a single key only)",
			"stability is not demanded: ties may come in any order, so windows are compared by key tuples plus membership",
			"nil and [] both count as an empty result",
		},
		Floor:         c05Floor,
		MinNontrivial: 50,
		Phases: []fw.Phase{
			{Name: "order", N: func(t fw.Tier) int { return pick(t, 12000, 400000) }, Run: c05Order},
			{Name: "reexec", N: func(t fw.Tier) int { return pick(t, 800, 20000) }, Run: c05Reexec},
			{Name: "shapes", N: func(t fw.Tier) int { return pick(t, 1500, 40000) }, Run: c05Shapes},
		},
		Witness: sqlWitness,
	})
}

type c05Key struct {
	out  string // output column name
	desc bool
}

func c05Order(c *fw.Case) {
	force := ""
	if c.Idx < 3*len(c05Floor) {
		force = c05Floor[c.Idx%len(c05Floor)]
	}
	// sort.Slice is an insertion sort up to 12 elements: a share of the tables is larger
	maxRows := pick(c.Tier, 12, 40)
	if c.Idx%4 == 3 {
		maxRows = 40
	}
	t := gen.RandTable(c.R, gen.TableSpec{Name: "t1", MaxRows: maxRows, NumCols: 2, StrCols: 2, BoolCols: 1, NullCols: 2, StrStyle: gen.Hostile, PoolSize: 2 + c.Intn(3)})
	var feats []string
	// choose keys
	nk := 1 + c.Intn(3)
	noOrder := force == "window.noorder" || (force == "" && c.Chance(0.15))
	switch force {
	case "keys.1", "key.null":
		nk = 1
	case "keys.2":
		nk = 2
	case "keys.3":
		nk = 3
	}
	cands := []string{"n1", "n2", "s1", "s2", "b1"}
	c.R.Shuffle(len(cands), func(i, j int) { cands[i], cands[j] = cands[j], cands[i] })
	var keys []c05Key
	var items []string
	items = append(items, "rid")
	aliasOf := map[string]string{}
	if !noOrder {
		if nk == 1 && (force == "key.null" || c.Chance(0.3)) {
			cands[0] = gen.Pick(c.R, []string{"z1", "z2"})
			feats = append(feats, "key.null")
		}
		if nk > 1 && (force == "key.null.multi" || c.Chance(0.3)) {
			// a nullable key among several: rows that are both NULL on it are ordered by the keys after it
			cands[c.Intn(nk)] = gen.Pick(c.R, []string{"z1", "z2"})
			feats = append(feats, "key.null", "key.null.multi")
		}
		computedNull := nk == 1 && (force == "key.computed-null" || c.Chance(0.12))
		for i := 0; i < nk; i++ {
			col := cands[i]
			out := col
			if computedNull {
				// a computed key that is NULL on the rows where z1 is NULL or missing
				items = append(items, "(n1 + z1) AS kc")
				aliasOf["kc"] = "kc"
				keys = append(keys, c05Key{out: "kc", desc: force == "key.computed-null" || c.Chance(0.6)})
				feats = append(feats, "key.computed-null", "key.null", "key.alias", "key.num")
				continue
			}
			if (force == "key.alias" || force == "key.alias.shadow") && i == 0 || c.Chance(0.3) {
				out = "k" + fmt.Sprint(i)
				if c.Chance(0.4) {
					// an output column is named by its alias as it is, whatever characters it holds
					out = fmt.Sprintf(gen.Pick(c.R, []string{"k %d", "k-%d", "k.%d", "é%d", "count(%d)"}), i)
					feats = append(feats, "key.alias.nonword")
				}
				if nk < len(cands) && i == 0 && (force == "key.alias.shadow" || c.Chance(0.15)) {
					// the alias is the source name of another selected column,
					// itself shown under another name: the key names the output column
					out = cands[nk]
					items = append(items, out+" AS w"+fmt.Sprint(i))
					feats = append(feats, "key.alias.shadow")
				}
				items = append(items, col+" AS "+c05Quote(out))
				feats = append(feats, "key.alias")
			} else {
				items = append(items, col)
			}
			aliasOf[out] = col
			desc := c.Chance(0.5)
			switch force {
			case "dir.asc":
				desc = false
			case "dir.desc":
				desc = true
			}
			keys = append(keys, c05Key{out: out, desc: desc})
			if strings.HasPrefix(col, "s") {
				feats = append(feats, "key.str")
			}
			if strings.HasPrefix(col, "n") || col == "z1" {
				feats = append(feats, "key.num")
			}
		}
		feats = append(feats, fmt.Sprintf("keys.%d", nk))
		asc, dsc := 0, 0
		for _, k := range keys {
			if k.desc {
				dsc++
			} else {
				asc++
			}
		}
		switch {
		case asc > 0 && dsc > 0:
			feats = append(feats, "dir.mixed", "dir.asc", "dir.desc")
		case asc > 0:
			feats = append(feats, "dir.asc")
		default:
			feats = append(feats, "dir.desc")
		}
	}
	star := c.Chance(0.15) && !containsStr(feats, "key.alias")
	sel := strings.Join(items, ", ")
	if star {
		sel = "*"
	}
	base := "SELECT " + sel + " FROM t1"
	pg := &gen.PredGen{R: c.R, T: t, MaxDepth: 1, Disable: map[string]bool{"in.subquery": true}}
	if force == "where" || c.Chance(0.35) {
		base += " WHERE " + gen.RenderPred(pg.Gen(), gen.RenderOpts{})
		feats = append(feats, "where")
	}
	orderSQL := ""
	tableQualified := force == "" && c.Chance(0.1)
	if !noOrder {
		parts := make([]string, len(keys))
		for i, k := range keys {
			d := " ASC"
			if k.desc {
				d = " DESC"
			}
			if !k.desc && c.Chance(0.3) {
				d = ""
			}
			parts[i] = c05Quote(k.out) + d
			if aliasOf[k.out] == k.out && k.out != "kc" && (force == "key.table-qualified" || tableQualified) {
				// an output column named with the table's own name
				parts[i] = "t1." + k.out + d
				feats = append(feats, "key.table-qualified")
			}
		}
		orderSQL = " ORDER BY " + strings.Join(parts, ", ")
	}
	// (not with the computed key: arithmetic takes float64 operands only)
	native := (force == "key.native" || (force == "" && c.Chance(0.1))) && !containsStr(feats, "key.computed-null")
	if native {
		feats = append(feats, "key.native")
	}
	// ... or every row's number under a Go type of its own: equal keys of
	// different types are a tie, and the next key decides
	mixedTypes := native && c.Chance(0.5)
	mixSeed := c.R.Uint64()
	if mixedTypes {
		feats = append(feats, "key.native.mixed-types")
	}
	doc := func() map[string]any {
		d := DocOf(t)
		if mixedTypes {
			mr := rand.New(rand.NewPCG(mixSeed, 7))
			nativizeMixed(mr, d["t1"].([]any), "n1")
			nativizeMixed(mr, d["t1"].([]any), "n2")
			return d
		}
		if native {
			// whole numbers as natively typed Go integers next to fractional float64 values
			nativize(c, d["t1"].([]any), "n1")
			nativize(c, d["t1"].([]any), "n2")
		}
		return d
	}
	fail := func(kind, msg string, extra map[string]any) {
		extra["doc"] = doc()
		c.Violate(kind, msg, extra)
	}
	// U
	u := Run(doc(), base)
	if !u.OK() {
		// WHERE out of domain is impossible here; any failure is a finding of C01/C02 territory but still an error for the ordered query
		fail("error", fmt.Sprintf("unordered base query failed: %v", u.Describe()), map[string]any{"sql": base})
		return
	}
	U := u.Rows
	n := len(U)
	evals := 1
	O := U
	keyTuple := func(row any) []any {
		m, _ := row.(map[string]any)
		out := make([]any, len(keys))
		for i, k := range keys {
			out[i] = val.Deref(m[k.out])
			if val.IsNumber(out[i]) {
				out[i], _ = val.Rat(out[i]).Float64()
			}
		}
		return out
	}
	if !noOrder {
		osql := base + orderSQL
		o := Run(doc(), osql)
		evals++
		if !o.OK() {
			fail("error", fmt.Sprintf("ORDER BY query failed: %v", o.Describe()), map[string]any{"sql": osql})
			return
		}
		O = o.Rows
		if !val.SameMultiset(O, U) {
			fail("not-permutation", fmt.Sprintf("ordered output is not a permutation of the unordered output: rids %v vs %v", Rids(O), Rids(U)), map[string]any{"sql": osql, "observed": val.Show(O)})
			return
		}
		distinctTuples := map[string]bool{}
		for i := 0; i < len(O); i++ {
			distinctTuples[val.Canon(keyTuple(O[i]))] = true
			if i == 0 {
				continue
			}
			a, b := keyTuple(O[i-1]), keyTuple(O[i])
			for ki, k := range keys {
				// NULL-last in either direction; two NULLs tie, the next key decides
				if a[ki] == nil && b[ki] == nil {
					continue
				}
				if a[ki] == nil {
					fail("null-not-last", fmt.Sprintf("row with NULL on key %q at position %d precedes a row with a value (earlier keys tie)", k.out, i-1), map[string]any{"sql": osql, "observed": val.Show(O)})
					return
				}
				if b[ki] == nil {
					break
				}
				cmp, err := ref.CmpScalar(a[ki], b[ki])
				if err != nil {
					c.Discard("mixed kinds in key")
					return
				}
				if k.desc {
					cmp = -cmp
				}
				if cmp < 0 {
					break
				}
				if cmp > 0 {
					fail("out-of-order", fmt.Sprintf("rows at positions %d,%d violate key %q (%s): %v then %v", i-1, i, k.out, map[bool]string{true: "DESC", false: "ASC"}[k.desc], a, b), map[string]any{"sql": osql, "observed": val.Show(O)})
					return
				}
			}
		}
		if len(distinctTuples) < len(O) {
			feats = append(feats, "ties")
		}
		if len(O) >= 3 && len(distinctTuples) >= 2 {
			c.Nontrivial(osql + "|" + val.Canon(t.Array()))
		}
	}
	// window
	if force == "" && c.Chance(0.25) && !noOrder {
		c.Feature(feats...)
		c.Evals(evals)
		c.Sample(map[string]any{"sql": base + orderSQL, "rows": n})
		return
	}
	choices := []int{0, 1, n - 1, n, n + 1, 2 * n, n / 2}
	lim := gen.Pick(c.R, choices)
	off := gen.Pick(c.R, choices)
	if force == "" && c.Chance(0.06) {
		lim = gen.Pick(c.R, []int{math.MaxInt64, math.MaxInt64 - 1, 1 << 62, math.MaxInt32})
	}
	if lim < 0 {
		lim = 0
	}
	if off < 0 {
		off = 0
	}
	spelling := c.Intn(3)
	switch force {
	case "limit.bare":
		spelling = 0
	case "limit.offset":
		spelling = 1
	case "limit.comma":
		spelling = 2
	case "limit.zero":
		lim = 0
	case "limit.huge":
		lim, off, spelling = gen.Pick(c.R, []int{math.MaxInt64, math.MaxInt64 - 1, 1 << 62, math.MaxInt32}), c.Intn(n+2), 1+c.Intn(2)
	case "offset.beyond":
		off, spelling = n+1+c.Intn(3), 1+c.Intn(2)
	case "window.straddle":
		if n >= 2 {
			off, lim, spelling = n-1, 3, 1+c.Intn(2)
		}
	case "window.inside":
		if n >= 3 {
			off, lim, spelling = 1, 1, 1+c.Intn(2)
		}
	}
	var limSQL string
	// numbers beyond the range of an int64 (LIMIT m, 18446744073709551615 is
	// the MySQL idiom for "all rows from m on") are as good as the largest one
	limS, offS := fmt.Sprint(lim), fmt.Sprint(off)
	if lim == math.MaxInt64 && c.Chance(0.6) {
		limS = gen.Pick(c.R, []string{"18446744073709551615", "9223372036854775808", "99999999999999999999999"})
		feats = append(feats, "limit.beyond-int64")
	}
	if spelling != 0 && off > n && c.Chance(0.2) {
		offS = gen.Pick(c.R, []string{"18446744073709551615", "9223372036854775808"})
		off = math.MaxInt64
		feats = append(feats, "limit.beyond-int64")
	}
	if lim < 1<<40 && off < 1<<40 && c.Chance(0.12) {
		// zero-padded numbers are decimal numbers
		pad := gen.Pick(c.R, []string{"0", "00"})
		limS, offS = pad+limS, pad+offS
		feats = append(feats, "limit.zero-padded")
	}
	switch spelling {
	case 0:
		off = 0
		limSQL = " LIMIT " + limS
		feats = append(feats, "limit.bare")
	case 1:
		limSQL = " LIMIT " + limS + " OFFSET " + offS
		feats = append(feats, "limit.offset")
	default:
		limSQL = " LIMIT " + offS + ", " + limS
		feats = append(feats, "limit.comma")
	}
	if lim == 0 {
		feats = append(feats, "limit.zero")
	}
	if lim > 1<<40 {
		feats = append(feats, "limit.huge")
	}
	if off > n {
		feats = append(feats, "offset.beyond")
	}
	if off < n && off+lim > n {
		feats = append(feats, "window.straddle")
	}
	if off > 0 && off+lim < n && lim > 0 {
		feats = append(feats, "window.inside")
	}
	if noOrder {
		feats = append(feats, "window.noorder")
	}
	wsql := base + orderSQL + limSQL
	w := Run(doc(), wsql)
	evals++
	c.Feature(feats...)
	c.Evals(evals)
	c.Sample(map[string]any{"sql": wsql, "rows": n, "limit": lim, "offset": off})
	if !w.OK() {
		fail("error", fmt.Sprintf("LIMIT/OFFSET query failed (must never fail): %v", w.Describe()), map[string]any{"sql": wsql, "rows": n})
		return
	}
	W := w.Rows
	wantLen := n - off
	if wantLen > lim {
		wantLen = lim
	}
	if wantLen < 0 {
		wantLen = 0
	}
	det := map[string]any{"sql": wsql, "full_sequence": val.Show(O), "observed": val.Show(W), "limit": lim, "offset": off}
	if len(W) != wantLen {
		fail("window-length", fmt.Sprintf("window has %d rows, expected %d (len=%d limit=%d offset=%d)", len(W), wantLen, n, lim, off), det)
		return
	}
	if wantLen == 0 {
		return
	}
	expect := O[off : off+wantLen]
	if noOrder {
		if !val.SameSeq(W, expect) {
			fail("window-content", "window differs from positions m..m+n-1 of the unwindowed sequence", det)
		}
	} else {
		for i := range W {
			if W[i] == nil {
				fail("window-padding", fmt.Sprintf("window element %d is NULL padding", i), det)
				return
			}
			if val.Canon(keyTuple(W[i])) != val.Canon(keyTuple(expect[i])) {
				fail("window-content", fmt.Sprintf("window element %d has key %v, the full ordered sequence has %v at position %d", i, keyTuple(W[i]), keyTuple(expect[i]), off+i), det)
				return
			}
		}
		// every windowed row is one of the full rows (sub-multiset)
		pool := map[string]int{}
		for _, r := range O {
			pool[val.Canon(r)]++
		}
		for i, r := range W {
			k := val.Canon(r)
			if pool[k] == 0 {
				fail("window-phantom", fmt.Sprintf("window element %d is not a row of the full result", i), det)
				return
			}
			pool[k]--
		}
	}
	if wantLen < n {
		c.Nontrivial(wsql + "|" + val.Canon(t.Array()))
	}
}

var c05ShapeKinds = []string{"distinct", "agg-all", "group", "union", "bigint", "union-order", "qualified", "dual", "distinct-star", "union-star-order", "agg-mixed"}

// c05Shapes: the window is cut from the FINAL row sequence, also when that
// sequence is shorter than the filtered source (DISTINCT, an all-aggregate
// select list, GROUP BY, UNION), and sort keys are compared by value also when
// they are native integers beyond 2^53. Every (limit, offset) pair of a small
// grid is executed against the un-windowed sequence of the same query.
func c05Shapes(c *fw.Case) {
	kind := c05ShapeKinds[c.Idx%len(c05ShapeKinds)]
	t := gen.RandTable(c.R, gen.TableSpec{Name: "t1", MinRows: 3, MaxRows: pick(c.Tier, 10, 24), NumCols: 2, StrCols: 2, BoolCols: 1, StrStyle: gen.Plain, PoolSize: 2 + c.Intn(2)})
	// t2 / t3: the rows without their row ids (whole rows repeat), in two orders
	var t2, t3 []any
	for i := range t.Rows {
		pr := func(r map[string]any) map[string]any {
			return map[string]any{"s1": r["s1"], "s2": r["s2"], "b1": r["b1"]}
		}
		t2 = append(t2, pr(t.Rows[i]))
		t3 = append(t3, pr(t.Rows[len(t.Rows)-1-i]))
	}
	doc := func() map[string]any {
		d := DocOf(t)
		d["t2"], d["t3"] = val.Copy(t2), val.Copy(t3)
		return d
	}
	src := len(t.Rows)
	permOf := "" // the unordered query the ordered one must be a permutation of
	var base string
	sortedBy, sortedDesc := "", false // output column the un-windowed sequence must be sorted by
	exact := true                     // the un-windowed sequence is deterministic
	switch kind {
	case "distinct":
		col := gen.Pick(c.R, []string{"s1", "s2", "n1", "b1"})
		base = "SELECT DISTINCT " + col + " FROM t1"
		if c.Chance(0.6) {
			base += " ORDER BY " + col + gen.Pick(c.R, []string{"", " ASC", " DESC"})
		}
	case "agg-all":
		base = "SELECT " + gen.Pick(c.R, []string{"COUNT(*) AS c", "SUM(n1) AS c", "COUNT(*) AS c, MAX(n1) AS m"}) + " FROM t1"
		if c.Chance(0.5) {
			base += " ORDER BY c"
		}
	case "group":
		col := gen.Pick(c.R, []string{"s1", "s2", "b1"})
		base = "SELECT " + col + ", COUNT(*) AS c FROM t1 GROUP BY " + col + " ORDER BY " + col + gen.Pick(c.R, []string{"", " DESC"})
	case "union":
		col := gen.Pick(c.R, []string{"s1", "s2"})
		base = "SELECT " + col + " AS v FROM t1 UNION SELECT " + col + " AS v FROM t1"
	case "union-order":
		// ORDER BY of a union sorts the combined rows
		col := gen.Pick(c.R, []string{"s1", "n1"})
		col2 := map[string]string{"s1": "s2", "n1": "n2"}[col]
		sortedBy, sortedDesc = "v", c.Chance(0.5)
		base = "SELECT " + col + " AS v FROM t1 " + gen.Pick(c.R, []string{"UNION ALL", "UNION"}) + " SELECT " + col2 + " AS v FROM t1 ORDER BY v" + map[bool]string{true: " DESC", false: ""}[sortedDesc]
	case "qualified":
		// a key named by its qualified source name, over an aliased table
		col := gen.Pick(c.R, []string{"s1", "n1"})
		sortedBy, sortedDesc = col, c.Chance(0.5)
		base = "SELECT x." + col + ", x.rid FROM t1 x ORDER BY x." + col + map[bool]string{true: " DESC", false: " ASC"}[sortedDesc]
		if c.Chance(0.4) {
			sortedBy = "k"
			base = "SELECT x." + col + " AS k, x.rid FROM t1 x ORDER BY x." + col + map[bool]string{true: " DESC", false: ""}[sortedDesc]
		}
	case "distinct-star":
		// whole rows repeat, not next to each other; the sort keys are some of the columns
		keys := gen.Pick(c.R, []string{"s1", "s2", "b1", "s1, b1", "s2 DESC", "b1 DESC, s1"})
		permOf = "SELECT DISTINCT * FROM t2"
		base = permOf + " ORDER BY " + keys
		sortedBy, sortedDesc = strings.Fields(strings.Split(keys, ",")[0])[0], strings.HasPrefix(keys, "s2 DESC") || strings.HasPrefix(keys, "b1 DESC")
		exact = false
	case "union-star-order":
		keys := gen.Pick(c.R, []string{"s1", "s2", "b1", "s1 DESC"})
		permOf = "SELECT * FROM t2 UNION SELECT * FROM t3"
		base = permOf + " ORDER BY " + keys
		sortedBy, sortedDesc = strings.Fields(keys)[0], strings.HasSuffix(keys, "DESC")
		exact = false
	case "agg-mixed":
		// an aggregate next to plain columns: every row carries the total of all rows
		base = "SELECT rid, s1, " + gen.Pick(c.R, []string{"COUNT(*) AS total", "SUM(n1) AS total", "MAX(n1) AS total"}) + " FROM t1"
		if c.Chance(0.3) {
			base += " WHERE n1 >= " + gen.SQLLit(t.Rows[c.Intn(len(t.Rows))]["n1"], 0)
		}
	case "dual":
		// the one-row source: its window is a window over one row
		base = gen.Pick(c.R, []string{"SELECT 1 AS x, 'y' AS y FROM dual", "SELECT (2 + 3) AS x FROM dual", "SELECT 1 AS x FROM dual WHERE 1 = 1"})
	case "bigint":
		pool := []int64{1 << 53, 1<<53 + 1, 1<<53 + 2, 1<<53 + 3, math.MaxInt64, math.MaxInt64 - 1, math.MaxInt64 - 2, -(1 << 53) - 1, -(1 << 53) - 2, math.MinInt64 + 1, math.MinInt64 + 2, 0, 7}
		unsigned := c.Chance(0.3)
		for _, r := range t.Rows {
			v := gen.Pick(c.R, pool)
			if unsigned {
				if v < 0 {
					v = -(v + 1)
				}
				r["big"] = uint64(v) + uint64(c.Intn(2))*(1<<63)
			} else {
				r["big"] = v
			}
		}
		base = "SELECT rid, big FROM t1 ORDER BY big" + gen.Pick(c.R, []string{"", " ASC", " DESC"})
		exact = false
	}
	c.Feature("shape." + kind)
	u := Run(doc(), base)
	evals := 1
	if !u.OK() {
		c.Violate("error", fmt.Sprintf("un-windowed query failed: %v", u.Describe()), map[string]any{"sql": base, "doc": doc()})
		return
	}
	O := u.Rows
	n := len(O)
	if permOf != "" {
		un := Run(doc(), permOf)
		evals++
		if !un.OK() || !val.SameMultiset(O, un.Rows) {
			c.Violate("not-permutation", fmt.Sprintf("the ordered result (%d rows) is not a permutation of the unordered one (%d rows)", n, len(un.Rows)), map[string]any{"sql": base, "unordered_sql": permOf, "doc": doc(), "observed": val.Show(O), "unordered": un.Describe()})
			return
		}
	}
	if kind == "bigint" {
		desc := strings.HasSuffix(base, "DESC")
		if !val.SameMultiset(Rids(O), Rids(val.Copy(t.Array()).([]any))) {
			c.Violate("not-permutation", "ordered output is not a permutation of the table", map[string]any{"sql": base, "doc": doc(), "observed": val.Show(O)})
			return
		}
		for i := 1; i < n; i++ {
			a, b := val.Deref(O[i-1].(map[string]any)["big"]), val.Deref(O[i].(map[string]any)["big"])
			cmp := c05CmpInt(a, b)
			if desc {
				cmp = -cmp
			}
			if cmp > 0 {
				c.Violate("out-of-order", fmt.Sprintf("native integer keys out of order at positions %d,%d: %v then %v", i-1, i, a, b), map[string]any{"sql": base, "doc": doc(), "observed": val.Show(O)})
				return
			}
		}
		c.Nontrivial(base + "|" + val.Canon(t.Array()))
	}
	if sortedBy != "" {
		for i := 1; i < n; i++ {
			a, b := val.Deref(O[i-1].(map[string]any)[sortedBy]), val.Deref(O[i].(map[string]any)[sortedBy])
			cmp, err := ref.CmpScalar(a, b)
			if err != nil {
				c.Discard("mixed kinds in key")
				return
			}
			if sortedDesc {
				cmp = -cmp
			}
			if cmp > 0 {
				c.Violate("out-of-order", fmt.Sprintf("rows at positions %d,%d violate key %q: %v then %v", i-1, i, sortedBy, a, b), map[string]any{"sql": base, "doc": doc(), "observed": val.Show(O)})
				return
			}
		}
		if n >= 3 {
			c.Nontrivial(base + "|" + val.Canon(t.Array()))
		}
	}
	offs := []int{0, 1, 2, n - 1, n, n + 1, src - 1, src, src + 1, (n + src) / 2}
	lims := []int{0, 1, 2, n, src + 3}
	for _, off := range offs {
		if off < 0 {
			continue
		}
		for _, lim := range lims {
			if lim < 0 {
				continue
			}
			var wsql string
			if c.Chance(0.5) {
				wsql = fmt.Sprintf("%s LIMIT %d OFFSET %d", base, lim, off)
			} else {
				wsql = fmt.Sprintf("%s LIMIT %d, %d", base, off, lim)
			}
			w := Run(doc(), wsql)
			evals++
			det := map[string]any{"sql": wsql, "doc": doc(), "full_sequence": val.Show(O), "limit": lim, "offset": off, "source_rows": src}
			if !w.OK() {
				c.Violate("error", fmt.Sprintf("LIMIT/OFFSET query failed (must never fail): %v", w.Describe()), det)
				c.Evals(evals)
				return
			}
			wantLen := n - off
			if wantLen > lim {
				wantLen = lim
			}
			if wantLen < 0 {
				wantLen = 0
			}
			det["observed"] = val.Show(w.Rows)
			if len(w.Rows) != wantLen {
				c.Violate("window-length", fmt.Sprintf("window has %d rows, expected %d (final len=%d source len=%d limit=%d offset=%d)", len(w.Rows), wantLen, n, src, lim, off), det)
				c.Evals(evals)
				return
			}
			if off > n && off < src {
				c.Feature("shape.shrunk-offset")
			}
			if wantLen == 0 {
				continue
			}
			expect := O[off : off+wantLen]
			if exact {
				if !val.SameSeq(w.Rows, expect) {
					c.Violate("window-content", "window differs from positions m..m+n-1 of the un-windowed sequence", det)
					c.Evals(evals)
					return
				}
			} else {
				keyCol := "big"
				if kind != "bigint" {
					keyCol = sortedBy
				}
				for i := range expect {
					if val.Canon(val.Deref(w.Rows[i].(map[string]any)[keyCol])) != val.Canon(val.Deref(expect[i].(map[string]any)[keyCol])) {
						c.Violate("window-content", fmt.Sprintf("window element %d has a different key than position %d of the full sequence", i, off+i), det)
						c.Evals(evals)
						return
					}
				}
			}
			if wantLen < n {
				c.Nontrivial(wsql + "|" + val.Canon(t.Array()))
			}
		}
	}
	c.Evals(evals)
	c.Sample(map[string]any{"sql": base, "final_rows": n, "source_rows": src})
}

// c05CmpInt orders two native integers (int64 or uint64) by value.
func c05CmpInt(a, b any) int {
	neg := func(v any) (bool, uint64) {
		switch x := v.(type) {
		case int64:
			if x < 0 {
				return true, uint64(-(x + 1))
			}
			return false, uint64(x)
		case uint64:
			return false, x
		case int:
			if x < 0 {
				return true, uint64(-(int64(x) + 1))
			}
			return false, uint64(x)
		}
		return false, 0
	}
	an, am := neg(a)
	bn, bm := neg(b)
	switch {
	case an && !bn:
		return -1
	case !an && bn:
		return 1
	case an: // both negative: larger magnitude-1 is smaller
		switch {
		case am > bm:
			return -1
		case am < bm:
			return 1
		}
		return 0
	}
	switch {
	case am < bm:
		return -1
	case am > bm:
		return 1
	}
	return 0
}

// c05Quote back-ticks an output column name that is not a plain word.
func c05Quote(name string) string {
	for _, ch := range name {
		if !(ch == '_' || ch >= '0' && ch <= '9' || ch >= 'a' && ch <= 'z' || ch >= 'A' && ch <= 'Z') {
			return "`" + name + "`"
		}
	}
	return name
}

// c05Reexec: one Query with a LIMIT/OFFSET window kept and executed several
// times while a variable its WHERE reads changes, so that the filtered sequence
// is first shorter than the window reaches and later longer (and the other way
// round): every execution returns exactly the window of its own sequence.
func c05Reexec(c *fw.Case) {
	t := gen.RandTable(c.R, gen.TableSpec{Name: "t1", MinRows: 3, MaxRows: pick(c.Tier, 14, 40), NumCols: 2, StrCols: 1, StrStyle: gen.Plain})
	n := len(t.Rows)
	lim, off := 1+c.Intn(n), c.Intn(n)
	limSQL := fmt.Sprintf(" LIMIT %d OFFSET %d", lim, off)
	if c.Chance(0.4) {
		limSQL = fmt.Sprintf(" LIMIT %d, %d", off, lim)
	}
	order := gen.Pick(c.R, []string{" ORDER BY rid", " ORDER BY rid DESC", " ORDER BY n2, rid", ""})
	sql := "SELECT rid, n1, n2 FROM t1 WHERE rid >= GETVAR('from')" + order + limSQL
	vars := map[string]any{"from": 0.0}
	doc := DocOf(t)
	q, nerr := newSafe(doc, sql, genql.WithVars(vars))
	if q == nil {
		c.Violate("error", fmt.Sprintf("query could not be constructed: %v", nerr.Describe()), map[string]any{"sql": sql})
		return
	}
	c.Feature("reexec.window")
	// few rows left, many rows left, few again, all
	froms := []float64{float64(n - 1 - c.Intn(2)), 0, float64(n / 2), float64(n - 1), float64(c.Intn(n)), 0}
	for i, from := range froms {
		vars["from"] = from
		got := execBuilt(q)
		fresh := Run(DocOf(t), sql, genql.WithVars(map[string]any{"from": from}))
		c.Evals(2)
		if !fresh.OK() {
			c.Violate("error", fmt.Sprintf("a freshly built query failed: %v", fresh.Describe()), map[string]any{"sql": sql, "from": from})
			return
		}
		// the fresh result itself against the model: rows with rid >= from, in order, cut to the window
		left := n - int(from)
		want := left - off
		if want > lim {
			want = lim
		}
		if want < 0 {
			want = 0
		}
		if len(fresh.Rows) != want {
			c.Violate("window-length", fmt.Sprintf("a fresh query returned %d rows, the window of %d rows at offset %d limit %d has %d", len(fresh.Rows), left, off, lim, want), map[string]any{"sql": sql, "from": from, "doc": doc, "observed": fresh.Describe()})
			return
		}
		if !got.OK() || !(len(got.Rows) == 0 && len(fresh.Rows) == 0) && !val.SameSeq(got.Rows, fresh.Rows) {
			c.Violate("reexec-window", fmt.Sprintf("execution %d of the same Query (from = %v) returned rids %v, a fresh query returns %v", i+1, from, Rids(got.Rows), Rids(fresh.Rows)),
				map[string]any{"sql": sql, "doc": doc, "execution": i + 1, "from": from, "observed": got.Describe(), "fresh_query": fresh.Describe()})
			return
		}
	}
	c.Sample(map[string]any{"sql": sql, "rows": n})
	c.Nontrivial(sql + "|" + val.Canon(t.Array()))
}
