package props

import (
	"errors"
	"fmt"
	"strings"
	"sync/atomic"

	"github.com/vedadiyan/genql"

	"verifharness/internal/fw"
	"verifharness/internal/gen"
	"verifharness/internal/val"
)

// ---------------------------------------------------------------------------
// VFAIL: the fault-injecting user function (registered through the public
// RegisterFunction API, in init, before any goroutine exists). It returns its
// argument (or true without arguments) and fails at its k-th invocation.

const (
	faultNone = iota
	faultError
	faultPanicErr
	faultPanicString
	faultPanicRuntime
)

// all three are atomics: a detached SPIN call may still be running when the
// next case re-arms the plan
var fault struct {
	count  atomic.Int64
	failAt atomic.Int64
	mode   atomic.Int32
	// syncOnly: calls through VBG (background-capable wrapper) neither count
	// nor fail - used where the planned fault must land in a synchronous call
	syncOnly atomic.Bool
}

var errInjected = errors.New("injected fault (VFAIL)")

func vfail(_ *genql.Query, _ genql.Map, _ *genql.FunctionOptions, args []any) (any, error) {
	n := fault.count.Add(1)
	if fault.failAt.Load() == n {
		switch fault.mode.Load() {
		case faultError:
			return nil, errInjected
		case faultPanicErr:
			panic(errInjected)
		case faultPanicString:
			panic("injected string panic (VFAIL)")
		case faultPanicRuntime:
			var m map[string]int
			m["x"] = 1 // runtime error: assignment to entry in nil map
		}
	}
	if len(args) == 0 {
		return true, nil
	}
	return args[0], nil
}

func init() {
	genql.RegisterFunction("vfail", vfail)
}

// armFault resets the invocation counter and plans a fault at invocation k
// (k = 0: never). Must be called while no query is running.
func armFault(k int, mode int32) {
	fault.count.Store(0)
	fault.failAt.Store(int64(k))
	fault.mode.Store(mode)
}

func faultCount() int { return int(fault.count.Load()) }

var faultModeNames = map[int32]string{faultError: "error", faultPanicErr: "panic(error)", faultPanicString: "panic(string)", faultPanicRuntime: "panic(runtime error)"}

// ---------------------------------------------------------------------------
// The rich document and query forms shared by C10, C11, C12, C19.

type richDoc struct {
	doc map[string]any
	t   *gen.Table
	u   *gen.Table
}

func newRichDoc(c *fw.Case) *richDoc {
	t := gen.RandTable(c.R, gen.TableSpec{Name: "t1", MinRows: 0, MaxRows: pick(c.Tier, 7, 14), NumCols: 2, StrCols: 1, BoolCols: 1, NullCols: 1, StrStyle: gen.Plain})
	for _, row := range t.Rows {
		n := c.Intn(4)
		arr := make([]any, n)
		for i := range arr {
			arr[i] = map[string]any{"e": float64(c.Intn(7)), "f": gen.Pick(c.R, []any{"p", "q", "r"})}
		}
		row["arr"] = arr
		row["obj"] = map[string]any{"k": float64(c.Intn(5)), "w": gen.Pick(c.R, []any{"p", "q"})}
		// arrays of scalars with a duplicate that is followed by a different value
		tags := []any{"red", "red", "blue", "green"}
		if c.Chance(0.5) {
			tags = make([]any, c.Intn(5))
			for i := range tags {
				tags[i] = gen.Pick(c.R, []any{"a", "b", 1.0, "a"})
			}
		}
		row["tags"] = tags
		// an array of arrays of objects inside the row
		grid := make([]any, c.Intn(3))
		for i := range grid {
			line := make([]any, c.Intn(5))
			for j := range line {
				line[j] = map[string]any{"e": float64(c.Intn(7)), "f": gen.Pick(c.R, []any{"p", "q"})}
			}
			grid[i] = line
		}
		row["grid"] = grid
		// an object whose flattened member names meet keys that exist already
		row["cfg"] = map[string]any{"db_host": "x", "db": map[string]any{"host": "y", "port": float64(c.Intn(9))}, "a_b": 1.0, "a": map[string]any{"b": 2.0, "c_d": 3.0, "c": map[string]any{"d": 4.0}},
			// two nested sections whose members flatten to one name
			"smtp": map[string]any{"host_name": "m1", "port": 25.0}, "smtp_host": map[string]any{"name": "m2"}, "cache": map[string]any{"ttl_ms": map[string]any{"value": 1.0}}, "cache_ttl": map[string]any{"ms_value": 2.0}}
		row["obj"].(map[string]any)["tags"] = []any{1.0, 1.0, 2.0, 3.0}
		// numbers with NULLs among them, a NULL in front of a value
		row["scores"] = []any{nil, float64(1 + c.Intn(9)), 2.0, nil, float64(c.Intn(5))}[:2+c.Intn(4)]
	}
	u := gen.RandTable(c.R, gen.TableSpec{Name: "u1", MaxRows: 4, NumCols: 1, StrCols: 1, StrStyle: gen.Plain, ColPrefix: "u"})
	for _, row := range u.Rows {
		if c.Chance(0.7) && len(t.Pools["n1"]) > 0 {
			row["un1"] = gen.Pick(c.R, t.Pools["n1"])
		}
	}
	doc := DocOf(t, u)
	mm := make([]any, 1+c.Intn(3))
	for i := range mm {
		inner := make([]any, c.Intn(3))
		for j := range inner {
			inner[j] = map[string]any{"a": float64(c.Intn(9)), "b": gen.Pick(c.R, []any{"x", "y"})}
		}
		mm[i] = inner
	}
	doc["mm"] = mm
	// three array levels
	cube := make([]any, 1+c.Intn(2))
	crid := 0
	for i := range cube {
		plane := make([]any, 1+c.Intn(2))
		for j := range plane {
			line := make([]any, c.Intn(3))
			for k := range line {
				line[k] = map[string]any{"rid": float64(crid), "a": float64(c.Intn(9)), "b": gen.Pick(c.R, []any{"x", "y"})}
				crid++
			}
			plane[j] = line
		}
		cube[i] = plane
	}
	doc["cube"] = cube
	// a table with NULL elements between its rows
	nn := []any{nil}
	for i := 0; i < 1+c.Intn(3); i++ {
		nn = append(nn, map[string]any{"rid": float64(i), "n1": float64(c.Intn(5))})
		if c.Chance(0.6) {
			nn = append(nn, nil)
		}
	}
	nn = append(nn, map[string]any{"rid": 9.0, "n1": 1.0})
	doc["nn"] = nn
	doc["meta"] = map[string]any{"ip": "127.0.0.1", "n": float64(c.Intn(9))}
	return &richDoc{doc: doc, t: t, u: u}
}

func (d *richDoc) fresh() map[string]any { return val.CopyMap(d.doc) }

// richForm is one query shape. vf is the text of the (possibly qualified)
// fault function, e.g. "VFAIL"; p is a predicate text over t1's columns.
type richForm struct {
	name string
	// faultPos is true when the form calls vf at the position its name says.
	faultPos bool
	// multiset: output order may legitimately vary between runs (joins).
	multiset bool
	build    func(c *fw.Case, d *richDoc, vf string) string
}

func richPred(c *fw.Case, d *richDoc, depth int) string {
	pg := &gen.PredGen{R: c.R, T: d.t, Other: d.u, MaxDepth: depth, Disable: map[string]bool{"in.subquery": true}}
	return gen.RenderPred(pg.Gen(), gen.RenderOpts{StrStyle: c.Intn(2)})
}

func numConst(c *fw.Case, d *richDoc) string {
	if p := d.t.Pools["n1"]; len(p) > 0 {
		return gen.SQLLit(gen.Pick(c.R, p), 0)
	}
	return "1"
}

var richForms = []richForm{
	{"where", true, false, func(c *fw.Case, d *richDoc, vf string) string {
		return "SELECT * FROM t1 WHERE " + vf + "(n1) " + gen.Pick(c.R, []string{">", "<", "=", ">=", "!="}) + " " + numConst(c, d) + gen.Pick(c.R, []string{"", " AND " + richPred(c, d, 1), " OR " + richPred(c, d, 1)})
	}},
	{"where.between", true, false, func(c *fw.Case, d *richDoc, vf string) string {
		// the call is a bound (or the tested value) of a range check, over a table read without an alias
		return gen.Pick(c.R, []string{"SELECT rid FROM t1 WHERE n1 BETWEEN " + vf + "(n2) AND 100000", "SELECT rid, s1 FROM t1 WHERE n1 NOT BETWEEN -100000 AND " + vf + "(n2)",
			"SELECT rid FROM t1 WHERE " + vf + "(n1) BETWEEN -100000 AND 100000 AND " + richPred(c, d, 1), "SELECT rid, (n1 BETWEEN " + vf + "(n2) AND 100000) AS inside FROM t1"})
	}},
	{"once", true, false, func(c *fw.Case, d *richDoc, vf string) string {
		// a call made once per query (or per process run of the query): in the select list, in WHERE
		return gen.Pick(c.R, []string{"SELECT rid, ONCE." + vf + "(7) AS o FROM t1", "SELECT rid FROM t1 WHERE ONCE." + vf + "(1) = 1",
			"SELECT rid, ONCE." + vf + "(7) AS o, " + vf + "(n1) AS v FROM t1 WHERE n1 >= " + numConst(c, d)})
	}},
	{"where.bool", true, false, func(c *fw.Case, d *richDoc, vf string) string {
		return "SELECT rid, s1 FROM t1 WHERE " + richPred(c, d, 1) + " AND " + vf + "(b1)"
	}},
	{"select", true, false, func(c *fw.Case, d *richDoc, vf string) string {
		return "SELECT rid, (n1 + n2) AS e, " + vf + "(s1) AS f, " + vf + "(n2) AS g FROM t1" + gen.Pick(c.R, []string{"", " WHERE " + richPred(c, d, 2)})
	}},
	{"fnarg", true, false, func(c *fw.Case, d *richDoc, vf string) string {
		return "SELECT rid, CONCAT(" + vf + "(s1), 'x', n1) AS v, ARRAY(1, " + vf + "(n1)) AS a FROM t1"
	}},
	{"case.branch", true, false, func(c *fw.Case, d *richDoc, vf string) string {
		return "SELECT rid, CASE WHEN n1 > " + numConst(c, d) + " THEN " + vf + "(n1) ELSE " + vf + "(n2) END AS v FROM t1"
	}},
	{"case.cond", true, false, func(c *fw.Case, d *richDoc, vf string) string {
		return "SELECT rid, CASE WHEN " + vf + "(n1) > " + numConst(c, d) + " THEN 'hi' WHEN b1 = true THEN s1 END AS v FROM t1"
	}},
	{"arith", true, false, func(c *fw.Case, d *richDoc, vf string) string {
		return "SELECT rid, (" + vf + "(n1) * 2 + n2) AS v, IF(" + vf + "(b1), 1, 2) AS w FROM t1"
	}},
	{"having", true, false, func(c *fw.Case, d *richDoc, vf string) string {
		return "SELECT s1, COUNT(*) AS c, SUM(n1) AS s FROM t1 GROUP BY s1 HAVING " + vf + "(COUNT(*)) > " + fmt.Sprint(c.Intn(2))
	}},
	{"having.key", true, false, func(c *fw.Case, d *richDoc, vf string) string {
		return "SELECT b1, COUNT(*) AS c FROM t1 WHERE " + richPred(c, d, 1) + " GROUP BY b1 HAVING COUNT(*) >= 0 AND " + vf + "(b1) = " + gen.Pick(c.R, []string{"true", "false"})
	}},
	{"group.select", true, false, func(c *fw.Case, d *richDoc, vf string) string {
		return "SELECT " + vf + "(s1) AS k, COUNT(*) AS c, MAX(n2) AS m FROM t1 GROUP BY s1"
	}},
	{"join.on", true, true, func(c *fw.Case, d *richDoc, vf string) string {
		j := gen.Pick(c.R, []string{"JOIN", "LEFT JOIN", "RIGHT JOIN", "HASH_JOIN", "STRAIGHT_JOIN"})
		return "SELECT * FROM t1 x " + j + " u1 y ON x.n1 = y.un1 AND " + vf + "(true)"
	}},
	{"join.parallel", true, true, func(c *fw.Case, d *richDoc, vf string) string {
		j := gen.Pick(c.R, []string{"PARALLEL JOIN", "PARALLEL LEFT JOIN", "PARALLEL RIGHT JOIN", "PARALLEL STRAIGHT_JOIN", "PARALLEL HASH_JOIN"})
		on := gen.Pick(c.R, []string{"x.n1 >= y.un1", "x.n1 != y.un1", "x.n1 = y.un1 OR x.s1 = y.us1", "x.n1 = y.un1"})
		return "SELECT * FROM t1 x " + j + " u1 y ON " + on + " AND " + vf + "(true)"
	}},
	{"join.nonequi", true, true, func(c *fw.Case, d *richDoc, vf string) string {
		j := gen.Pick(c.R, []string{"JOIN", "LEFT JOIN", "RIGHT JOIN"})
		return "SELECT * FROM t1 x " + j + " u1 y ON x.n1 <= y.un1 AND " + vf + "(true)"
	}},
	{"join.where", true, true, func(c *fw.Case, d *richDoc, vf string) string {
		return "SELECT x.rid, y.un1 FROM t1 x JOIN u1 y ON x.n1 >= y.un1 WHERE " + vf + "(true)"
	}},
	{"cte", true, false, func(c *fw.Case, d *richDoc, vf string) string {
		return "WITH c1 AS (SELECT rid, " + vf + "(n1) AS v FROM t1" + gen.Pick(c.R, []string{"", " WHERE " + richPred(c, d, 1)}) + ") SELECT rid, v FROM c1 WHERE v >= " + numConst(c, d)
	}},
	{"cte.chain", true, false, func(c *fw.Case, d *richDoc, vf string) string {
		return "WITH c1 AS (SELECT rid, n1, s1 FROM t1), c2 AS (SELECT rid, " + vf + "(n1) AS v FROM c1 WHERE " + vf + "(n1) > " + numConst(c, d) + ") SELECT * FROM c2"
	}},
	{"cte.shadow", true, false, func(c *fw.Case, d *richDoc, vf string) string {
		// a CTE named like a table that already exists in the document
		return "WITH u1 AS (SELECT rid, " + vf + "(n1) AS n1 FROM t1 WHERE n1 >= " + numConst(c, d) + ") SELECT rid, n1 FROM u1" + gen.Pick(c.R, []string{"", " UNION ALL SELECT rid, n1 FROM u1", " WHERE n1 IN (SELECT n1 FROM `<-u1`)"})
	}},
	{"cte.exec-time", true, false, func(c *fw.Case, d *richDoc, vf string) string {
		// a CTE nobody reads while the query is built: its body runs when the
		// first row asks for it, at execution time
		return "WITH c1 AS (SELECT rid, " + vf + "(n1) AS v FROM t1) SELECT rid FROM t1 WHERE rid IN (SELECT rid FROM `<-c1`)" + gen.Pick(c.R, []string{"", " AND n1 IN (SELECT v FROM `<-c1`)", " OR rid < 0"})
	}},
	{"cte.union", true, false, func(c *fw.Case, d *richDoc, vf string) string {
		return "WITH c1 AS (SELECT rid, " + vf + "(n1) AS v FROM t1) SELECT v FROM c1 " + gen.Pick(c.R, []string{"UNION", "UNION ALL"}) + " SELECT v FROM c1 WHERE v > " + numConst(c, d)
	}},
	{"cte.union3", true, false, func(c *fw.Case, d *richDoc, vf string) string {
		return "WITH c1 AS (SELECT n1 FROM t1), c2 AS (SELECT " + vf + "(un1) AS un1 FROM u1) SELECT n1 AS v FROM c1 UNION SELECT un1 AS v FROM c2 UNION ALL SELECT n1 AS v FROM c1"
	}},
	{"derived.join", true, true, func(c *fw.Case, d *richDoc, vf string) string {
		return "SELECT * FROM (WITH a AS (SELECT rid, " + vf + "(n1) AS n1 FROM t1) SELECT * FROM a) x " + gen.Pick(c.R, []string{"JOIN", "LEFT JOIN"}) + " (WITH b AS (SELECT un1 FROM u1) SELECT * FROM b) y ON x.n1 = y.un1"
	}},
	{"derived", true, false, func(c *fw.Case, d *richDoc, vf string) string {
		return "SELECT q.v, q.rid FROM (SELECT rid, " + vf + "(n1) AS v FROM t1) q WHERE q.v > " + numConst(c, d)
	}},
	{"subq.select", true, false, func(c *fw.Case, d *richDoc, vf string) string {
		return "SELECT rid, (SELECT " + vf + "(e) AS v, f FROM arr WHERE e > " + fmt.Sprint(c.Intn(5)) + ") AS sub FROM t1"
	}},
	{"subq.root", true, false, func(c *fw.Case, d *richDoc, vf string) string {
		return "SELECT rid, (SELECT " + vf + "(un1) AS v FROM `<-u1`) AS sub FROM t1 WHERE n1 IN (SELECT un1 FROM `<-u1`)"
	}},
	{"subq.in", true, false, func(c *fw.Case, d *richDoc, vf string) string {
		return "SELECT rid FROM t1 WHERE n1 IN (SELECT " + vf + "(e) AS e FROM arr)"
	}},
	{"subq.exists", true, false, func(c *fw.Case, d *richDoc, vf string) string {
		return "SELECT rid, s1 FROM t1 WHERE EXISTS (SELECT e FROM arr WHERE " + vf + "(e) > " + fmt.Sprint(c.Intn(5)) + gen.Pick(c.R, []string{"", " AND e >= n1"}) + ")"
	}},
	{"subq.exists.star", true, false, func(c *fw.Case, d *richDoc, vf string) string {
		// the select list of an EXISTS subquery does not matter: *, a literal, a column
		sel := gen.Pick(c.R, []string{"*", "*", "1", "e, f"})
		return "SELECT rid FROM t1 WHERE " + gen.Pick(c.R, []string{"", "NOT "}) + "EXISTS (SELECT " + sel + " FROM arr WHERE " + vf + "(e) >= 0" + gen.Pick(c.R, []string{"", " AND e >= 0", " OR f = 'zz'"}) + ")"
	}},
	{"union.left", true, false, func(c *fw.Case, d *richDoc, vf string) string {
		return "SELECT " + vf + "(n1) AS v FROM t1 " + gen.Pick(c.R, []string{"UNION", "UNION ALL"}) + " SELECT un1 AS v FROM u1"
	}},
	{"union.right", true, false, func(c *fw.Case, d *richDoc, vf string) string {
		return "SELECT un1 AS v FROM u1 " + gen.Pick(c.R, []string{"UNION", "UNION ALL"}) + " SELECT " + vf + "(n1) AS v FROM t1 WHERE " + richPred(c, d, 1)
	}},
	{"distinct", true, false, func(c *fw.Case, d *richDoc, vf string) string {
		return "SELECT DISTINCT " + vf + "(s1) AS s, b1 FROM t1"
	}},
	{"order", true, false, func(c *fw.Case, d *richDoc, vf string) string {
		return "SELECT rid, " + vf + "(n1) AS k FROM t1 ORDER BY k " + gen.Pick(c.R, []string{"ASC", "DESC"}) + ", rid LIMIT " + fmt.Sprint(1+c.Intn(5)) + " OFFSET " + fmt.Sprint(c.Intn(3))
	}},
	{"multidim", true, false, func(c *fw.Case, d *richDoc, vf string) string {
		return "SELECT " + vf + "(a) AS a, b FROM mm WHERE a > " + fmt.Sprint(c.Intn(6))
	}},
	{"whole.agg", true, false, func(c *fw.Case, d *richDoc, vf string) string {
		return "SELECT COUNT(*) AS c, SUM(n1) AS s, MIN(n2) AS m FROM t1 WHERE " + vf + "(n1) >= " + numConst(c, d)
	}},
	// forms without a fault position (C11 / C12 / C10 only)
	{"plain.star-subq", false, false, func(c *fw.Case, d *richDoc, vf string) string {
		return "SELECT *, (SELECT ip FROM `<-meta`) AS m FROM t1 WHERE " + richPred(c, d, 2)
	}},
	{"plain.fuse", false, false, func(c *fw.Case, d *richDoc, vf string) string {
		return "SELECT rid, FUSE(obj) FROM t1"
	}},
	{"plain.fuse-alias", false, false, func(c *fw.Case, d *richDoc, vf string) string {
		return "SELECT rid, FUSE(obj) AS o FROM t1"
	}},
	{"plain.funcs", false, false, func(c *fw.Case, d *richDoc, vf string) string {
		return "SELECT rid, FIRST(arr) AS f, LAST(arr) AS l, UNWIND(ARRAY(arr, arr)) AS u, IF(b1, n1, s1) AS i, CHANGETYPE(n1, 'string') AS ct, TO_UPPER(s1) AS up, HASH(s1, 'md5') AS h FROM t1"
	}},
	{"plain.nested-path", false, false, func(c *fw.Case, d *richDoc, vf string) string {
		return "SELECT rid, `obj.k` AS k, `arr[each].e` AS es, `arr{e|string}` AS shaped FROM t1"
	}},
	{"plain.cmp-values", false, false, func(c *fw.Case, d *richDoc, vf string) string {
		return "SELECT rid, (n1 > n2) AS gt, (s1 IN ('a', 'b')) AS isin, (n1 BETWEEN 0 AND 3) AS bt, !(b1 = true) AS nb, -(n1) AS neg, ~(rid) AS tilde, (rid DIV 2) AS d FROM t1"
	}},
	{"plain.join-parallel", false, true, func(c *fw.Case, d *richDoc, vf string) string {
		j := gen.Pick(c.R, []string{"PARALLEL JOIN", "PARALLEL LEFT JOIN", "PARALLEL HASH_JOIN", "PARALLEL RIGHT HASH_JOIN", "PARALLEL STRAIGHT_JOIN"})
		return "SELECT * FROM t1 x " + j + " u1 y ON x.n1 = y.un1"
	}},
	{"plain.join-select", false, true, func(c *fw.Case, d *richDoc, vf string) string {
		return "SELECT x.rid, x.s1, y.us1, (x.n1 + y.un1) AS s FROM t1 x LEFT JOIN u1 y ON x.n1 = y.un1 WHERE x.n1 >= 0"
	}},
	{"plain.table-qualified-items", false, false, func(c *fw.Case, d *richDoc, vf string) string {
		// columns spelled with the table's own name outside comparisons: as
		// select items, as function arguments, in arithmetic
		return "SELECT t1.rid, t1.n1 + 1 AS v, CONCAT(t1.s1, '!') AS w, t1.obj FROM t1" + gen.Pick(c.R, []string{"", " WHERE t1.n1 >= " + numConst(c, d), " ORDER BY rid DESC"})
	}},
	{"plain.not-whole-rows", false, false, func(c *fw.Case, d *richDoc, vf string) string {
		// NOT over an un-aliased table, whole rows in the same result
		return gen.Pick(c.R, []string{"SELECT s1, *, COUNT(*) AS c FROM t1 WHERE NOT (n1 > " + numConst(c, d) + ") GROUP BY s1", "SELECT * FROM t1 WHERE NOT (n1 >= " + numConst(c, d) + " AND s1 = 'zz')", "SELECT s1, * FROM t1 WHERE NOT b1 = true GROUP BY s1"})
	}},
	{"plain.scoped-aggregate", false, false, func(c *fw.Case, d *richDoc, vf string) string {
		// aggregates called with an execution strategy over an array of the row itself
		return gen.Pick(c.R, []string{"SELECT rid, SCOPED.AVG(scores) AS a, SCOPED.SUM(scores) AS s FROM t1", "SELECT rid, SCOPED.MIN(scores) AS lo, SCOPED.MAX(scores) AS hi, scores FROM t1", "SELECT rid, SCOPED.SUM(scores) AS s FROM t1 WHERE SCOPED.MAX(scores) >= 0"})
	}},
	{"plain.call-over-range", false, false, func(c *fw.Case, d *richDoc, vf string) string {
		// calls that build on a part of a document array picked by a range: the part shares the array's memory
		return gen.Pick(c.R, []string{"SELECT rid, CONCAT(`scores[(0:1)]`, s1, 'x') AS c FROM t1", "SELECT rid, ARRAY(`scores[(0:1)]`, n1) AS a, UNWIND(ARRAY(`scores[(0:1)]`, ARRAY(n1, 7))) AS u FROM t1",
			"SELECT rid, CONCAT(`scores[(0:1)]`, 'new', 'hot') AS c, CHANGETYPE(`scores[(0:1)]`, 'array') AS k, FUSE(obj) FROM t1", "SELECT rid, CONCAT(`arr[(0:0)]`, obj, tags) AS c FROM t1"})
	}},
	{"plain.dual-alias-subquery", false, false, func(c *fw.Case, d *richDoc, vf string) string {
		// a row-scoped subquery over dual under an alias: the row is the scope itself
		return gen.Pick(c.R, []string{"SELECT (SELECT COUNT(*) AS n FROM t1) AS c, d.meta FROM dual d", "SELECT (SELECT rid FROM t1 WHERE n1 >= 0) AS ids FROM dual x", "SELECT d.meta, (SELECT ip FROM `<-meta`) AS m FROM dual d WHERE EXISTS (SELECT rid FROM t1)"})
	}},
	{"plain.group-star", false, false, func(c *fw.Case, d *richDoc, vf string) string {
		return "SELECT s1, *, COUNT(*) AS c, AVG(n1) AS a FROM t1 GROUP BY s1 ORDER BY c DESC, s1"
	}},
	{"plain.cte-selector", false, false, func(c *fw.Case, d *richDoc, vf string) string {
		return "WITH c1 AS (SELECT rid, arr, obj FROM t1) SELECT e, f FROM `mix=>c1.arr` WHERE e > 1"
	}},
	{"plain.cte-twice", false, true, func(c *fw.Case, d *richDoc, vf string) string {
		return "WITH c1 AS (SELECT rid, n1 FROM t1) SELECT * FROM c1 x JOIN c1 y ON x.n1 = y.n1 WHERE x.rid <= y.rid"
	}},
	{"plain.dual", false, false, func(c *fw.Case, d *richDoc, vf string) string {
		return "SELECT 1 AS one, 'two' AS two, NULL AS nothing, (1 + 2) AS three, ARRAY(1, ARRAY(2)) AS arr, (SELECT COUNT(*) AS n FROM `<-t1`) AS cnt FROM dual"
	}},
	{"plain.union3", false, false, func(c *fw.Case, d *richDoc, vf string) string {
		return "SELECT n1 AS v FROM t1 UNION SELECT un1 AS v FROM u1 UNION ALL SELECT n2 AS v FROM t1 LIMIT 7"
	}},
	{"plain.derived-agg", false, false, func(c *fw.Case, d *richDoc, vf string) string {
		return "SELECT q.s1, q.c FROM (SELECT s1, COUNT(*) AS c FROM t1 GROUP BY s1) q WHERE q.c >= 1"
	}},
	{"plain.exists-not", false, false, func(c *fw.Case, d *richDoc, vf string) string {
		return "SELECT * FROM t1 WHERE NOT EXISTS (SELECT e FROM arr WHERE e > n1) AND " + richPred(c, d, 1)
	}},
	{"plain.distinct-subq-star", false, false, func(c *fw.Case, d *richDoc, vf string) string {
		return "SELECT DISTINCT (SELECT e FROM arr) AS es, * FROM t1"
	}},
	{"plain.wrapped-path", false, false, func(c *fw.Case, d *richDoc, vf string) string {
		return "SELECT k, w FROM `t1.obj` WHERE k >= 1"
	}},
	{"plain.topfn", false, false, func(c *fw.Case, d *richDoc, vf string) string {
		// top-level selector functions over arrays that live in the document
		return gen.Pick(c.R, []string{"SELECT rid, `distinct=>tags` AS t FROM t1", "SELECT rid FROM t1 WHERE `distinct=>tags` IS NOT NULL", "SELECT rid, `distinct=>tags[(0:3)]` AS t FROM t1",
			"SELECT rid, `mix=>arr` AS m, `distinct=>tags` AS t FROM t1", "SELECT rid, FIRST(`distinct=>tags`) AS f, LAST(`distinct=>tags`) AS l FROM t1", "SELECT rid, `distinct=>obj.tags` AS t FROM t1"})
	}},
	{"plain.fuse-first", false, false, func(c *fw.Case, d *richDoc, vf string) string {
		// FUSE of a document object in first position, followed by further columns
		return gen.Pick(c.R, []string{"SELECT FUSE(obj), rid FROM t1", "SELECT FUSE(obj), * FROM t1", "SELECT FUSE(obj), n1 AS k, s1 FROM t1 WHERE n1 >= 0", "SELECT FUSE(`<-meta`), rid FROM t1", "SELECT FUSE(obj), (SELECT e FROM arr) AS es FROM t1"})
	}},
	{"plain.exists-grid", false, false, func(c *fw.Case, d *richDoc, vf string) string {
		// EXISTS / IN / a select-list subquery over an array of arrays (row-scoped or of the document)
		return gen.Pick(c.R, []string{"SELECT rid FROM t1 WHERE EXISTS (SELECT e FROM grid WHERE e > 2)", "SELECT rid FROM t1 WHERE NOT EXISTS (SELECT * FROM grid WHERE e >= n1)",
			"SELECT rid FROM t1 WHERE EXISTS (SELECT a FROM `<-mm` WHERE a > 3)", "SELECT rid, (SELECT e FROM grid) AS g FROM t1", "SELECT rid FROM t1 WHERE n1 IN (SELECT e FROM grid)",
			"SELECT rid FROM t1 WHERE EXISTS (SELECT e FROM `mix=>grid` WHERE e > 2)"})
	}},
	{"plain.dim-range", false, false, func(c *fw.Case, d *richDoc, vf string) string {
		// a range in a later dimension of a multi-dimensional selector, as a column and as the FROM table
		return gen.Pick(c.R, []string{"SELECT rid, `grid[each, (0:1)]` AS g FROM t1", "SELECT rid, `grid[each, (1:2)]` AS g, `grid[(0:1), each]` AS h FROM t1", "SELECT * FROM `mm[each, (0:1)]`",
			"SELECT a FROM `cube[each, each, (0:1)]`", "SELECT rid, `grid[(0:1)]` AS g, `arr[(0:1)]` AS a FROM t1", "SELECT rid, `grid[each, (0:end)]` AS g FROM t1 WHERE n1 >= 0"})
	}},
	{"plain.fuse-array", false, false, func(c *fw.Case, d *richDoc, vf string) string {
		// FUSE over a column that holds an array of objects
		return gen.Pick(c.R, []string{"SELECT rid, FUSE(arr) FROM t1", "SELECT FUSE(arr), rid FROM t1", "SELECT rid, FUSE(arr) AS a FROM t1", "SELECT rid, FUSE((SELECT e, f FROM arr)) FROM t1", "SELECT rid, FUSE(`grid[0]`) FROM t1"})
	}},
	{"plain.fuse-async", false, false, func(c *fw.Case, d *richDoc, vf string) string {
		// the "enrich the row" idiom: a fused object one of whose columns is a background call
		return gen.Pick(c.R, []string{"SELECT rid, FUSE((SELECT ASYNC.VBG(s1) AS g, s1 AS town FROM dual)) FROM t1", "SELECT rid, FUSE((SELECT ASYNC.VBG(s1) AS g FROM dual)) AS place FROM t1",
			"SELECT FUSE((SELECT ASYNC.VBG(n1) AS g, n2 AS h FROM dual)), rid FROM t1 WHERE n1 >= 0", "SELECT rid, FUSE((SELECT SPINASYNC.VBG(s1) AS g FROM dual)) FROM t1"})
	}},
	{"plain.null-rows", false, true, func(c *fw.Case, d *richDoc, vf string) string {
		// a source array with NULL elements, read with and without an alias and as a join operand
		return gen.Pick(c.R, []string{"SELECT * FROM nn x", "SELECT * FROM nn", "SELECT x.rid FROM nn x WHERE x.n1 >= 0", "SELECT * FROM nn x JOIN u1 y ON x.n1 = y.un1", "SELECT * FROM t1 x LEFT JOIN nn y ON x.rid = y.rid", "SELECT q.rid FROM (SELECT * FROM nn) q"})
	}},
	{"plain.join-unaliased", false, true, func(c *fw.Case, d *richDoc, vf string) string {
		// outer joins whose preserved side is read straight from the document, without an alias
		return gen.Pick(c.R, []string{"SELECT * FROM t1 LEFT JOIN u1 y ON n1 = y.un1", "SELECT * FROM t1 x RIGHT JOIN u1 ON x.n1 = un1", "SELECT * FROM t1 LEFT JOIN u1 y ON n1 >= y.un1",
			"SELECT * FROM t1 x RIGHT JOIN u1 ON x.n1 < un1", "SELECT * FROM t1 LEFT JOIN u1 y ON n1 = y.un1 AND y.us1 = 'zz'", "SELECT * FROM u1 LEFT JOIN t1 x ON un1 = x.n1"})
	}},
}

func richFormByName(name string) *richForm {
	for i := range richForms {
		if richForms[i].name == name {
			return &richForms[i]
		}
	}
	return nil
}

func richFaultForms() []*richForm {
	var out []*richForm
	for i := range richForms {
		if richForms[i].faultPos {
			out = append(out, &richForms[i])
		}
	}
	return out
}

func richFormNames(onlyFault bool) []string {
	var out []string
	for _, f := range richForms {
		if !onlyFault || f.faultPos {
			out = append(out, f.name)
		}
	}
	return out
}

// typeErrorQueries: a type error placed in every clause position (C19).
var typeErrorQueries = []struct{ name, sql string }{
	{"where.arith", "SELECT rid FROM t1 WHERE 'x' + 1 > 2"},
	{"where.not", "SELECT rid FROM t1 WHERE NOT 5"},
	{"where.istrue", "SELECT rid FROM t1 WHERE n1 IS TRUE"},
	{"where.and", "SELECT rid FROM t1 WHERE n1 > 0 AND 5"},
	{"select.arith", "SELECT rid, ('x' + 1) AS v FROM t1"},
	{"select.case", "SELECT rid, CASE WHEN 1 THEN 2 END AS v FROM t1"},
	{"select.unary", "SELECT rid, -(s1) AS v FROM t1"},
	{"select.fn", "SELECT rid, TO_UPPER(n1) AS v FROM t1"},
	{"select.unknown-fn", "SELECT rid, NOSUCHFN(n1) AS v FROM t1"},
	{"having", "SELECT s1, COUNT(*) AS c FROM t1 GROUP BY s1 HAVING 'x' + 1 > 2"},
	{"join.on", "SELECT * FROM t1 x JOIN u1 y ON x.n1 = y.un1 AND 5"},
	{"cte", "WITH c1 AS (SELECT rid, ('x' + 1) AS v FROM t1) SELECT * FROM c1"},
	{"derived", "SELECT q.v FROM (SELECT ('x' + 1) AS v FROM t1) q"},
	{"subq.select", "SELECT rid, (SELECT ('x' + 1) AS v FROM arr) AS sub FROM t1"},
	{"subq.in", "SELECT rid FROM t1 WHERE n1 IN (SELECT ('x' + 1) AS e FROM arr)"},
	{"subq.exists", "SELECT rid FROM t1 WHERE EXISTS (SELECT e FROM arr WHERE 'x' + 1 > 2)"},
	{"union.left", "SELECT ('x' + 1) AS v FROM t1 UNION ALL SELECT un1 AS v FROM u1"},
	{"union.right", "SELECT un1 AS v FROM u1 UNION ALL SELECT ('x' + 1) AS v FROM t1"},
	{"subq.exists.star", "SELECT rid FROM t1 WHERE EXISTS (SELECT * FROM arr WHERE 'x' + 1 > 2)"},
	{"subq.notexists.star", "SELECT rid FROM t1 WHERE NOT EXISTS (SELECT * FROM arr WHERE NOT 5)"},
	// a GROUP BY item that cannot be grouped by is an error, not a query that silently runs ungrouped
	{"group.expr", "SELECT COUNT(*) AS c FROM t1 GROUP BY TO_LOWER(s1)"},
	{"group.expr.second", "SELECT s1, COUNT(*) AS c FROM t1 GROUP BY s1, (n1 + 1)"},
	{"group.expr.raise", "SELECT s1, COUNT(*) AS c FROM t1 GROUP BY RAISE('boom'), s1"},
	{"raise", "SELECT rid, RAISE('always') FROM t1"},
	// a guard whose condition is not a boolean is a type error, not a guard that does not fire
	{"raise_when.cond-string", "SELECT rid, RAISE_WHEN('yes', 'x') FROM t1"},
	{"raise_when.cond-number", "SELECT rid, RAISE_WHEN(n1, 'x') FROM t1"},
	{"raise_when.cond-object", "SELECT rid, RAISE_WHEN(obj, 'x') FROM t1"},
	{"report_when.cond-string", "SELECT rid, REPORT_WHEN('yes', 'x') FROM t1"},
	{"raise_when.cond-string.derived", "SELECT q.rid FROM (SELECT rid, RAISE_WHEN(s1, 'x') FROM t1) q"},
	{"raise_when.cond-number.cte", "WITH c1 AS (SELECT rid, RAISE_WHEN(1, 'x') FROM t1) SELECT * FROM c1"},
	{"raise_when.cond-string.union", "SELECT rid FROM t1 UNION ALL SELECT rid, RAISE_WHEN('no', 'x') FROM t1"},
	// "badrow.": the document gets one row whose `obj` is a string, so that a
	// path through it raises a reader error on that row only
	{"badrow.order", "SELECT rid, obj FROM t1 ORDER BY `obj.k`"},
	{"badrow.order.desc", "SELECT rid, obj, n1 FROM t1 ORDER BY `obj.k` DESC, rid"},
	{"badrow.order.derived", "SELECT q.rid FROM (SELECT rid, obj FROM t1 ORDER BY `obj.k`) q"},
	{"badrow.order.cte", "WITH c1 AS (SELECT rid, obj FROM t1 ORDER BY `obj.k` DESC) SELECT rid FROM c1"},
	{"badrow.order.union", "SELECT a.rid FROM (SELECT rid, obj FROM t1 ORDER BY `obj.k`) a UNION ALL SELECT rid FROM t1"},
	{"badrow.join.key2", "SELECT x.rid FROM t1 x JOIN t1 y ON x.rid = y.rid AND x.`obj.k` = y.`obj.k`"},
	{"badrow.join.key2-left", "SELECT x.rid FROM t1 x LEFT JOIN t1 y ON x.n1 = y.n1 AND x.rid = y.rid AND x.`obj.k` = y.`obj.k`"},
	{"badrow.where.path", "SELECT rid FROM t1 WHERE `obj.k` >= 0"},
	// ... the same through the table's alias: what the path cannot read is not re-read some other way
	{"badrow.alias.select", "SELECT x.rid, x.obj.k AS k FROM t1 x"},
	{"badrow.alias.where", "SELECT x.rid FROM t1 x WHERE x.obj.k >= 0"},
	{"badrow.alias.derived", "SELECT q.rid, q.obj.k AS k FROM (SELECT rid, obj FROM t1) q"},
	{"badrow.alias.case", "SELECT x.rid, CASE WHEN x.obj.k >= 0 THEN 'p' ELSE 'n' END AS sign FROM t1 x"},
	{"alias.index-oob", "SELECT x.rid, `x.arr[99]` AS e FROM t1 x"},
	// a column that is no boolean as a condition: a type error, never "false"
	{"case.cond-string", "SELECT rid, CASE WHEN s1 THEN 1 ELSE 0 END AS v FROM t1"},
	{"case.cond-number.where", "SELECT rid FROM t1 WHERE CASE WHEN n1 THEN true ELSE false END"},
	{"badrow.case.cond-object", "SELECT rid, CASE WHEN obj THEN 'y' ELSE 'n' END AS v FROM t1"},
	{"case.cond-string.cte", "WITH c1 AS (SELECT rid, CASE WHEN x.s1 THEN 1 ELSE 0 END AS v FROM t1 x) SELECT * FROM c1"},
	// a panic inside the ON of a PARALLEL join (the third row's z1 is NULL): an error, and the join returns
	{"parpanic.join-on", "SELECT x.rid, y.un1 FROM t1 x PARALLEL JOIN u1 y ON x.n1 >= y.un1 AND VPANICNULL(x.z1)"},
	{"parpanic.join-on.left", "SELECT x.rid, y.un1 FROM t1 x PARALLEL LEFT JOIN u1 y ON x.rid >= 0 AND IF(VPANICNULL(x.z1), TRUE, FALSE)"},
	// the subquery of an aliased dual row
	{"cte", "WITH c1 AS (SELECT rid, ('x' + 1) AS v FROM t1) SELECT (SELECT COUNT(*) AS n FROM c1) AS c FROM dual d"},
	{"selector.from", "SELECT * FROM `t1[last]`"},
	{"selector.range", "SELECT * FROM `t1[(1:x)]` WHERE n1 >= 0"},
	{"selector.column", "SELECT rid, `arr[abc].e` AS v FROM t1"},
	{"selector.continued", "SELECT rid, `arr[each].e::[oops]` AS v FROM t1"},
}

// followUps: the battery run after a failed query on the same input object.
// joinFollowUps are answered by the hash join: they run after a failed join
var joinFollowUps = []string{
	"SELECT x.rid, y.rid AS r2 FROM t1 x JOIN t1 y ON x.rid = y.rid",
	"SELECT * FROM t1 x LEFT JOIN u1 y ON x.n1 = y.un1",
	"SELECT x.rid, y.rid AS r2 FROM t1 x LEFT JOIN t1 y ON x.rid = y.rid AND x.n1 = y.n1",
}

var followUps = []string{
	"SELECT rid, s1 FROM t1 WHERE n1 >= 0",
	// whole rows shown under a name: every key a row carries comes out
	"SELECT * FROM t1 u",
	"SELECT u AS whole FROM t1 u WHERE u.rid >= 0",
	"SELECT DISTINCT * FROM t1",
	"SELECT rid, (SELECT e FROM arr) AS sub FROM t1 WHERE EXISTS (SELECT e FROM arr WHERE e >= 0)",
	"SELECT s1, COUNT(*) AS c, SUM(n1) AS s FROM t1 GROUP BY s1",
	"SELECT * FROM t1 x LEFT JOIN u1 y ON x.n1 = y.un1",
}

func describeRun(o Outcome) string { return short(fmt.Sprint(o.Describe()), 300) }

func hasPrefixAny(s string, ps ...string) bool {
	for _, p := range ps {
		if strings.HasPrefix(s, p) {
			return true
		}
	}
	return false
}
