package props

import (
	"fmt"
	"strconv"
	"sort"
	"strings"

	"verifharness/internal/fw"
	"verifharness/internal/gen"
	"verifharness/internal/ref"
	"verifharness/internal/val"
)

var (
	c04Inner = []string{"JOIN", "INNER JOIN", "HASH_JOIN", "STRAIGHT_JOIN", "PARALLEL JOIN", "PARALLEL INNER JOIN", "PARALLEL HASH_JOIN", "PARALLEL STRAIGHT_JOIN"}
	c04Left  = []string{"LEFT JOIN", "LEFT HASH_JOIN", "PARALLEL LEFT JOIN", "PARALLEL LEFT HASH_JOIN"}
	c04Right = []string{"RIGHT JOIN", "RIGHT HASH_JOIN", "PARALLEL RIGHT JOIN", "PARALLEL RIGHT HASH_JOIN"}
	c04Floor = []string{"type.inner", "type.left", "type.right", "on.equi", "on.nonequi", "on.or", "on.multi", "on.flipped", "keys.str", "keys.num", "dupkeys",
		"left.empty", "right.empty", "unmatched.left", "unmatched.right", "meta.permute", "meta.flip", "keys.mixed-kind", "alias.prefix", "keys.nested-path", "keys.many", "keys.native", "operands.swapped", "on.between", "on.not", "keys.nonword", "keys.huge"}
)

func init() {
	for _, s := range append(append(append([]string{}, c04Inner...), c04Left...), c04Right...) {
		c04Floor = append(c04Floor, "strategy."+s)
	}
	fw.Register(&fw.Prop{
		ID:    "C04",
		Title: "Joins return the textbook multiset for every join type and strategy",
		Level: "exploration",
		Rule: "whole-number keys from 2^63 on. 66..125 distinct keys in a share of the cases; natively typed key columns; key columns whose names are not plain words; BETWEEN over columns and NOT in ON; the same ON text once more with the operands swapped. alias names include pairs in which one is a prefix of the other. key columns are of one kind or of mixed kinds (numbers on one side, their decimal texts of different lengths on the other; reference: a number against a string is ordered by the number's decimal text). each case = two random tables (0..10 rows quick / 0..30 thorough; key columns named a,z,k vs m,b,j so that the two sides sort differently; duplicate keys; number and string keys incl. '-' and digits) x an ON tree (depth <= 3) of = != < <= > >= " +
			"comparisons between columns of the two aliases joined by AND/OR, in random orientation x a join type; the query `SELECT * FROM l x <J> r y ON ...` is executed under EVERY strategy spelling of that type " +
			"(inner: JOIN, INNER JOIN, HASH_JOIN, STRAIGHT_JOIN and their PARALLEL forms; left/right: JOIN, HASH_JOIN and PARALLEL forms) and each result is compared as a multiset with a nested-loop reference; " +
			"additionally ON is re-spelled (conjuncts permuted, each comparison flipped) and must give the same multiset. Phase 'par' repeats PARALLEL variants in a -race child with hook-injected yields inside the join goroutines and also records the distinct output orders seen (an observable of the schedule). " +
			"Non-trivial = at least one matched pair and (for outer joins) at least one unmatched row, or >= 2 matched pairs for inner joins; distinct = distinct (tables, ON, type).",
		Assumptions: []string{
			"per comparison both columns hold non-NULL values of one scalar kind; ON compares a column of one alias with a column of the other",
			"an explicitly requested HASH_JOIN/STRAIGHT_JOIN with a non-equality ON is in scope (the property says the answer does not depend on the strategy requested)",
			"STRAIGHT_JOIN is exercised as an inner join only (the engine documents it so)",
		},
		Floor:         c04Floor,
		MinNontrivial: 30,
		Phases: []fw.Phase{
			{Name: "diff", N: func(t fw.Tier) int { return pick(t, 4000, 80000) }, Run: func(c *fw.Case) { c04Diff(c, false) }},
			{Name: "par", Race: true, N: func(t fw.Tier) int { return pick(t, 300, 4000) }, Run: func(c *fw.Case) { c04Diff(c, true) }},
		},
		Witness: sqlWitness,
	})
}

type c04Case struct {
	l, r   *gen.Table
	on     gen.Pred
	jtype  string // inner left right
	feats  []string
	hasOr  bool
	nonEqu bool
}

func c04Tables(c *fw.Case, forceEmpty string, mixed bool, many ...bool) (*gen.Table, *gen.Table) {
	maxRows := pick(c.Tier, 10, 30)
	nums := []any{1.0, 2.0, 3.0, 1.5, -1.0, 10.0}
	if mixed {
		nums = []any{9.0, 10.0, 3.0, 25.0, 1.5, -1.0, 100.0}
	}
	nums = nums[:2+c.Intn(len(nums)-1)]
	if !mixed && (len(many) == 0 || !many[0]) && c.Chance(0.06) {
		// whole numbers from 2^63 on (unsigned 64-bit ids as JSON decodes them): different keys
		nums = []any{9223372036854775808.0, 9223372036854777856.0, 18446744073709551616.0, 1e19, 1e20, 12345678901234567890.0}[:2+c.Intn(5)]
		c.Feature("keys.huge")
	}
	minRows := 0
	if len(many) > 0 && many[0] {
		// many distinct keys: more key groups than any batch or worker count
		nums = nil
		for i, k := 0, 66+c.Intn(60); i < k; i++ {
			nums = append(nums, float64(i))
		}
		minRows, maxRows = 66, 130
	}
	// mixed kinds: the right table's key columns hold the decimal texts of numbers
	rnums := nums
	if mixed {
		rnums = make([]any, len(nums))
		for i, v := range nums {
			rnums[i] = strconv.FormatFloat(v.(float64), 'f', -1, 64)
		}
	}
	strs := []any{"a", "b", "a-", "-b", "-", "a-b", "1", "1-", " ", "ab", "A", ""}
	c.R.Shuffle(len(strs), func(i, j int) { strs[i], strs[j] = strs[j], strs[i] })
	strs = strs[:2+c.Intn(5)]
	mk := func(name string, cols [3]string, empty bool, nums []any) *gen.Table {
		t := &gen.Table{Name: name, Pools: map[string][]any{cols[0]: nums, cols[1]: strs, cols[2]: nums}}
		n := c.Intn(maxRows + 1)
		if c.Chance(0.5) && n > 6 {
			n = c.Intn(6)
		}
		if minRows > 0 {
			n = minRows + c.Intn(maxRows-minRows)
		}
		if empty {
			n = 0
		}
		for i := 0; i < n; i++ {
			row := map[string]any{"rid": float64(i), cols[0]: gen.Pick(c.R, nums), cols[1]: gen.Pick(c.R, strs), cols[2]: gen.Pick(c.R, nums)}
			if name == "l" {
				// a key inside a nested object of the left rows (x.o.q)
				row["o"] = map[string]any{"q": gen.Pick(c.R, nums)}
			}
			t.Rows = append(t.Rows, row)
		}
		return t
	}
	return mk("l", [3]string{"a", "z", "k"}, forceEmpty == "left.empty", nums), mk("r", [3]string{"m", "b", "j"}, forceEmpty == "right.empty", rnums)
}

// c04On builds an ON tree. Column operands are named "x.a" / "y.m".
func c04On(c *fw.Case, force string) (gen.Pred, []string) {
	var feats []string
	pairs := [][2]string{{"x.a", "y.m"}, {"x.z", "y.b"}, {"x.k", "y.j"}, {"x.a", "y.j"}, {"x.k", "y.m"}, {"x.o.q", "y.m"}, {"x.o.q", "y.j"}}
	ops := []string{"=", "=", "=", "!=", "<", "<=", ">", ">="}
	atom := func(equiOnly bool) gen.Pred {
		p := gen.Pick(c.R, pairs)
		op := gen.Pick(c.R, ops)
		if equiOnly {
			op = "="
		}
		if p[0] == "x.o.q" {
			feats = append(feats, "keys.nested-path")
		}
		if p[0] == "x.z" {
			feats = append(feats, "keys.str")
		} else {
			feats = append(feats, "keys.num")
		}
		if op != "=" {
			feats = append(feats, "on.nonequi")
		}
		l, r := p[0], p[1]
		if force == "on.flipped" || c.Chance(0.4) {
			l, r = r, l
			feats = append(feats, "on.flipped")
			op = flipOp(op)
		}
		return gen.Cmp{L: gen.Operand{Col: l, IsCol: true}, R: gen.Operand{Col: r, IsCol: true}, Op: op}
	}
	switch force {
	case "on.equi":
		n := 1 + c.Intn(3)
		var p gen.Pred = atom(true)
		for i := 1; i < n; i++ {
			p = gen.And{A: p, B: atom(true)}
			feats = append(feats, "on.multi")
		}
		feats = append(feats, "on.equi")
		return p, feats
	}
	var rec func(d int) gen.Pred
	rec = func(d int) gen.Pred {
		if force == "on.between" && d > 0 || force == "" && c.Chance(0.08) {
			// a range check whose bounds are columns of the other side
			feats = append(feats, "on.between", "on.nonequi", "keys.num")
			col, lo, hi := "x.a", "y.m", "y.j"
			if c.Chance(0.4) {
				col, lo, hi = "y.m", "x.a", "x.k"
			}
			return gen.BetweenCols{Col: col, Lo: lo, Hi: hi, Neg: c.Chance(0.3)}
		}
		if d > 0 && (force == "on.not" || force == "" && c.Chance(0.1)) {
			feats = append(feats, "on.not", "on.nonequi")
			return gen.Not{A: rec(d - 1)}
		}
		if d == 0 || c.Chance(0.3) {
			return atom(false)
		}
		feats = append(feats, "on.multi")
		if force == "on.or" || c.Chance(0.35) {
			feats = append(feats, "on.or")
			return gen.Or{A: rec(d - 1), B: rec(d - 1)}
		}
		return gen.And{A: rec(d - 1), B: rec(d - 1)}
	}
	d := c.Intn(4)
	if force == "on.or" || force == "on.multi" || force == "on.between" || force == "on.not" {
		d = 1 + c.Intn(3)
	}
	p := rec(d)
	if !containsStr(feats, "on.nonequi") && !containsStr(feats, "on.or") {
		feats = append(feats, "on.equi")
	}
	return p, feats
}

func flipOp(op string) string {
	switch op {
	case "<":
		return ">"
	case "<=":
		return ">="
	case ">":
		return "<"
	case ">=":
		return "<="
	}
	return op
}

// respell permutes AND/OR operands and flips comparisons: same meaning.
func c04Respell(c *fw.Case, p gen.Pred, flip, permute bool) gen.Pred {
	switch t := p.(type) {
	case gen.Cmp:
		if flip {
			return gen.Cmp{L: t.R, R: t.L, Op: flipOp(t.Op)}
		}
		return t
	case gen.And:
		a, b := c04Respell(c, t.A, flip, permute), c04Respell(c, t.B, flip, permute)
		if permute {
			return gen.And{A: b, B: a}
		}
		return gen.And{A: a, B: b}
	case gen.Or:
		a, b := c04Respell(c, t.A, flip, permute), c04Respell(c, t.B, flip, permute)
		if permute {
			return gen.Or{A: b, B: a}
		}
		return gen.Or{A: a, B: b}
	case gen.Not:
		return gen.Not{A: c04Respell(c, t.A, flip, permute)}
	}
	return p
}

func c04Ref(l, r *gen.Table, on gen.Pred, jtype string, mixed bool) ([]any, int, int, int, error) {
	var out []any
	matchedL := make([]bool, len(l.Rows))
	matchedR := make([]bool, len(r.Rows))
	pairs := 0
	for i, lr := range l.Rows {
		for j, rr := range r.Rows {
			env := map[string]any{}
			for k, v := range lr {
				if f, isNum := v.(float64); isNum && mixed && k != "rid" {
					// a number against a string is ordered by the number's decimal text
					v = strconv.FormatFloat(f, 'f', -1, 64)
				}
				env["x."+k] = v
				if obj, isObj := v.(map[string]any); isObj {
					for nk, nv := range obj {
						if f, isNum := nv.(float64); isNum && mixed {
							nv = strconv.FormatFloat(f, 'f', -1, 64)
						}
						env["x."+k+"."+nk] = nv
					}
				}
			}
			for k, v := range rr {
				env["y."+k] = v
			}
			ok, err := ref.EvalPred(on, ref.Env{Row: env})
			if err != nil {
				return nil, 0, 0, 0, err
			}
			if ok {
				pairs++
				matchedL[i], matchedR[j] = true, true
				out = append(out, map[string]any{"x": lr, "y": rr})
			}
		}
	}
	ul, ur := 0, 0
	if jtype == "left" {
		for i, lr := range l.Rows {
			if !matchedL[i] {
				ul++
				out = append(out, map[string]any{"x": lr, "y": nil})
			}
		}
	}
	if jtype == "right" {
		for j, rr := range r.Rows {
			if !matchedR[j] {
				ur++
				out = append(out, map[string]any{"x": nil, "y": rr})
			}
		}
	}
	return out, pairs, ul, ur, nil
}

func c04Diff(c *fw.Case, par bool) {
	if par {
		setHookMode(1)
	}
	force := ""
	if c.Idx < 2*len(c04Floor) {
		force = c04Floor[c.Idx%len(c04Floor)]
	}
	mixed := force == "keys.mixed-kind" || (force == "" && c.Chance(0.12))
	many := force == "keys.many" || (force == "" && !mixed && c.Chance(0.008))
	l, r := c04Tables(c, force, mixed, many)
	on, feats := c04On(c, force)
	// key columns whose names are not plain words (hyphens, blanks, non-ASCII
	// letters, a dollar sign), written back-ticked
	colText := map[string]string{}
	if force == "keys.nonword" || (force == "" && c.Chance(0.1)) {
		rename := map[string]string{"a": "a-1", "k": "k é", "m": "m x", "j": "$j"}
		for _, tb := range []*gen.Table{l, r} {
			for _, row := range tb.Rows {
				for from, to := range rename {
					if v, ok := row[from]; ok {
						row[to] = v
						delete(row, from)
					}
				}
			}
		}
		var walk func(p gen.Pred) gen.Pred
		col := func(name string) string {
			side, key, _ := strings.Cut(name, ".")
			if to, ok := rename[key]; ok {
				colText[side+"."+to] = side + ".`" + to + "`"
				return side + "." + to
			}
			return name
		}
		walk = func(p gen.Pred) gen.Pred {
			switch t := p.(type) {
			case gen.Cmp:
				t.L.Col, t.R.Col = col(t.L.Col), col(t.R.Col)
				return t
			case gen.And:
				return gen.And{A: walk(t.A), B: walk(t.B)}
			case gen.Or:
				return gen.Or{A: walk(t.A), B: walk(t.B)}
			case gen.Not:
				return gen.Not{A: walk(t.A)}
			case gen.BetweenCols:
				return gen.BetweenCols{Col: col(t.Col), Lo: col(t.Lo), Hi: col(t.Hi), Neg: t.Neg}
			}
			return p
		}
		on = walk(on)
		feats = append(feats, "keys.nonword")
	}
	if many {
		feats = append(feats, "keys.many")
	}
	if mixed {
		feats = append(feats, "keys.mixed-kind")
	}
	jtype := gen.Pick(c.R, []string{"inner", "left", "right"})
	switch {
	case strings.HasPrefix(force, "type."):
		jtype = strings.TrimPrefix(force, "type.")
	case force == "unmatched.left":
		jtype = "left"
	case force == "unmatched.right":
		jtype = "right"
	case strings.HasPrefix(force, "strategy."):
		s := strings.TrimPrefix(force, "strategy.")
		switch {
		case containsStr(c04Left, s):
			jtype = "left"
		case containsStr(c04Right, s):
			jtype = "right"
		default:
			jtype = "inner"
		}
	}
	feats = append(feats, "type."+jtype)
	want, pairs, ul, ur, err := c04Ref(l, r, on, jtype, mixed)
	if err != nil {
		c.Discard("reference: " + err.Error())
		return
	}
	if len(l.Rows) == 0 {
		feats = append(feats, "left.empty")
	}
	if len(r.Rows) == 0 {
		feats = append(feats, "right.empty")
	}
	if ul > 0 {
		feats = append(feats, "unmatched.left")
	}
	if ur > 0 {
		feats = append(feats, "unmatched.right")
	}
	if pairs > len(l.Rows) || pairs > len(r.Rows) {
		feats = append(feats, "dupkeys")
	}
	strategies := c04Inner
	switch jtype {
	case "left":
		strategies = c04Left
	case "right":
		strategies = c04Right
	}
	ro := gen.RenderOpts{ColText: colText}
	onSQL := gen.RenderPred(on, ro)
	evals := 0
	// alias names: also pairs in which one alias is a prefix of the other
	aliases := gen.Pick(c.R, [][2]string{{"x", "y"}, {"x", "y"}, {"o", "ol"}, {"ol", "o"}, {"a", "ab"}, {"t1", "t"}, {"L", "R"}})
	if force == "alias.prefix" {
		aliases = gen.Pick(c.R, [][2]string{{"o", "ol"}, {"ol", "o"}, {"t1", "t"}})
	}
	if strings.HasPrefix(aliases[0], aliases[1]) || strings.HasPrefix(aliases[1], aliases[0]) {
		feats = append(feats, "alias.prefix")
	}
	if aliases != [2]string{"x", "y"} {
		for i, w := range want {
			m := w.(map[string]any)
			want[i] = map[string]any{aliases[0]: m["x"], aliases[1]: m["y"]}
		}
	}
	respellAliases := strings.NewReplacer("x.", aliases[0]+".", "y.", aliases[1]+".")
	native := !mixed && (force == "keys.native" || (force == "" && c.Chance(0.12)))
	if native {
		feats = append(feats, "keys.native")
	}
	swapped := false
	runOne := func(strategy, onText, what string, reps int) bool {
		sql := "SELECT * FROM l " + aliases[0] + " " + strategy + " r " + aliases[1] + " ON " + respellAliases.Replace(onText)
		if swapped {
			// the operands the other way round, under the very same ON text
			sql = "SELECT * FROM r " + aliases[1] + " " + strategy + " l " + aliases[0] + " ON " + respellAliases.Replace(onText)
		}
		for rep := 0; rep < reps; rep++ {
			doc := DocOf(l, r)
			if native {
				// key columns as natively typed Go integers (a document built in Go)
				for _, col := range []string{"a", "k"} {
					nativize(c, doc["l"].([]any), col)
				}
				for _, col := range []string{"m", "j"} {
					nativize(c, doc["r"].([]any), col)
				}
			}
			o := Run(doc, sql)
			evals++
			detail := map[string]any{"sql": sql, "doc": doc, "expected_multiset": want, "observed": o.Describe(), "what": what, "repetition": rep}
			if !o.OK() {
				c.Violate("error", fmt.Sprintf("%s: in-domain join failed: %v", what, o.Describe()), detail)
				return false
			}
			if !val.SameMultiset(o.Rows, want) {
				c.Violate("wrong-multiset", fmt.Sprintf("%s: `%s` returned %d rows, the textbook result has %d (pairs=%d unmatched L=%d R=%d): got %s", what, sql, len(o.Rows), len(want), pairs, ul, ur, short(val.Canon(o.Rows), 400)), detail)
				return false
			}
			if par && strings.HasPrefix(strategy, "PARALLEL") && len(o.Rows) > 1 {
				c.SetAdd("parallel_output_orders", fmt.Sprintf("%x", val.Hash64(sql+val.Canon(o.Rows))))
				c.SetAdd("parallel_queries", fmt.Sprintf("%x", val.Hash64(sql+val.Canon(doc))))
			}
		}
		return true
	}
	for _, s := range strategies {
		if par && !strings.HasPrefix(s, "PARALLEL") {
			continue
		}
		reps := 1
		if par {
			reps = pick(c.Tier, 5, 20)
		}
		feats = append(feats, "strategy."+s)
		if !runOne(s, onSQL, "strategy "+s, reps) {
			c.Feature(feats...)
			return
		}
	}
	if !par {
		// the same ON text once more with the operands swapped: for an inner
		// join the same pairs, for an outer join the mirrored spelling
		// preserves the same side
		mirror := strategies
		switch jtype {
		case "left":
			mirror = c04Right
		case "right":
			mirror = c04Left
		}
		swapped = true
		feats = append(feats, "operands.swapped")
		ok := runOne(gen.Pick(c.R, mirror), onSQL, "operands swapped, same ON text", 1)
		swapped = false
		if !ok {
			c.Feature(feats...)
			return
		}
	}
	if !par {
		s := gen.Pick(c.R, strategies)
		feats = append(feats, "meta.permute", "meta.flip")
		if !runOne(s, gen.RenderPred(c04Respell(c, on, false, true), ro), "ON conjuncts permuted under "+s, 1) ||
			!runOne(s, gen.RenderPred(c04Respell(c, on, true, false), ro), "ON comparisons flipped under "+s, 1) ||
			!runOne(gen.Pick(c.R, strategies), gen.RenderPred(c04Respell(c, on, true, true), ro), "ON flipped and permuted", 1) {
			c.Feature(feats...)
			return
		}
	}
	c.Feature(feats...)
	c.Evals(evals)
	c.Sample(map[string]any{"sql": "SELECT * FROM l x <" + strings.Join(strategies, "|") + "> r y ON " + onSQL, "left_rows": len(l.Rows), "right_rows": len(r.Rows), "pairs": pairs, "unmatched_left": ul, "unmatched_right": ur})
	nt := pairs >= 2
	if jtype == "left" {
		nt = pairs >= 1 && ul >= 1
	}
	if jtype == "right" {
		nt = pairs >= 1 && ur >= 1
	}
	if nt {
		c.Nontrivial(jtype + "|" + onSQL + "|" + val.Canon(l.Array()) + val.Canon(r.Array()))
	}
}

func sortedCopy(xs []string) []string {
	out := append([]string{}, xs...)
	sort.Strings(out)
	return out
}
