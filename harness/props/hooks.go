package props

import (
	"runtime"
	"sync/atomic"
	"time"

	"github.com/vedadiyan/genql"
)

// The scheduling hook (build tag `verif` in /repo). It is installed once, in
// init, before any goroutine exists. In perturbation mode the hook only calls
// runtime.Gosched / time.Sleep, chosen from the low bits of the monotonic
// clock: it deliberately touches no shared variable, mutex or atomic, because
// any synchronisation inside the hook would add happens-before edges and could
// hide a real race from the race detector. Counting (atomics) is a separate
// mode used only in non-race children to show that the hook sites are reached.
var (
	hookMode  int32 // 0 off, 1 perturb, 2 count; written only while no query runs
	hookHits  [8]atomic.Int64
	hookSites = []string{"selector.cache", "join.par.enter", "join.par.append", "fun.bg.start", "fun.bg.done", "exec.afterWait"}
)

func init() {
	genql.VerifHook = func(site string) {
		switch hookMode {
		case 1:
			x := uint64(time.Now().UnixNano())
			x ^= x >> 7
			x *= 0x9E3779B97F4A7C15
			switch (x >> 33) % 8 {
			case 0, 1:
				runtime.Gosched()
			case 2:
				time.Sleep(time.Duration((x>>40)%150) * time.Microsecond)
			}
		case 2:
			for i, s := range hookSites {
				if s == site {
					hookHits[i].Add(1)
				}
			}
		}
	}
}

// setHookMode must only be called while no query is running.
func setHookMode(m int32) {
	if hookMode != m { // written once per child, before its first query
		hookMode = m
	}
}

func hookCounts() map[string]int {
	out := map[string]int{}
	for i, s := range hookSites {
		out[s] = int(hookHits[i].Load())
	}
	return out
}
