package props

import (
	"errors"
	"fmt"
	"runtime/debug"
	"strings"

	"github.com/vedadiyan/genql"

	"verifharness/internal/fw"
	"verifharness/internal/gen"
	"verifharness/internal/ref"
	"verifharness/internal/val"
)

var c09Floor = []string{"key", "key.missing", "key.on-array", "key.quoted", "key.quoted.steplike", "key.quoted.plain", "fn.reregistered", "index", "index.multi", "each", "each.flatten", "keep", "range", "range.begin", "range.end",
	"pipe", "pipe.string", "pipe.number", "pipe.on-array", "continue", "fn.mix", "fn.distinct", "fn.custom", "fn.custom.mixed-case", "err.index-oob", "err.index-negative", "err.range-oob", "err.shape", "err.fn", "null.path", "readme.form", "continue.fn-after-null", "pipe.number.zero-padded", "pipe.string.fraction", "pipe.number.on-number", "range.bound-omitted", "pipe.string.missing"}

func init() {
	genql.RegisterTopLevelFunction("vsize", func(v any) (any, error) {
		a, ok := v.([]any)
		if !ok {
			return nil, fmt.Errorf("vsize: not an array")
		}
		return float64(len(a)), nil
	})
	genql.RegisterTopLevelFunction("visnull", func(v any) (any, error) { return v == nil, nil })
	// names are registered as written: `vLast` and `vlast` are two functions
	vlast := func(tag string) func(any) (any, error) {
		return func(v any) (any, error) {
			a, ok := v.([]any)
			if !ok {
				return nil, fmt.Errorf("%w: %s on non-array", ref.ErrSel, tag)
			}
			if len(a) == 0 {
				return tag, nil
			}
			return []any{tag, a[len(a)-1]}, nil
		}
	}
	genql.RegisterTopLevelFunction("vLast", vlast("camel"))
	genql.RegisterTopLevelFunction("vlast", vlast("lower"))
	ref.TopFns["vLast"] = vlast("camel")
	ref.TopFns["vlast"] = vlast("lower")
	ref.TopFns["visnull"] = func(v any) (any, error) { return v == nil, nil }
	ref.TopFns["vsize"] = func(v any) (any, error) {
		a, ok := v.([]any)
		if !ok {
			return nil, fmt.Errorf("%w: vsize on non-array", ref.ErrSel)
		}
		return float64(len(a)), nil
	}
	fw.Register(&fw.Prop{
		ID:    "C09",
		Title: "Path selectors evaluate per the documented grammar and fail only with errors",
		Level: "exploration",
		Rule: "|string of a missing key (NULL). keys that differ in blanks only; ranges with a bound left out. a function behind a continuation that is NULL; zero-padded numeric strings, fractions and numbers under the reshape pipe. a share of the selectors quotes every key (or every other key); phase 'registry' (one process per case): a function registered under a built-in name is the one `fn=>` applies. phase 'bytes' evaluates every text twice (same error-ness, same value). object keys include texts that look like steps (`[0]`, `{id}`, `x::y`, `a|b`, `keep=>x` ...) and must be literal when quoted. phase 'grammar': each case = a random JSON-like document (objects/arrays nested to depth 5, ragged and multi-dimensional arrays, keys with dots and spaces) x a selector of 1..6 steps generated from the documented grammar by a type-directed walk over the document " +
			"(keys, missing keys, keys mapped over arrays, [i], [i:j:..], each, keep=>, (m:n)/begin/end, {k|type,..}, quoted keys, ::, mix=> / distinct=> / a harness-registered function, and deliberately wrong shapes / out-of-range bounds), plus the README forms verbatim; " +
			"ExecReader is called twice (cold and warm parse cache, second time on another copy) and must agree with the reference selector evaluator in value and in error-ness, never panic, and leave the document unchanged. " +
			"Phase 'bytes': arbitrary byte strings and mutated selectors - totality only (no panic, document unchanged). Non-trivial = a successful evaluation with at least 2 steps whose value is not NULL, or an expected error; distinct = distinct (document, selector).",
		Assumptions: []string{
			"where the README is silent the generator stays out: non-keep index lists that would flatten into array leaves, a dimension after a range, negative indices, mix=> on objects, distinct over values that print alike (all reported as out-of-domain discards)",
			"errors are compared as 'is an error', never by message; ranges are end-exclusive as the repository's own TestSelectDimension fixes it",
		},
		Floor:         c09Floor,
		MinNontrivial: 100,
		Phases: []fw.Phase{
			{Name: "grammar", N: func(t fw.Tier) int { return pick(t, 20000, 800000) }, Run: c09Grammar},
			{Name: "bytes", N: func(t fw.Tier) int { return pick(t, 20000, 600000) }, Run: c09Bytes},
			{Name: "registry", Batch: 1, N: func(t fw.Tier) int { return pick(t, 6, 40) }, Run: c09Registry},
		},
		Witness: c09Witness,
	})
}

// reader calls ExecReader catching panics.
func reader(doc any, sel string) (v any, err error, pan any, stack string) {
	defer func() {
		if r := recover(); r != nil {
			pan = r
			stack = string(debug.Stack())
		}
	}()
	v, err = genql.ExecReader(doc, sel)
	return
}

func c09Scalar(c *fw.Case) any {
	switch c.Intn(6) {
	case 0:
		return float64(c.Intn(20))
	case 1:
		return float64(c.Intn(2000)-1000) / 8
	case 2:
		return gen.RandString(c.R, gen.Plain, 2)
	case 3:
		return c.Chance(0.5)
	case 4:
		return nil
	default:
		return fmt.Sprint(c.Intn(100)) // numeric string
	}
}

func c09Value(c *fw.Case, depth int) any {
	if depth <= 0 {
		return c09Scalar(c)
	}
	switch c.Intn(7) {
	case 0, 1:
		return c09Object(c, depth-1)
	case 2:
		n := c.Intn(4)
		a := make([]any, n)
		for i := range a {
			a[i] = c09Object(c, depth-1)
		}
		return a
	case 3:
		n := c.Intn(4)
		a := make([]any, n)
		for i := range a {
			a[i] = c09Scalar(c)
		}
		return a
	case 4:
		return c09Matrix(c, 2+c.Intn(2), depth-1)
	default:
		return c09Scalar(c)
	}
}

var c09Keys = []string{"id", "name", "tags", "addr", "city", "x", "y", "items", "user", "key", "v", "createdAt", "n1"}

var c09StepLikeKeys = []string{"[0]", "[each]", "{id}", "{n1}", "(0:1)", "[1:2]", "keep=>x", "x::y", "each", "end", "[", "{", "a|b", "}"}

func c09Object(c *fw.Case, depth int) map[string]any {
	m := map[string]any{}
	n := 1 + c.Intn(4)
	for i := 0; i < n; i++ {
		m[gen.Pick(c.R, c09Keys)] = c09Value(c, depth)
	}
	if c.Chance(0.15) {
		m["user.name"] = c09Value(c, depth)
	}
	if c.Chance(0.1) {
		m["a b"] = c09Scalar(c)
	}
	if c.Chance(0.12) {
		// quoted keys are literal also when their text looks like a step
		m[gen.Pick(c.R, c09StepLikeKeys)] = c09Value(c, depth)
	}
	return m
}

// c09Matrix builds a dims-dimensional array; ragged with some probability.
func c09Matrix(c *fw.Case, dims, leafDepth int) []any {
	n := 1 + c.Intn(3)
	a := make([]any, n)
	for i := range a {
		if dims <= 1 {
			if c.Chance(0.5) {
				a[i] = c09Scalar(c)
			} else {
				a[i] = map[string]any{"x": float64(c.Intn(9)), "y": c09Scalar(c), "user": map[string]any{"id": float64(i)}}
			}
		} else {
			a[i] = c09Matrix(c, dims-1, leafDepth)
		}
	}
	return a
}

func c09Doc(c *fw.Case) map[string]any {
	doc := c09Object(c, 4)
	users := make([]any, c.Intn(5))
	for i := range users {
		u := map[string]any{"id": float64(i + 1), "name": gen.RandString(c.R, gen.Plain, 2), "active": c.Chance(0.5), "numstr": gen.Pick(c.R, []string{"", "", "0", "00", "0"}) + fmt.Sprint(c.Intn(50)),
			"createdAt": float64(1000 + c.Intn(100)), "email": []any{[]any{"a@x", "b@x"}, []any{"c@x"}},
			"score": gen.Pick(c.R, []any{0.1, 2.5, 1e-7, 123456.789, 1e19, 1234567.0, -0.75})}
		if c.Chance(0.7) {
			u["addr"] = map[string]any{"city": gen.Pick(c.R, []any{"Oslo", "Rome", "Lima"}), "geo": []any{float64(c.Intn(90)), float64(c.Intn(90))}}
		}
		if c.Chance(0.7) {
			tags := make([]any, c.Intn(7))
			for j := range tags {
				tags[j] = gen.Pick(c.R, []any{"p", "q", "r", "s"})
			}
			u["tags"] = tags
		}
		users[i] = u
	}
	doc["users"] = users
	doc["data"] = c09Matrix(c, 3, 1)
	doc["rag"] = []any{[]any{1.0, 2.0, 3.0}, []any{}, []any{4.0}}
	doc["user"] = map[string]any{"id": float64(c.Intn(100)), "createdAt": "2020", "name": "n", "user.name": map[string]any{"key": "k"}}
	doc["user.name"] = map[string]any{"key": c09Scalar(c)}
	// keys that differ in their blanks only are different keys
	doc["user"].(map[string]any)["first name"], doc["user"].(map[string]any)["firstname"], doc["user"].(map[string]any)["first  name"] = "spaced", "joined", "wide"
	doc["first name"], doc["firstname"] = map[string]any{"key": "spaced"}, map[string]any{"key": "joined"}
	doc["s"] = "scalar"
	doc["nul"] = nil
	doc["empty"] = []any{}
	return doc
}

func arrayDepth(v any) int {
	a, ok := v.([]any)
	if !ok {
		return 0
	}
	if len(a) == 0 {
		return 1
	}
	min := -1
	for _, x := range a {
		d := arrayDepth(x)
		if min == -1 || d < min {
			min = d
		}
	}
	return 1 + min
}

// c09Selector walks the document to build a mostly-valid selector.
func c09Selector(c *fw.Case, doc map[string]any, force string, feats *[]string) ref.Selector {
	var sel ref.Selector
	seg := ref.Segment{}
	var rep any = doc
	steps := 1 + c.Intn(6)
	feat := func(f string) { *feats = append(*feats, f) }
	wantErr := force == "err.index-oob" || force == "err.range-oob" || force == "err.shape" || (force == "" && c.Chance(0.12))
	errPlaced := false
	// in a share of the selectors every key is quoted
	quoteAll := force == "" && c.Chance(0.15)
	// ... in another share every other key or so
	quoteSome := force == "" && !quoteAll && c.Chance(0.3)
	if force == "fn.mix" || force == "fn.distinct" || force == "fn.custom" || force == "fn.custom.mixed-case" || force == "err.fn" || c.Chance(0.12) {
		switch {
		case force == "fn.mix":
			seg.Fn = "mix"
		case force == "fn.distinct":
			seg.Fn = "distinct"
		case force == "fn.custom":
			seg.Fn = "vsize"
		case force == "err.fn":
			seg.Fn = "nosuchfn"
		default:
			seg.Fn = gen.Pick(c.R, []string{"mix", "distinct", "vsize", "vLast", "vlast", "VLAST"})
		case force == "fn.custom.mixed-case":
			seg.Fn = "vLast"
		}
		if seg.Fn == "nosuchfn" || seg.Fn == "VLAST" {
			feat("err.fn")
		} else if seg.Fn == "vLast" || seg.Fn == "vlast" {
			feat("fn.custom.mixed-case")
		} else if seg.Fn == "vsize" {
			feat("fn.custom")
		} else {
			feat("fn." + seg.Fn)
		}
	}
	mkIndex := func(a []any) ref.IndexStep {
		depth := arrayDepth(a)
		st := ref.IndexStep{}
		nd := 1
		if depth > 1 && c.Chance(0.7) {
			nd = depth // full depth
			if c.Chance(0.2) {
				nd = 1 + c.Intn(depth)
			}
		}
		if force == "keep" || c.Chance(0.15) {
			st.Keep = true
			nd = 1 + c.Intn(depth)
			feat("keep")
		}
		if force == "index.multi" && depth > 1 {
			nd = depth
		}
		cur := any(a)
		for i := 0; i < nd; i++ {
			ca, _ := cur.([]any)
			l := len(ca)
			k := c.Intn(10)
			last := i == nd-1
			switch {
			case (force == "range" || force == "range.begin" || force == "range.end" || force == "range.bound-omitted" || force == "err.range-oob") && last || (k == 0 && last):
				d := ref.Dim{Kind: ref.DimRange}
				if l > 0 {
					d.M = c.Intn(l + 1)
					d.N = d.M + c.Intn(l-d.M+1)
				}
				if force == "range.begin" || c.Chance(0.25) {
					d.Begin = true
					feat("range.begin")
				}
				if force == "range.end" || force == "range.bound-omitted" || c.Chance(0.25) {
					d.End = true
					feat("range.end")
				}
				if (d.Begin || d.End) && (force == "range.bound-omitted" || c.Chance(0.4)) {
					d.Bare = true
					feat("range.bound-omitted")
				}
				if (wantErr && !errPlaced && c.Chance(0.5)) || force == "err.range-oob" {
					d.End, d.Begin = false, false
					if c.Chance(0.5) {
						d.N = l + 1 + c.Intn(3)
					} else {
						d.M, d.N = l+2, l+1
						if c.Chance(0.5) && l >= 1 {
							d.M, d.N = l, l-1
						}
					}
					errPlaced = true
					feat("err.range-oob")
				}
				feat("range")
				st.Dims = append(st.Dims, d)
				cur = nil
			case force == "each" || force == "each.flatten" || k < 5:
				st.Dims = append(st.Dims, ref.Dim{Kind: ref.DimEach})
				feat("each")
				if nd > 1 && !st.Keep {
					feat("each.flatten")
				}
				if l > 0 {
					cur = ca[0]
				} else {
					cur = nil
				}
			default:
				idx := 0
				if l > 0 {
					idx = c.Intn(l)
					if c.Chance(0.3) {
						idx = l - 1
					}
				}
				if (wantErr && !errPlaced && c.Chance(0.6)) || force == "err.index-oob" && !errPlaced {
					idx = l + c.Intn(4)
					if c.Chance(0.3) {
						idx = l
					}
					if c.Chance(0.3) {
						// below the array as well: a sign must not get lost
						idx = -1 - c.Intn(3)
						feat("err.index-negative")
					}
					errPlaced = true
					feat("err.index-oob")
				}
				st.Dims = append(st.Dims, ref.Dim{Kind: ref.DimIndex, I: idx})
				feat("index")
				if idx >= 0 && idx < l {
					cur = ca[idx]
				} else {
					cur = nil
				}
			}
		}
		if len(st.Dims) > 1 {
			feat("index.multi")
		}
		return st
	}
	for i := 0; i < steps; i++ {
		switch t := rep.(type) {
		case map[string]any:
			if (force == "pipe" || (strings.HasPrefix(force, "pipe.") && force != "pipe.on-array") || c.Chance(0.12)) && len(t) > 0 {
				ps := ref.PipeStep{}
				for k, v := range t {
					if len(ps.Fields) >= 3 {
						break
					}
					f := ref.PipeField{Key: k}
					switch x := v.(type) {
					case float64:
						if force == "pipe.string" || c.Chance(0.4) {
							f.Type = "string"
							feat("pipe.string")
							if x != float64(int64(x)) {
								feat("pipe.string.fraction")
							}
						} else if c.Chance(0.3) {
							f.Type = "number"
							feat("pipe.number")
							feat("pipe.number.on-number")
						}
					case string:
						if _, err := fmt.Sscanf(x, "%f", new(float64)); err == nil && (force == "pipe.number" || force == "pipe.number.zero-padded" || c.Chance(0.5) || (len(x) > 1 && x[0] == '0' && c.Chance(0.8))) {
							f.Type = "number"
							feat("pipe.number")
							if len(x) > 1 && x[0] == '0' && x[1] >= '0' && x[1] <= '9' {
								feat("pipe.number.zero-padded")
							}
						} else if c.Chance(0.3) {
							f.Type = "string"
							feat("pipe.string")
						}
					case bool:
						if c.Chance(0.4) {
							f.Type = "string"
							feat("pipe.string")
						}
					}
					ps.Fields = append(ps.Fields, f)
				}
				sortFields(ps.Fields)
				if c.Chance(0.2) {
					ps.Fields = append(ps.Fields, ref.PipeField{Key: "missing"})
				}
				if force == "pipe.string.missing" || c.Chance(0.15) {
					ps.Fields = append(ps.Fields, ref.PipeField{Key: "nokey2", Type: "string"})
					feat("pipe.string.missing")
				}
				if wantErr && !errPlaced && c.Chance(0.3) {
					ps.Fields[0].Type = "date"
					errPlaced = true
					feat("err.shape")
				}
				feat("pipe")
				seg.Steps = append(seg.Steps, ps)
				rep = nil
				i = steps // a reshaped object ends the walk (its members keep their values)
				continue
			}
			if wantErr && !errPlaced && c.Chance(0.25) {
				seg.Steps = append(seg.Steps, ref.IndexStep{Dims: []ref.Dim{{Kind: ref.DimIndex, I: 0}}})
				errPlaced = true
				feat("err.shape")
				rep = nil
				continue
			}
			keys := keysOf(t)
			k := gen.Pick(c.R, keys)
			if force == "key.quoted" {
				for _, kk := range keys {
					if kk == "user.name" || kk == "a b" {
						k = kk
					}
				}
			}
			if force == "key.missing" || force == "null.path" || c.Chance(0.1) {
				k = "nokey"
				feat("key.missing")
				if i < steps-1 {
					feat("null.path")
				}
			}
			ks := ref.KeyStep{Name: k}
			for _, ch := range k {
				if !(ch == '_' || ch >= '0' && ch <= '9' || ch >= 'a' && ch <= 'z' || ch >= 'A' && ch <= 'Z') {
					ks.Quoted = true
				}
			}
			if !ks.Quoted && (force == "key.quoted.plain" || quoteAll || quoteSome && c.Chance(0.5)) {
				// a plain key may be quoted too; several quoted keys in one
				// selector, with steps and continuations between them
				ks.Quoted = true
				feat("key.quoted.plain")
			}
			if ks.Quoted {
				feat("key.quoted")
				if k[0] == '[' || k[0] == '{' {
					feat("key.quoted.steplike")
				}
			}
			feat("key")
			seg.Steps = append(seg.Steps, ks)
			rep = t[k]
			if k == "nokey" && i < steps-1 {
				// continue the path over NULL with plain keys
				seg.Steps = append(seg.Steps, ref.KeyStep{Name: gen.Pick(c.R, c09Keys)})
				i++
			}
		case []any:
			choice := c.Intn(10)
			objElems := len(t) > 0
			for _, el := range t {
				if _, ok := el.(map[string]any); !ok {
					objElems = false
				}
			}
			switch {
			case (force == "continue" || choice == 0) && len(seg.Steps) > 0:
				sel.Segments = append(sel.Segments, seg)
				seg = ref.Segment{}
				feat("continue")
				st := mkIndex(t)
				seg.Steps = append(seg.Steps, st)
				rep = nil
				if len(st.Dims) == 1 && st.Dims[0].Kind == ref.DimIndex && st.Dims[0].I >= 0 && st.Dims[0].I < len(t) {
					rep = t[st.Dims[0].I]
				}
			case objElems && (force == "key.on-array" || force == "pipe.on-array" || choice < 4):
				el := t[0].(map[string]any)
				if force == "pipe.on-array" || c.Chance(0.15) {
					ps := ref.PipeStep{}
					for _, k := range keysOf(el) {
						if len(ps.Fields) < 2 {
							ps.Fields = append(ps.Fields, ref.PipeField{Key: k})
						}
					}
					feat("pipe")
					feat("pipe.on-array")
					seg.Steps = append(seg.Steps, ps)
					rep = nil
					i = steps
					continue
				}
				k := gen.Pick(c.R, keysOf(el))
				ks := ref.KeyStep{Name: k}
				for _, ch := range k {
					if !(ch == '_' || ch >= '0' && ch <= '9' || ch >= 'a' && ch <= 'z' || ch >= 'A' && ch <= 'Z') {
						ks.Quoted = true
					}
				}
				feat("key")
				feat("key.on-array")
				seg.Steps = append(seg.Steps, ks)
				rep = el[k]
			default:
				st := mkIndex(t)
				seg.Steps = append(seg.Steps, st)
				rep = nil
				if len(st.Dims) == 1 && st.Dims[0].Kind == ref.DimIndex && st.Dims[0].I >= 0 && st.Dims[0].I < len(t) {
					rep = t[st.Dims[0].I]
				} else if v, err := ref.EvalSelector(ref.Selector{Segments: []ref.Segment{{Steps: []ref.SelStep{st}}}}, any(t)); err == nil {
					rep = v
				}
			}
		default:
			if rep != nil && wantErr && !errPlaced {
				seg.Steps = append(seg.Steps, ref.KeyStep{Name: "x"})
				errPlaced = true
				feat("err.shape")
			}
			i = steps
		}
	}
	sel.Segments = append(sel.Segments, seg)
	return sel
}

func sortFields(f []ref.PipeField) {
	for i := 1; i < len(f); i++ {
		for j := i; j > 0 && f[j].Key < f[j-1].Key; j-- {
			f[j], f[j-1] = f[j-1], f[j]
		}
	}
}

// README forms, verbatim, with their AST.
func c09Readme(c *fw.Case) (ref.Selector, map[string]any) {
	each := ref.Dim{Kind: ref.DimEach}
	ix := func(i int) ref.Dim { return ref.Dim{Kind: ref.DimIndex, I: i} }
	doc := c09Doc(c)
	// give the README documents the shapes the README assumes
	data3 := make([]any, 2)
	for i := range data3 {
		d2 := make([]any, 2+c.Intn(2))
		for j := range d2 {
			d1 := make([]any, 3+c.Intn(2))
			for k := range d1 {
				d1[k] = float64(i*100 + j*10 + k)
			}
			d2[j] = d1
		}
		data3[i] = d2
	}
	doc["data"] = data3
	users := make([]any, 11+c.Intn(3))
	for i := range users {
		users[i] = map[string]any{"name": fmt.Sprintf("u%d", i), "id": float64(i), "email": []any{[]any{"a", "b"}}}
	}
	forms := []struct {
		sel ref.Selector
		fix func()
	}{
		{ref.Selector{Segments: []ref.Segment{{Steps: []ref.SelStep{ref.KeyStep{Name: "user"}, ref.KeyStep{Name: "name"}}}}}, nil},
		{ref.Selector{Segments: []ref.Segment{{Steps: []ref.SelStep{ref.KeyStep{Name: "users"}, ref.IndexStep{Dims: []ref.Dim{ix(0)}}, ref.KeyStep{Name: "name"}}}}}, func() { doc["users"] = users }},
		{ref.Selector{Segments: []ref.Segment{{Steps: []ref.SelStep{ref.KeyStep{Name: "data"}, ref.IndexStep{Dims: []ref.Dim{each, each, ix(0)}}}}}}, nil},
		{ref.Selector{Segments: []ref.Segment{{Steps: []ref.SelStep{ref.KeyStep{Name: "data"}, ref.IndexStep{Keep: true, Dims: []ref.Dim{ix(0), ix(1), ix(2)}}}}}}, nil},
		{ref.Selector{Segments: []ref.Segment{{Steps: []ref.SelStep{ref.KeyStep{Name: "users"}, ref.IndexStep{Dims: []ref.Dim{{Kind: ref.DimRange, M: 5, N: 10}}}}}}}, func() { doc["users"] = users }},
		{ref.Selector{Segments: []ref.Segment{{Steps: []ref.SelStep{ref.KeyStep{Name: "user"}, ref.PipeStep{Fields: []ref.PipeField{{Key: "id", Type: "string"}, {Key: "createdAt"}}}}}}}, nil},
		{ref.Selector{Segments: []ref.Segment{{Steps: []ref.SelStep{ref.KeyStep{Name: "user.name", Quoted: true}, ref.KeyStep{Name: "key"}}}}}, nil},
		{ref.Selector{Segments: []ref.Segment{{Steps: []ref.SelStep{ref.KeyStep{Name: "data"}, ref.IndexStep{Dims: []ref.Dim{each}}, ref.KeyStep{Name: "user"}}}, {Steps: []ref.SelStep{ref.IndexStep{Dims: []ref.Dim{ix(0)}}}}}},
			func() {
				doc["data"] = []any{map[string]any{"user": map[string]any{"id": 1.0}}, map[string]any{"user": map[string]any{"id": 2.0}}}
			}},
		{ref.Selector{Segments: []ref.Segment{{Fn: "mix", Steps: []ref.SelStep{ref.KeyStep{Name: "data"}, ref.IndexStep{Dims: []ref.Dim{each}}, ref.KeyStep{Name: "x"}, ref.IndexStep{Dims: []ref.Dim{each}}, ref.KeyStep{Name: "y"}}}}},
			func() {
				doc["data"] = []any{map[string]any{"x": []any{map[string]any{"y": 1.0}, map[string]any{"y": 2.0}}}, map[string]any{"x": []any{map[string]any{"y": 3.0}}}}
			}},
		{ref.Selector{Segments: []ref.Segment{{Steps: []ref.SelStep{ref.KeyStep{Name: "user"}, ref.PipeStep{Fields: []ref.PipeField{{Key: "id", Type: "number"}, {Key: "active", Type: "string"}}}}}}},
			func() { doc["user"] = map[string]any{"id": "42", "active": true} }},
		{ref.Selector{Segments: []ref.Segment{{Steps: []ref.SelStep{ref.KeyStep{Name: "users"}, ref.IndexStep{Dims: []ref.Dim{each, ix(0), ix(0)}}, ref.KeyStep{Name: "email"}}}}},
			func() {
				doc["users"] = []any{[]any{[]any{map[string]any{"email": "a"}}}, []any{[]any{map[string]any{"email": "b"}}}}
			}},
	}
	f := forms[c.Intn(len(forms))]
	if f.fix != nil {
		f.fix()
	}
	return f.sel, doc
}

func c09Grammar(c *fw.Case) {
	force := ""
	if c.Idx < 4*len(c09Floor) {
		force = c09Floor[c.Idx%len(c09Floor)]
	}
	var feats []string
	var sel ref.Selector
	var doc map[string]any
	if force == "readme.form" || (force == "" && c.Chance(0.05)) {
		sel, doc = c09Readme(c)
		feats = append(feats, "readme.form")
	} else {
		doc = c09Doc(c)
		sel = c09Selector(c, doc, force, &feats)
	}
	if force == "fn.distinct" || (force == "" && c.Chance(0.04)) {
		// distinct=> over an array reached through keys only (the document's own
		// slice is handed to the function) holding duplicates followed by other values
		doc["colors"] = []any{"red", "green", "red", "blue", "green", "black"}[:3+c.Intn(4)]
		doc["palette"] = map[string]any{"colors": []any{1.0, 1.0, 2.0, 1.0, 3.0, 2.0, 4.0}[:2+c.Intn(6)]}
		if c.Chance(0.5) {
			sel = ref.Selector{Segments: []ref.Segment{{Fn: "distinct", Steps: []ref.SelStep{ref.KeyStep{Name: "colors"}}}}}
		} else {
			sel = ref.Selector{Segments: []ref.Segment{{Fn: "distinct", Steps: []ref.SelStep{ref.KeyStep{Name: "palette"}, ref.KeyStep{Name: "colors"}}}}}
		}
		feats = append(feats, "fn.distinct", "key")
	}
	if force == "continue.fn-after-null" || (force == "" && c.Chance(0.03)) {
		// a function applied to a continuation whose previous result is NULL:
		// it is applied to NULL (or reported as unknown), not skipped
		first := ref.Segment{Steps: []ref.SelStep{ref.KeyStep{Name: gen.Pick(c.R, []string{"nokey", "zz_missing"})}}}
		if c.Chance(0.4) {
			first.Steps = append(first.Steps, ref.KeyStep{Name: gen.Pick(c.R, c09Keys)})
		}
		sel = ref.Selector{Segments: []ref.Segment{first, {Fn: gen.Pick(c.R, []string{"visnull", "vsize", "nosuchfn", "visnull"})}}}
		delete(doc, "nokey")
		delete(doc, "zz_missing")
		feats = append(feats, "continue", "continue.fn-after-null")
	}
	text := sel.Render()
	want, werr := ref.EvalSelector(sel, val.Copy(doc))
	if werr != nil && errors.Is(werr, ref.ErrDomain) {
		c.Discard("domain")
		c.Count("discard."+short(werr.Error(), 70), 1)
		return
	}
	c.Feature(feats...)
	nsteps := 0
	for _, sg := range sel.Segments {
		nsteps += len(sg.Steps)
	}
	c.Sample(map[string]any{"selector": text, "expected": val.Show(want), "expected_error": werr != nil})
	// the second evaluation (warm parse cache) runs on a document whose arrays
	// have other lengths: whatever the cache holds must not depend on the first document
	doc2 := resizeArrays(c, val.CopyMap(doc)).(map[string]any)
	want2, werr2 := ref.EvalSelector(sel, val.Copy(doc2))
	for pass, d := range []map[string]any{doc, doc2} {
		if pass == 1 {
			if werr2 != nil && errors.Is(werr2, ref.ErrDomain) {
				break
			}
			want, werr = want2, werr2
		}
		before := val.Snap(d)
		got, err, pan, stack := reader(d, text)
		det := map[string]any{"selector": text, "doc": d, "expected": val.Show(want), "expected_error": fmt.Sprint(werr), "observed": val.Show(got), "observed_error": fmt.Sprint(err), "pass": pass}
		if pan != nil {
			det["stack"] = firstN(stack, 30)
			c.Violate("panic", fmt.Sprintf("ExecReader(%q) panicked: %v", text, pan), det)
			return
		}
		if diff := before.Diff(val.Snap(d), 5); len(diff) > 0 {
			det["diff"] = diff
			c.Violate("doc-modified", fmt.Sprintf("ExecReader(%q) modified the document: %v", text, diff), det)
			return
		}
		if (err != nil) != (werr != nil) {
			c.Violate("error-ness", fmt.Sprintf("ExecReader(%q): error=%v, the documented meaning gives error=%v", text, err, werr), det)
			return
		}
		if err == nil && !sameSelValue(got, want) {
			c.Violate("value", fmt.Sprintf("ExecReader(%q) = %s, the documented meaning gives %s", text, short(val.Canon(got), 250), short(val.Canon(want), 250)), det)
			return
		}
	}
	c.Evals(2)
	if werr != nil || (nsteps >= 2 && want != nil) {
		c.Nontrivial(text + "|" + val.Canon(doc))
	}
}

// resizeArrays returns v with some arrays one element longer (a copy of an
// existing element appended) or one element shorter.
func resizeArrays(c *fw.Case, v any) any {
	switch t := v.(type) {
	case map[string]any:
		for k, x := range t {
			t[k] = resizeArrays(c, x)
		}
		return t
	case []any:
		for i, x := range t {
			t[i] = resizeArrays(c, x)
		}
		switch c.Intn(5) {
		case 0, 1:
			if len(t) > 0 {
				return append(t, val.Copy(t[c.Intn(len(t))]))
			}
		case 2:
			if len(t) > 1 {
				return t[:len(t)-1]
			}
		}
		return t
	}
	return v
}

// sameSelValue: Canon equality, except that nil slices and empty slices are
// the same array.
func sameSelValue(a, b any) bool { return val.Canon(normEmpty(a)) == val.Canon(normEmpty(b)) }

func normEmpty(v any) any {
	switch t := v.(type) {
	case []any:
		out := make([]any, len(t))
		for i, x := range t {
			out[i] = normEmpty(x)
		}
		return out
	case map[string]any:
		out := map[string]any{}
		for k, x := range t {
			out[k] = normEmpty(x)
		}
		return out
	}
	return v
}

func firstN(s string, n int) string {
	lines := 0
	for i := range s {
		if s[i] == '\n' {
			lines++
			if lines >= n {
				return s[:i]
			}
		}
	}
	return s
}

var c09Tokens = []string{"users", "data", "user", "name", "[", "]", "{", "}", "(", ")", ":", "::", "=>", "keep=>", "each", "begin", "end", "|", "string", "number", "'", ".", ",", " ",
	"0", "1", "-1", "99999999999999999999", "mix", "distinct", "<-", "*", "\\", "\x00", "é", "日", "[0", "(0:", ":)", "[]", "{}", "''", "[each", "|x"}

func c09Bytes(c *fw.Case) {
	doc := c09Doc(c)
	var text string
	switch c.Intn(3) {
	case 0: // token soup
		n := c.Intn(10)
		for i := 0; i < n; i++ {
			text += gen.Pick(c.R, c09Tokens)
		}
		c.Feature("bytes.tokens")
	case 1: // mutated grammar selector
		var fs []string
		text = c09Selector(c, doc, "", &fs).Render()
		b := []byte(text)
		for k := 0; k < 1+c.Intn(3) && len(b) > 0; k++ {
			i := c.Intn(len(b))
			switch c.Intn(4) {
			case 0:
				b = append(b[:i], b[i+1:]...)
			case 1:
				b = append(b[:i], append([]byte(gen.Pick(c.R, c09Tokens)), b[i:]...)...)
			case 2:
				b[i] = byte(c.Intn(256))
			default:
				j := c.Intn(len(b))
				b[i], b[j] = b[j], b[i]
			}
		}
		text = string(b)
		c.Feature("bytes.mutated")
	default: // random bytes
		n := c.Intn(24)
		b := make([]byte, n)
		for i := range b {
			if c.Chance(0.7) {
				const alpha = "[](){}:.|'=>-0123456789abkeach "
				b[i] = alpha[c.Intn(len(alpha))]
			} else {
				b[i] = byte(c.Intn(256))
			}
		}
		text = string(b)
		c.Feature("bytes.random")
	}
	before := val.Snap(doc)
	got, err, pan, stack := reader(doc, text)
	c.Sample(map[string]any{"selector_bytes": fmt.Sprintf("%q", text), "error": fmt.Sprint(err)})
	det := map[string]any{"selector": text, "selector_quoted": fmt.Sprintf("%q", text), "doc": val.Show(doc), "observed": val.Show(got), "observed_error": fmt.Sprint(err)}
	if pan != nil {
		det["stack"] = firstN(stack, 30)
		c.Violate("panic", fmt.Sprintf("ExecReader(%q) panicked: %v", text, pan), det)
		return
	}
	if diff := before.Diff(val.Snap(doc), 5); len(diff) > 0 {
		det["diff"] = diff
		c.Violate("doc-modified", fmt.Sprintf("ExecReader(%q) modified the document: %v", text, diff), det)
		return
	}
	if err != nil {
		c.Count("bytes.errors", 1)
	} else {
		c.Count("bytes.values", 1)
	}
	// the same text once more (the parse result of the first evaluation is in
	// the cache now): a text that was an error stays an error, a value stays
	// that value
	got2, err2, pan2, _ := reader(doc, text)
	if pan2 != nil || (err == nil) != (err2 == nil) || (err == nil && !strings.Contains(text, "mix") && !sameSelValue(got, got2)) {
		det["second_evaluation"], det["second_error"] = val.Show(got2), fmt.Sprint(err2, pan2)
		c.Violate("error-ness", fmt.Sprintf("ExecReader(%q) evaluated twice: first %s, then %s", text, short(fmt.Sprint(val.Show(got), " error=", err), 150), short(fmt.Sprint(val.Show(got2), " error=", err2, pan2), 150)), det)
		return
	}
	c.Nontrivial(text)
}

// c09Witness: selector witnesses carry the selector in SQL and the expected
// outcome in Kind (value | error).
func c09Witness(c *fw.Case, w *fw.Finding) {
	if w.Kind != "selector-value" && w.Kind != "selector-error" {
		sqlWitness(c, w)
		return
	}
	doc := val.Copy(w.Doc)
	got, err, pan, _ := reader(doc, w.SQL)
	c.Sample(map[string]any{"witness": w.ID, "selector": w.SQL, "observed": val.Show(got), "error": fmt.Sprint(err)})
	c.Nontrivial("witness:" + w.ID)
	det := map[string]any{"selector": w.SQL, "doc": w.Doc, "expected": w.Expect, "observed": val.Show(got), "observed_error": fmt.Sprint(err)}
	if pan != nil {
		c.Violate("panic", fmt.Sprintf("witness %s: ExecReader(%q) panicked: %v", w.ID, w.SQL, pan), det)
		return
	}
	if w.Kind == "selector-error" {
		if err == nil {
			c.Violate("error-ness", fmt.Sprintf("witness %s: expected an error", w.ID), det)
		}
		return
	}
	if err != nil {
		c.Violate("error-ness", fmt.Sprintf("witness %s: unexpected error %v", w.ID, err), det)
		return
	}
	if !sameSelValue(got, w.Expect) {
		c.Violate("value", fmt.Sprintf("witness %s: value differs", w.ID), det)
	}
}

// c09Registry: `fn=>` applies the function that is registered under the name -
// also when the application registers its own function under a name the
// library ships with. Every case is a process of its own (the registry is
// process-wide), registers at some point of its life and evaluates afterwards.
func c09Registry(c *fw.Case) {
	doc := map[string]any{"arr": []any{1.0, "1", 1.0, 2.0, "x"}, "nest": []any{[]any{1.0, 2.0}, []any{3.0}}}
	name := []string{"distinct", "mix"}[c.Idx%2]
	if c.Idx%4 < 2 {
		// the built-in has been used before the application registers its own
		if _, err, pan, _ := reader(val.CopyMap(doc), "distinct=>arr"); err != nil || pan != nil {
			c.Violate("error", fmt.Sprintf("distinct=> failed: %v %v", err, pan), map[string]any{"doc": doc})
			return
		}
		reader(val.CopyMap(doc), "mix=>nest")
	}
	genql.RegisterTopLevelFunction(name, func(v any) (any, error) {
		arr, ok := v.([]any)
		if !ok {
			return nil, fmt.Errorf("not an array")
		}
		return float64(len(arr)), nil // the application's function: counts
	})
	c.Feature("fn.reregistered")
	sel := strings.ToLower(name) + "=>arr"
	got, err, pan, _ := reader(val.CopyMap(doc), sel)
	c.Evals(1)
	c.Sample(map[string]any{"registered_as": name, "selector": sel, "observed": val.Show(got)})
	det := map[string]any{"registered_as": name, "selector": sel, "doc": doc, "observed": val.Show(got), "observed_error": fmt.Sprint(err)}
	if pan != nil {
		c.Violate("panic", fmt.Sprintf("panic: %v", pan), det)
		return
	}
	if err != nil || !val.Equal(got, 5.0) {
		c.Violate("value", fmt.Sprintf("`%s` does not apply the function registered under %q: got %s (error %v), the registered function returns 5", sel, name, short(val.Canon(got), 100), err), det)
		return
	}
	c.Nontrivial(sel + name)
}
