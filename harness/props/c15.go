package props

import (
	"fmt"
	"math"
	"math/big"
	"reflect"
	"strconv"
	"strings"

	"github.com/vedadiyan/genql/compare"

	"verifharness/internal/fw"
	"verifharness/internal/gen"
	"verifharness/internal/val"
)

// The finite representative domain of C15, enumerated exhaustively.
var (
	c15Nums []any
	c15Strs = []any{"", "0", "1", "1000000", "1e+06", "4000000", "4e+06", "123456789", "1.1", "0.1", "-2.7", "3.3", "1.10", "1.5", "10", "9", "-1", "-0.5", "a", "A", "ab", "b", "é", " 1", "1 ", "2", "127", "255", "256", "-128"}
)

func c15Add(v any) { c15Nums = append(c15Nums, v) }

func init() {
	base := []float64{math.MinInt64, math.MinInt32 - 1, math.MinInt32, -65536, -32769, -32768, -256, -129, -128, -127, -2, -1.5, -1, -0.5, 0, 0.5, 1, 1.5, 2, 3, 126, 127, 128, 255, 256,
		32767, 32768, 65535, 65536, math.MaxInt32 - 1, math.MaxInt32, math.MaxInt32 + 1, math.MaxUint32, math.MaxUint32 + 1, 1<<53 - 1, 1 << 53, 1<<53 + 2, 1 << 62, math.MaxInt64, math.MaxUint64}
	for _, f := range base {
		r := new(big.Rat)
		r.SetFloat64(f)
		fits := func(lo, hi float64) bool { return f == math.Trunc(f) && f >= lo && f <= hi }
		if fits(math.MinInt64, math.MaxInt64) && f < 9.3e18 {
			c15Add(int(f))
			c15Add(int64(f))
		}
		if fits(math.MinInt32, math.MaxInt32) {
			c15Add(int32(f))
		}
		if fits(math.MinInt16, math.MaxInt16) {
			c15Add(int16(f))
		}
		if fits(math.MinInt8, math.MaxInt8) {
			c15Add(int8(f))
		}
		if fits(0, math.MaxUint64) && f < 1.85e19 {
			c15Add(uint(f))
			c15Add(uint64(f))
		}
		if fits(0, math.MaxUint32) {
			c15Add(uint32(f))
		}
		if fits(0, math.MaxUint16) {
			c15Add(uint16(f))
		}
		if fits(0, math.MaxUint8) {
			c15Add(uint8(f))
		}
		if float64(float32(f)) == f {
			c15Add(float32(f))
		}
		c15Add(f)
	}
	// exact extremes that float64 cannot carry
	c15Add(int64(math.MaxInt64))
	c15Add(int(math.MaxInt64))
	c15Add(uint64(math.MaxUint64))
	c15Add(uint(math.MaxUint64))
	c15Add(int64(math.MaxInt64 - 1))
	c15Add(uint64(math.MaxUint64 - 1))
	c15Add(int64(1<<53 + 1))
	c15Add(uint64(1<<53 + 1))
	// fractions that are short in decimal but not dyadic: their float32 and
	// float64 images differ, and the float32 one prints short only at 32 bits
	for _, f := range []float64{1.1, 0.1, -2.7, 3.3, 16777217} {
		c15Add(f)
		c15Add(float32(f))
	}
	// integral values that print with an exponent as floats and without as integers
	for _, f := range []float64{1000000, 4000000, 123456789} {
		c15Add(f)
		c15Add(int(f))
		c15Add(int64(f))
		c15Add(uint32(f))
	}

	nPairs := func() int { n := len(c15Nums) + len(c15Strs); return n * n }
	fw.Register(&fw.Prop{
		ID:         "C15",
		Title:      "Value comparison is a coherent order across all numeric types and strings",
		Level:      "exploration",
		Exhaustive: true,
		Rule: "sorts of 33..72 rows (numeric-looking strings among them); comparisons with a computed operand over doubles that differ in their last bits; three-table joins with BETWEEN / NOT over the joined side's column. SQL phase also: ORDER BY with a second key over cross-type ties and with letter-initial strings among the numbers, float32 values that are not short in binary, negative zero, the same digits as a string and a numeric constant of one statement. exhaustive enumeration of a finite representative domain: every supported Go numeric type (int, int8..int64, uint, uint8..uint64, float32, float64) x boundary values the type holds exactly (min/max of every narrow type, +-1 around them, fractions, 2^31, 2^32, 2^53 +-1, 2^62, int64/uint64 extremes) " +
			"and strings (empty, numeric-looking, prefixes of each other, non-ASCII). Phase 'pairs' = ALL ordered pairs: result in {-1,0,1}, agreement with the exact order (math/big rationals; strings byte-wise; number vs string by the number's decimal text), reflexivity, antisymmetry. " +
			"Phase 'sql' drives the same comparison through the engine over tables whose key column mixes Go numeric types and numeric strings (small integral and dyadic values, where every engine path is defined): WHERE =,<,>=; IN (also lists of 9..14 literals); [NOT] BETWEEN with number and string bounds; ORDER BY; equi-joins (hash path) and equi-joins with an extra conjunct (nested-loop path) must keep / order / pair exactly what the exact order says. Phase 'triples' = ALL same-kind triples (thorough) or a seeded 10% sample (quick): transitivity. Non-trivial = a pair of two different values; distinct = distinct (type,value) pair.",
		Assumptions: []string{
			"'within the exactly-representable range': a mixed-type number pair is asserted when both values are exactly representable as float64 (|v| <= 2^53) or both are integers; same-type pairs are asserted over the type's full range",
			"number vs string pairs are asserted for every number below 1e15 in magnitude; the decimal text is the plain positional one (1000000, 0.0000001), never an exponent form",
		},
		MinNontrivial: 1000,
		Floor:         []string{"num-num.same-type", "num-num.mixed-type", "num-num.signed-unsigned", "num-num.int-float", "str-str", "num-str", "str-num", "triple.num", "triple.str", "sql.where", "sql.where.twin-constant", "sql.in", "sql.in.long", "sql.between", "sql.order", "sql.order.second-key", "sql.order.num-str", "sql.join.hash", "sql.join.loop", "sql.join.mixed-type", "sql.join.num-str", "sql.where.computed-operand", "sql.order.long", "sql.order.long.strings", "sql.join.three-tables"},
		Phases: []fw.Phase{
			{Name: "pairs", N: func(t fw.Tier) int { return nPairs() }, Run: c15Pair, Batch: 0},
			{Name: "sql", N: func(t fw.Tier) int { return pick(t, 1200, 20000) }, Run: c15SQL},
			{Name: "triples", N: func(t fw.Tier) int { n := len(c15Nums); return n*n + len(c15Strs)*len(c15Strs) }, Run: c15Triples},
		},
		Witness: func(c *fw.Case, w *fw.Finding) { c.Discard("no witness runner") },
	})
}

func c15All() []any { return append(append([]any{}, c15Nums...), c15Strs...) }

func isFloatKind(v any) bool {
	k := reflect.ValueOf(v).Kind()
	return k == reflect.Float32 || k == reflect.Float64
}
func isUnsigned(v any) bool {
	switch reflect.ValueOf(v).Kind() {
	case reflect.Uint, reflect.Uint8, reflect.Uint16, reflect.Uint32, reflect.Uint64:
		return true
	}
	return false
}

// exactDecimal is the number's decimal text (no exponent), or "" when the
// number is outside the asserted range for number-vs-string comparison.
func exactDecimal(v any) string {
	r := val.Rat(v)
	if r == nil {
		return ""
	}
	if r.IsInt() {
		return r.Num().String()
	}
	f, exact := r.Float64()
	if !exact {
		return ""
	}
	// the decimal text of a number is the text of its value: a float32 has the
	// text of the float64 holding the same value (numbers that are equal have
	// one text, so equality stays transitive across numbers and strings)
	s := strconv.FormatFloat(f, 'f', -1, 64)
	if strings.ContainsAny(s, "eE") {
		return ""
	}
	return s
}

// c15Expect returns the exact order of a and b, and whether the pair is in the
// asserted domain.
func c15Expect(a, b any) (int, bool, string) {
	an, bn := val.IsNumber(a), val.IsNumber(b)
	switch {
	case an && bn:
		ra, rb := val.Rat(a), val.Rat(b)
		sameType := reflect.TypeOf(a) == reflect.TypeOf(b)
		feat := "num-num.mixed-type"
		if sameType {
			feat = "num-num.same-type"
		} else {
			lim := new(big.Rat).SetFloat64(1 << 53)
			small := func(r *big.Rat) bool { return new(big.Rat).Abs(r).Cmp(lim) <= 0 }
			bothInt := !isFloatKind(a) && !isFloatKind(b)
			if !(small(ra) && small(rb)) && !bothInt {
				return 0, false, feat
			}
			// float32 values beyond 2^24 are still exact in float64; fine
			if isFloatKind(a) != isFloatKind(b) {
				feat = "num-num.int-float"
			} else if isUnsigned(a) != isUnsigned(b) && bothInt {
				feat = "num-num.signed-unsigned"
			}
		}
		return ra.Cmp(rb), true, feat
	case !an && !bn:
		return strings.Compare(a.(string), b.(string)), true, "str-str"
	case an:
		t := exactDecimal(a)
		if t == "" || (isFloatKind(a) && math.Abs(reflect.ValueOf(a).Float()) >= 1e15) {
			return 0, false, "num-str"
		}
		return strings.Compare(t, b.(string)), true, "num-str"
	default:
		t := exactDecimal(b)
		if t == "" || (isFloatKind(b) && math.Abs(reflect.ValueOf(b).Float()) >= 1e15) {
			return 0, false, "str-num"
		}
		return strings.Compare(a.(string), t), true, "str-num"
	}
}

func show15(v any) string { return fmt.Sprintf("%T(%v)", v, v) }

func c15Pair(c *fw.Case) {
	all := c15All()
	n := len(all)
	a, b := all[c.Idx/n], all[c.Idx%n]
	want, ok, feat := c15Expect(a, b)
	got := compare.Compare(a, b)
	rev := compare.Compare(b, a)
	if !ok {
		// outside the range in which the order itself is asserted the call is
		// still made (a comparison must not leave anything behind that changes
		// a later one), and it must still be a well-formed, antisymmetric answer
		if got != -1 && got != 0 && got != 1 {
			c.Violate("range", fmt.Sprintf("Compare(%s, %s) = %d, not in {-1,0,1}", show15(a), show15(b), got), map[string]any{"a": show15(a), "b": show15(b)})
			return
		}
		if rev != -got && !(val.IsNumber(a) && val.IsNumber(b)) {
			c.Violate("antisymmetry", fmt.Sprintf("Compare(%s, %s) = %d but Compare(%s, %s) = %d", show15(a), show15(b), got, show15(b), show15(a), rev), map[string]any{"a": show15(a), "b": show15(b)})
			return
		}
		c.Feature("unasserted-order." + feat)
		c.Count("pairs_outside_order_domain", 1)
		return
	}
	c.Feature(feat)
	c.Sample(map[string]any{"a": show15(a), "b": show15(b), "compare": got, "exact_order": want})
	det := map[string]any{"a": show15(a), "b": show15(b), "compare_ab": got, "compare_ba": rev, "exact_order": want}
	if got != -1 && got != 0 && got != 1 {
		c.Violate("range", fmt.Sprintf("Compare(%s, %s) = %d, not in {-1,0,1}", show15(a), show15(b), got), det)
		return
	}
	if got != want {
		c.Violate("wrong-order", fmt.Sprintf("Compare(%s, %s) = %d, the exact order is %d", show15(a), show15(b), got, want), det)
		return
	}
	if rev != -got {
		c.Violate("antisymmetry", fmt.Sprintf("Compare(%s, %s) = %d but Compare(%s, %s) = %d", show15(a), show15(b), got, show15(b), show15(a), rev), det)
		return
	}
	if c.Idx/n == c.Idx%n && got != 0 {
		c.Violate("reflexivity", fmt.Sprintf("Compare(%s, itself) = %d", show15(a), got), det)
		return
	}
	c.Evals(2)
	if want != 0 || c.Idx/n != c.Idx%n {
		c.Nontrivial(show15(a) + "|" + show15(b))
	}
}

// c15Triples: case = an ordered pair (a,b) of one kind; the case sweeps every
// c of that kind (thorough) or a seeded sample (quick) and checks
// a<=b && b<=c => a<=c (and the strict / equal variants) on the real Compare.
func c15Triples(c *fw.Case) {
	nn := len(c15Nums)
	var dom []any
	var a, b any
	kind := "num"
	if c.Idx < nn*nn {
		dom = c15Nums
		a, b = dom[c.Idx/nn], dom[c.Idx%nn]
	} else {
		kind = "str"
		dom = c15Strs
		i := c.Idx - nn*nn
		a, b = dom[i/len(dom)], dom[i%len(dom)]
	}
	inDomain := func(x, y any) bool { _, ok, _ := c15Expect(x, y); return ok }
	if !inDomain(a, b) {
		c.Discard("outside the exactly-representable range")
		return
	}
	ab := compare.Compare(a, b)
	checked := 0
	for _, z := range dom {
		if c.Tier != fw.Thorough && c.Intn(10) != 0 {
			continue
		}
		if !inDomain(b, z) || !inDomain(a, z) {
			continue
		}
		bz := compare.Compare(b, z)
		az := compare.Compare(a, z)
		checked++
		bad := false
		switch {
		case ab <= 0 && bz <= 0 && az > 0:
			bad = true
		case ab >= 0 && bz >= 0 && az < 0:
			bad = true
		case ab == 0 && bz == 0 && az != 0:
			bad = true
		case (ab < 0 && bz <= 0 || ab <= 0 && bz < 0) && az >= 0:
			bad = true
		}
		if bad {
			c.Violate("transitivity", fmt.Sprintf("Compare(%s,%s)=%d, Compare(%s,%s)=%d but Compare(%s,%s)=%d", show15(a), show15(b), ab, show15(b), show15(z), bz, show15(a), show15(z), az),
				map[string]any{"a": show15(a), "b": show15(b), "c": show15(z)})
			return
		}
	}
	if checked == 0 {
		c.Discard("no triple sampled")
		return
	}
	c.Feature("triple." + kind)
	c.Evals(checked)
	c.Count("triples_checked", checked)
	c.Sample(map[string]any{"a": show15(a), "b": show15(b), "third_values_checked": checked})
	c.Nontrivial("t|" + show15(a) + "|" + show15(b))
}

// c15SQLDomain: values at which the decimal text, the value comparison and the
// join key fingerprint are all defined and must agree.
var c15SQLNums = []any{int(1), int8(1), uint(1), float64(1), uint8(200), float64(200), int16(200), float32(2), int64(2), uint64(3), int32(3), float64(1.5), float32(1.5), int(-1), float64(-1), int8(-1),
	uint16(65535), int32(65535), float64(65535), uint32(70000), int(70000), float64(0), int(0), uint8(0), math.Copysign(0, -1), float32(0.25), float64(0.25), int64(42), float64(42), uint(42),
	// integers that print with an exponent as floats: here they come as integer types only
	int(1000003), int64(1000003), uint32(1000003), int(4000000), uint64(4000000), float64(1000003), float64(4000000), float64(1500000),
	// single-precision values that are not short in binary, next to the doubles of the same decimal text and of the same value
	float32(0.1), float64(0.1), float64(float32(0.1)), float32(0.3), float64(0.3), float64(0.30000001), float32(-0.7), float64(-0.7)}
var c15SQLStrs = []any{"1", "200", "3", "42", "1.5", "-1", "x", "0", "65535", "2", "1000003", "4000000", "1500000", "1e+06"}

// c15SQL: the comparison as WHERE, IN, ORDER BY and joins use it.
func c15SQL(c *fw.Case) {
	mk := func(n int, withStr bool) []any {
		rows := make([]any, n)
		for i := range rows {
			var k any
			if withStr && c.Chance(0.3) {
				k = c15SQLStrs[c.Intn(len(c15SQLStrs))]
			} else {
				k = c15SQLNums[c.Intn(len(c15SQLNums))]
			}
			rows[i] = map[string]any{"id": float64(i), "k": k}
		}
		return rows
	}
	exact := func(a, b any) int { w, _, _ := c15Expect(a, b); return w }
	// a numeric literal of the query text reaches the comparison as a float64
	outOfDomain := false
	asLit := func(v any) any {
		if val.IsNumber(v) {
			// the text the literal is written with (a float32 prints its shortest 32-bit form)
			f, _ := strconv.ParseFloat(fmt.Sprint(v), 64)
			return f
		}
		return v
	}
	exactLit := func(k, lit any) int {
		w, ok, _ := c15Expect(k, asLit(lit))
		if !ok {
			outOfDomain = true
		}
		return w
	}
	kind := c.Idx % 6
	withStr := c.Chance(0.5)
	lt, rt := mk(2+c.Intn(7), withStr), mk(2+c.Intn(7), withStr)
	doc := func() map[string]any { return map[string]any{"lt": val.Copy(lt), "rt": val.Copy(rt)} }
	keyOf := func(r any) any { return r.(map[string]any)["k"] }
	switch kind {
	case 0: // WHERE
		if c.Chance(0.3) {
			// one operand is computed: doubles that differ in their last bits
			// are different numbers for every operator
			pool := []float64{0.1 + 0.2, 0.3, 0.1, 0.2, 0.7, 0.7000000000000001, 4503599627370498, 4503599627370499, 4503599627370497, 1e15 + 0.5, 1e15 + 0.625, -0.3, -(0.1 + 0.2)}
			rows := make([]any, 3+c.Intn(8))
			for i := range rows {
				rows[i] = map[string]any{"id": float64(i), "k": pool[c.Intn(len(pool))]}
			}
			lit := pool[c.Intn(len(pool))]
			op := []string{"=", "<", ">=", "!=", "<=", ">"}[c.Intn(6)]
			lhs := gen.Pick(c.R, []string{"k * 1", "k + 0", "(k - 0)", "k / 1", "1 * k"})
			sql := fmt.Sprintf("SELECT id FROM lt WHERE %s %s %s", lhs, op, strconv.FormatFloat(lit, 'f', -1, 64))
			if c.Chance(0.3) {
				sql = fmt.Sprintf("SELECT id FROM lt WHERE %s %s %s", strconv.FormatFloat(lit, 'f', -1, 64), op, lhs)
				op = map[string]string{"=": "=", "!=": "!=", "<": ">", ">": "<", "<=": ">=", ">=": "<="}[op]
			}
			var want []any
			for _, r := range rows {
				k := r.(map[string]any)["k"].(float64)
				if map[string]bool{"=": k == lit, "<": k < lit, ">=": k >= lit, "!=": k != lit, "<=": k <= lit, ">": k > lit}[op] {
					want = append(want, r.(map[string]any)["id"])
				}
			}
			c.Feature("sql.where", "sql.where.computed-operand")
			c15SQLCheck(c, map[string]any{"lt": rows}, sql, want, "id", false)
			return
		}
		lit := c15SQLNums[c.Intn(len(c15SQLNums))]
		op := []string{"=", "<", ">=", "!=", "<=", ">"}[c.Intn(6)]
		sql := fmt.Sprintf("SELECT id FROM lt WHERE k %s %v", op, lit)
		// the same digits once more as a string constant of the same statement,
		// evaluated first: each constant keeps its own kind
		twin := c.Chance(0.3)
		litText := fmt.Sprint(lit)
		if twin {
			sql = fmt.Sprintf("SELECT id FROM lt WHERE k = '%s' OR k %s %v", litText, op, lit)
			c.Feature("sql.where.twin-constant")
		}
		var want []any
		for _, r := range lt {
			w := exactLit(keyOf(r), lit)
			keep := map[string]bool{"=": w == 0, "<": w < 0, ">=": w >= 0, "!=": w != 0, "<=": w <= 0, ">": w > 0}[op]
			if twin && !keep {
				ws, ok, _ := c15Expect(keyOf(r), litText)
				if !ok {
					outOfDomain = true
				}
				keep = ws == 0
			}
			if keep {
				want = append(want, r.(map[string]any)["id"])
			}
		}
		if outOfDomain {
			c.Discard("pair outside the asserted order domain")
			return
		}
		c.Feature("sql.where")
		c15SQLCheck(c, doc(), sql, want, "id", false)
	case 1: // IN
		var lits []string
		var lv []any
		for i := 0; i < 1+c.Intn(3); i++ {
			v := c15SQLNums[c.Intn(len(c15SQLNums))]
			lv = append(lv, v)
			lits = append(lits, fmt.Sprint(v))
		}
		sql := "SELECT id FROM lt WHERE k IN (" + strings.Join(lits, ", ") + ")"
		var want []any
		for _, r := range lt {
			for _, v := range lv {
				if exactLit(keyOf(r), v) == 0 {
					want = append(want, r.(map[string]any)["id"])
					break
				}
			}
		}
		if outOfDomain {
			c.Discard("pair outside the asserted order domain")
			return
		}
		c.Feature("sql.in")
		c15SQLCheck(c, doc(), sql, want, "id", false)
	case 4: // BETWEEN with number or string bounds
		lit := func() (any, string) {
			if c.Chance(0.5) {
				v := c15SQLStrs[c.Intn(len(c15SQLStrs))]
				return v, "'" + v.(string) + "'"
			}
			v := c15SQLNums[c.Intn(len(c15SQLNums))]
			return v, fmt.Sprint(v)
		}
		lo, loS := lit()
		hi, hiS := lit()
		neg := c.Chance(0.3)
		sql := "SELECT id FROM lt WHERE k " + map[bool]string{true: "NOT ", false: ""}[neg] + "BETWEEN " + loS + " AND " + hiS
		var want []any
		for _, r := range lt {
			a, ok1, _ := c15Expect(keyOf(r), asLit(lo))
			b, ok2, _ := c15Expect(keyOf(r), asLit(hi))
			if !ok1 || !ok2 {
				c.Discard("pair outside the asserted order domain")
				return
			}
			if (a >= 0 && b <= 0) != neg {
				want = append(want, r.(map[string]any)["id"])
			}
		}
		c.Feature("sql.between")
		c15SQLCheck(c, doc(), sql, want, "id", false)
	case 5: // IN with a long literal list
		var lits []string
		var lv []any
		for i := 0; i < 9+c.Intn(6); i++ {
			v := c15SQLNums[c.Intn(len(c15SQLNums))]
			lv = append(lv, v)
			lits = append(lits, fmt.Sprint(v))
		}
		neg := c.Chance(0.3)
		sql := "SELECT id FROM lt WHERE k " + map[bool]string{true: "NOT ", false: ""}[neg] + "IN (" + strings.Join(lits, ", ") + ")"
		var want []any
		for _, r := range lt {
			found := false
			for _, v := range lv {
				if exactLit(keyOf(r), v) == 0 {
					found = true
				}
			}
			if found != neg {
				want = append(want, r.(map[string]any)["id"])
			}
		}
		if outOfDomain {
			c.Discard("pair outside the asserted order domain")
			return
		}
		c.Feature("sql.in.long")
		c15SQLCheck(c, doc(), sql, want, "id", false)
	case 2: // ORDER BY (numbers only: a total order there)
		lt = mk(3+c.Intn(8), false)
		if c.Chance(0.3) {
			// a long result: whatever path large sorts take, the order is the same
			lt = mk(33+c.Intn(40), false)
			c.Feature("sql.order.long")
			if c.Chance(0.6) {
				// strings only, numeric-looking ones among them: byte-wise order
				for _, r := range lt {
					r.(map[string]any)["k"] = gen.Pick(c.R, []any{"9", "10", "100", "2", "-1", "1e3", "05", "5", "50", "abc", "A", "a", "", " 7", "7 ", "١"})
				}
				c.Feature("sql.order.long.strings")
			}
		} else if c.Chance(0.4) {
			// strings that begin with a letter sort after every number's decimal
			// text (digits and the minus sign come before letters): together
			// with the numbers they still form one total order
			for _, r := range lt {
				if c.Chance(0.35) {
					r.(map[string]any)["k"] = gen.Pick(c.R, []any{"A-17", "x", "abc", "B", "a", "Zed"})
				}
			}
			c.Feature("sql.order.num-str")
		}
		desc := c.Chance(0.5)
		sql := "SELECT id, k FROM lt ORDER BY k"
		if desc {
			sql += " DESC"
		}
		// a second key decides among rows whose first keys are equal by value,
		// whatever Go types they arrived as
		second, desc2 := c.Chance(0.6), c.Chance(0.5)
		if second {
			perm := c.R.Perm(len(lt))
			for i, r := range lt {
				r.(map[string]any)["t"] = float64(perm[i])
			}
			sql = "SELECT id, k, t FROM lt ORDER BY k" + map[bool]string{true: " DESC", false: ""}[desc] + ", t" + map[bool]string{true: " DESC", false: " ASC"}[desc2]
			c.Feature("sql.order.second-key")
		}
		o := Run(doc(), sql)
		c.Evals(1)
		c.Feature("sql.order")
		det := map[string]any{"sql": sql, "doc": val.Show(lt), "observed": o.Describe()}
		if !o.OK() || len(o.Rows) != len(lt) {
			c.Violate("sql-order", fmt.Sprintf("ORDER BY over mixed numeric types failed or lost rows: %v", short(fmt.Sprint(o.Describe()), 200)), det)
			return
		}
		for i := 1; i < len(o.Rows); i++ {
			w := exact(val.Deref(keyOf(o.Rows[i-1])), val.Deref(keyOf(o.Rows[i])))
			if desc {
				w = -w
			}
			if w > 0 {
				c.Violate("sql-order", fmt.Sprintf("ORDER BY placed %s before %s", show15(keyOf(o.Rows[i-1])), show15(keyOf(o.Rows[i]))), det)
				return
			}
			if w == 0 && second {
				ta, tb := val.Deref(o.Rows[i-1].(map[string]any)["t"]).(float64), val.Deref(o.Rows[i].(map[string]any)["t"]).(float64)
				if ta > tb != desc2 {
					c.Violate("sql-order", fmt.Sprintf("rows with equal first keys %s and %s are not ordered by the second key (%v then %v)", show15(keyOf(o.Rows[i-1])), show15(keyOf(o.Rows[i])), ta, tb), det)
					return
				}
			}
		}
		c.Nontrivial(sql + val.Canon(lt))
	default: // joins
		jn := []string{"JOIN", "LEFT JOIN", "HASH_JOIN", "PARALLEL JOIN", "STRAIGHT_JOIN"}[c.Intn(5)]
		on := "x.k = y.k"
		feat := "sql.join.hash"
		if c.Chance(0.5) {
			// not a pure conjunction of equalities: nested-loop path
			on = gen.Pick(c.R, []string{"x.k = y.k OR x.k = y.k", "x.k >= y.k AND x.k <= y.k", "x.k = y.k AND x.id <= x.id"})
			feat = "sql.join.loop"
		}
		sql := "SELECT x.id AS l, y.id AS r FROM lt x " + jn + " rt y ON " + on
		if c.Chance(0.2) {
			// the left side is itself a join: its columns are compared by
			// value inside BETWEEN and NOT like anywhere else
			on3 := gen.Pick(c.R, []string{"z.k BETWEEN y.k AND y.k", "x.k BETWEEN y.k AND y.k", "NOT (x.k < y.k) AND NOT (x.k > y.k)", "NOT (x.k != y.k)", "x.k = y.k AND z.k BETWEEN y.k AND y.k"})
			sql = "SELECT x.id AS l, y.id AS r FROM lt x JOIN lt z ON x.id = z.id " + jn + " rt y ON " + on3
			feat = "sql.join.three-tables"
		}
		var want []any
		for _, l := range lt {
			for _, r := range rt {
				if exact(keyOf(l), keyOf(r)) == 0 {
					want = append(want, fmt.Sprint(l.(map[string]any)["id"], "-", r.(map[string]any)["id"]))
					if reflect.TypeOf(keyOf(l)) != reflect.TypeOf(keyOf(r)) {
						if val.IsNumber(keyOf(l)) != val.IsNumber(keyOf(r)) {
							c.Feature("sql.join.num-str")
						} else {
							c.Feature("sql.join.mixed-type")
						}
					}
				}
			}
		}
		c.Feature(feat)
		o := Run(doc(), sql)
		c.Evals(1)
		det := map[string]any{"sql": sql, "left": val.Show(lt), "right": val.Show(rt), "observed": o.Describe(), "expected_pairs": want}
		if !o.OK() {
			c.Violate("sql-join", fmt.Sprintf("join over mixed key types failed: %v", short(fmt.Sprint(o.Describe()), 200)), det)
			return
		}
		var got []any
		for _, r := range o.Rows {
			m, _ := r.(map[string]any)
			if m == nil || m["r"] == nil || m["l"] == nil {
				continue // unmatched row of an outer join
			}
			got = append(got, fmt.Sprint(val.Deref(m["l"]), "-", val.Deref(m["r"])))
		}
		if !val.SameMultiset(got, want) {
			c.Violate("sql-join", fmt.Sprintf("the join paired %v, the value comparison calls exactly %v equal", got, want), det)
			return
		}
		if len(want) > 0 {
			c.Nontrivial(sql + val.Canon(lt) + val.Canon(rt))
		}
	}
}

func c15SQLCheck(c *fw.Case, doc map[string]any, sql string, want []any, col string, _ bool) {
	o := Run(doc, sql)
	c.Evals(1)
	det := map[string]any{"sql": sql, "doc": val.Show(doc), "observed": o.Describe(), "expected": want}
	if !o.OK() {
		c.Violate("sql-filter", fmt.Sprintf("query failed: %v", short(fmt.Sprint(o.Describe()), 200)), det)
		return
	}
	var got []any
	for _, r := range o.Rows {
		got = append(got, val.Deref(r.(map[string]any)[col]))
	}
	if !val.SameSeq(got, want) {
		c.Violate("sql-filter", fmt.Sprintf("`%s` kept ids %v, the exact order keeps %v", sql, got, want), det)
		return
	}
	if len(want) > 0 && len(want) < len(doc["lt"].([]any)) {
		c.Nontrivial(sql + val.Canon(doc))
	}
}
