// Package props holds one monitor per property C01..C20. Each runs the real
// genql code on generated workloads and judges what it observes at the API
// boundary.
package props

import (
	"fmt"
	"math/rand/v2"
	"runtime/debug"
	"sort"
	"strings"
	"time"

	"github.com/vedadiyan/genql"

	"verifharness/internal/fw"
	"verifharness/internal/gen"
	"verifharness/internal/val"
)

// Outcome is what the caller of New + Exec observes.
type Outcome struct {
	Rows  []any
	Err   error
	Panic any    // non-nil when a panic escaped New or Exec
	Stack string // stack of the escaped panic
	Stage string // "new" or "exec": where Err / Panic came from
}

func (o Outcome) OK() bool { return o.Err == nil && o.Panic == nil }

func (o Outcome) Describe() any {
	if o.Panic != nil {
		return fmt.Sprintf("PANIC in %s: %v", o.Stage, o.Panic)
	}
	if o.Err != nil {
		return fmt.Sprintf("ERROR in %s: %v", o.Stage, o.Err)
	}
	return val.Show(o.Rows)
}

// Run constructs and executes a query, catching an escaped panic.
func Run(doc map[string]any, sql string, opts ...genql.QueryOption) (out Outcome) {
	defer func() {
		if r := recover(); r != nil {
			out.Panic = r
			out.Stack = string(debug.Stack())
			out.Rows = nil
		}
	}()
	out.Stage = "new"
	q, err := genql.New(doc, sql, opts...)
	if err != nil {
		out.Err = err
		return
	}
	out.Stage = "exec"
	rows, err := q.Exec()
	if err != nil {
		out.Err = err
		if rows != nil {
			out.Rows = rows
		}
		return
	}
	out.Rows = rows
	return
}

// OptSet is the 2^3 option space of C10/C17.
type OptSet struct{ Wrapped, PG, Idiomatic bool }

func (o OptSet) Options() []genql.QueryOption {
	var out []genql.QueryOption
	if o.Wrapped {
		out = append(out, genql.Wrapped())
	}
	if o.PG {
		out = append(out, genql.PostgresEscapingDialect())
	}
	if o.Idiomatic {
		out = append(out, genql.IdomaticArrays())
	}
	return out
}

func (o OptSet) Names() []string {
	var out []string
	if o.Wrapped {
		out = append(out, "Wrapped")
	}
	if o.PG {
		out = append(out, "PostgresEscapingDialect")
	}
	if o.Idiomatic {
		out = append(out, "IdomaticArrays")
	}
	return out
}

func OptsFromNames(names []string) OptSet {
	var o OptSet
	for _, n := range names {
		switch n {
		case "Wrapped":
			o.Wrapped = true
		case "PostgresEscapingDialect":
			o.PG = true
		case "IdomaticArrays":
			o.Idiomatic = true
		}
	}
	return o
}

// Rids extracts the "rid" identity column of each row (nil when absent).
func Rids(rows []any) []any {
	out := make([]any, len(rows))
	for i, r := range rows {
		if m, ok := r.(map[string]any); ok {
			out[i] = m["rid"]
		}
	}
	return out
}

func ridsOfRows(rows []map[string]any) []any {
	out := make([]any, len(rows))
	for i, r := range rows {
		out[i] = r["rid"]
	}
	return out
}

// DocOf builds a document holding the given tables (deep-copied so that the
// generator's tables stay pristine for the reference model).
func DocOf(tables ...*gen.Table) map[string]any {
	doc := map[string]any{}
	for _, t := range tables {
		doc[t.Name] = val.Copy(t.Array())
	}
	return doc
}

func tablesOf(tables ...*gen.Table) map[string][]map[string]any {
	m := map[string][]map[string]any{}
	for _, t := range tables {
		m[t.Name] = t.Rows
	}
	return m
}

func dedupe(xs []string) []string {
	sort.Strings(xs)
	out := xs[:0]
	for i, x := range xs {
		if i == 0 || x != xs[i-1] {
			out = append(out, x)
		}
	}
	return out
}

func short(s string, n int) string {
	if len(s) <= n {
		return s
	}
	return s[:n] + "…"
}

// sqlWitness runs the generic part of a known-findings witness: a document, a
// query, options and an expectation.
//
//	kind rows     : Exec succeeds and rows == expect as a sequence
//	kind multiset : … as a multiset
//	kind error    : New or Exec returns an error (no panic, no rows)
//	kind noerror  : New+Exec succeed (no panic)
//	kind nopanic  : no panic escapes (error or success both fine)
func sqlWitness(c *fw.Case, w *fw.Finding) {
	doc, _ := val.Copy(w.Doc).(map[string]any)
	if doc == nil {
		doc = map[string]any{}
	}
	before := val.Snap(doc)
	o := Run(doc, w.SQL, OptsFromNames(w.Options).Options()...)
	detail := map[string]any{"sql": w.SQL, "doc": w.Doc, "options": w.Options, "expected": w.Expect, "observed": o.Describe()}
	c.Sample(map[string]any{"witness": w.ID, "sql": w.SQL, "observed": o.Describe()})
	c.Nontrivial("witness:" + w.ID)
	if o.Panic != nil {
		c.Violate("panic", fmt.Sprintf("witness %s: panic escaped: %v", w.ID, o.Panic), detail)
		return
	}
	switch w.Kind {
	case "rows", "multiset":
		if o.Err != nil {
			c.Violate("error", fmt.Sprintf("witness %s: unexpected error: %v", w.ID, o.Err), detail)
			return
		}
		exp, _ := w.Expect.([]any)
		same := val.SameSeq(o.Rows, exp)
		if w.Kind == "multiset" {
			same = val.SameMultiset(o.Rows, exp)
		}
		if !same {
			c.Violate("wrong-result", fmt.Sprintf("witness %s: result differs from the expected rows", w.ID), detail)
		}
	case "error":
		if o.Err == nil {
			c.Violate("no-error", fmt.Sprintf("witness %s: expected an error, got rows", w.ID), detail)
		} else if o.Rows != nil {
			c.Violate("rows-with-error", fmt.Sprintf("witness %s: rows returned together with an error", w.ID), detail)
		}
	case "noerror":
		if o.Err != nil {
			c.Violate("error", fmt.Sprintf("witness %s: unexpected error: %v", w.ID, o.Err), detail)
		}
	case "nopanic":
	case "unchanged":
	default:
		c.Discard("unknown witness kind " + w.Kind)
		return
	}
	if w.Kind == "unchanged" || (w.Extra != nil && w.Extra["doc_unchanged"] == true) {
		if d := before.Diff(val.Snap(doc), 5); len(d) > 0 {
			detail["diff"] = d
			c.Violate("input-modified", fmt.Sprintf("witness %s: the input document was modified: %s", w.ID, strings.Join(d, "; ")), detail)
		}
	}
}

func sleepMs(n int) { time.Sleep(time.Duration(n) * time.Millisecond) }

// nativize replaces the integral float64 values of one column of a table by
// natively typed Go integers (documents built in Go rather than decoded from
// JSON carry them); fractional values stay float64. The reference model keeps
// working on the float64 image, which denotes the same numbers.
// nativizeMixed gives every row's whole number a Go type of its own (or leaves
// it a float64): equal numbers meet under different types within one column.
func nativizeMixed(r0 *rand.Rand, rows []any, col string) {
	for _, r := range rows {
		m, ok := r.(map[string]any)
		if !ok {
			continue
		}
		f, ok := m[col].(float64)
		if !ok || f != float64(int64(f)) || f > 1e9 || f < -1e9 {
			continue
		}
		switch r0.IntN(6) {
		case 0:
			m[col] = int(f)
		case 1:
			m[col] = int64(f)
		case 2:
			m[col] = int32(f)
		case 3:
			if f >= 0 {
				m[col] = uint(f)
			}
		case 4:
			m[col] = float32(f)
		}
	}
}

func nativize(c *fw.Case, rows []any, col string) {
	kind := c.Intn(11)
	for _, r := range rows {
		m, ok := r.(map[string]any)
		if !ok {
			continue
		}
		f, ok := m[col].(float64)
		if ok && kind == 9 && float64(float32(f)) == f {
			m[col] = float32(f) // exactly representable fractions and integers
			continue
		}
		if !ok || f != float64(int64(f)) || f > 1e15 || f < -1e15 {
			continue
		}
		switch kind {
		case 4:
			if f >= -128 && f <= 127 {
				m[col] = int8(f)
			} else {
				m[col] = int64(f)
			}
		case 5:
			if f >= -32768 && f <= 32767 {
				m[col] = int16(f)
			} else {
				m[col] = int64(f)
			}
		case 6:
			if f >= 0 && f <= 255 {
				m[col] = uint8(f)
			} else {
				m[col] = int16(f)
				if f < -32768 || f > 32767 {
					m[col] = int(f)
				}
			}
		case 7:
			if f >= 0 && f <= 65535 {
				m[col] = uint16(f)
			} else {
				m[col] = int(f)
			}
		case 8:
			if f >= 0 && f <= 4294967295 {
				m[col] = uint32(f)
			} else {
				m[col] = int64(f)
			}
		case 10:
			if f >= 0 {
				m[col] = uint(f)
			} else if f >= -2147483648 {
				m[col] = int32(f)
			} else {
				m[col] = int64(f)
			}
		case 0:
			m[col] = int(f)
		case 1:
			m[col] = int64(f)
		case 2:
			if f >= -2147483648 && f <= 2147483647 {
				m[col] = int32(f)
			} else {
				m[col] = int64(f)
			}
		default:
			if f >= 0 {
				m[col] = uint64(f)
			} else {
				m[col] = int(f)
			}
		}
	}
}
