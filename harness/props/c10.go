package props

import (
	"fmt"
	"strings"
	"sync/atomic"
	"time"

	"github.com/vedadiyan/genql"

	"verifharness/internal/fw"
	"verifharness/internal/gen"
	"verifharness/internal/val"
)

var c10Families = []string{"valid", "mutated", "bytes", "natural-join", "union-chain", "cte-cycle", "brackets", "quotes", "from-path", "parallel-fail", "bg-fail", "await", "distinct-subq-star",
	"object-compare", "group-object", "limit-weird", "deep-nesting", "doc-shape", "native-types", "nil-doc", "vars-nil", "selector-in-sql", "parallel-fresh", "reexec", "parallel-vars", "many-inner", "marker-select", "nested-slots", "parallel-many-fail", "order-null-keys", "parallel-like"}

func init() {
	floor := []string{}
	for _, f := range c10Families {
		floor = append(floor, "family."+f)
	}
	for i := 0; i < 8; i++ {
		floor = append(floor, fmt.Sprintf("opts.%d", i))
	}
	floor = append(floor, "bg.async", "bg.spin", "bg.spinasync", "bg.once", "bg.error", "bg.panic(error)", "bg.panic(string)", "bg.panic(runtime error)", "bg.argument-fails", "bg.reads-derived-row", "union-chain.long", "outcome.error", "outcome.rows")
	// background-call bookkeeping for SPIN: the check waits for stragglers so
	// that a panic in a detached goroutine is attributed to the right case
	genql.RegisterFunction("vbg", func(q *genql.Query, cur genql.Map, o *genql.FunctionOptions, args []any) (any, error) {
		bgStarted.Add(1)
		defer bgFinished.Add(1)
		if fault.syncOnly.Load() {
			if len(args) == 0 {
				return true, nil
			}
			return args[0], nil
		}
		return vfail(q, cur, o, args)
	})
	// a background call that reads all of its arguments (a row handed to it is walked)
	genql.RegisterFunction("vbgread", func(q *genql.Query, cur genql.Map, o *genql.FunctionOptions, args []any) (any, error) {
		bgStarted.Add(1)
		defer bgFinished.Add(1)
		n := 0
		for i := 0; i < 20; i++ {
			n += len(fmt.Sprint(args...))
		}
		return float64(n), nil
	})
	// an immediate function registered under a name that is not all lower case
	genql.RegisterImmediateFunction("VImmMixed", func(q *genql.Query, cur genql.Map, o *genql.FunctionOptions, args []any) (any, error) {
		return vfail(q, cur, o, args)
	})
	genql.RegisterImmediateFunction("vimm", func(q *genql.Query, cur genql.Map, o *genql.FunctionOptions, args []any) (any, error) {
		return vfail(q, cur, o, args)
	})
	fw.Register(&fw.Prop{
		ID:    "C10",
		Title: "No query, option set or input can crash or hang the host process",
		Level: "exploration",
		Rule: "union chains of 24..39 branches; DISTINCT * inside EXISTS. background calls one of whose arguments fails or panics; background calls that read whole rows of a derived table. further families: chains of >= 3 pending results, PARALLEL joins with 130..330 key groups whose ON fails or panics for all / most / five of them, several sort keys with NULLs, LIKE in the ON of PARALLEL joins, a pending result awaited through the register it is stored in, the marker as FROM table and in more spellings, a panicking UnReportedErrors handler. USING joins with 1..5 columns; the marker also as `<-.<-`, '<-', `<-<-`. further families: the same Query executed 2..3 times (first run possibly faulted), PARALLEL joins whose ON touches the variable store, multi-dimensional FROM with 24..63 inner arrays (a per-child heap bound of 3 GiB next to the time watchdog), the bare `<-` marker carried through DISTINCT / GROUP BY / joins / ORDER BY. each case = a query from one of 28 families x one of the 2^3 option sets x a document variant, run through New+Exec inside a crash-isolated child: valid queries of every shape; token-mutated queries; random byte strings and truncations; and the hostile forms the property names, generated systematically - " +
			"NATURAL [LEFT|RIGHT] JOIN, UNION chains of 2..5, self- and mutually-referencing CTEs (cycles of length 1..3), unbalanced [ ] under IdiomaticArrays, unterminated quotes under PostgresEscapingDialect, out-of-range / wrong-shape FROM paths, PARALLEL joins whose ON fails or panics on some pair, " +
			"ASYNC./SPIN./SPINASYNC./ONCE. calls of a harness function that returns an error or panics (error value, string, runtime error) at its k-th invocation, AWAIT forms, SELECT DISTINCT (subquery), *, object comparisons, GROUP BY on objects, absurd LIMITs, 150-deep nesting, scalar/empty/deep/natively-typed documents, nil document, SETVAR without a variable map. " +
			"Monitors: recover() around New/Exec (an escaped panic is a violation), process exit status (fatal error, goroutine panic: the parent attributes it to the case begun last and re-runs it alone), a per-case watchdog (hang: confirmed by re-running alone with 120 s), and a bounded wait for background function calls to finish after each case. " +
			"Non-trivial = any executed case (each observes 'returned control with rows or an error'); distinct = distinct (SQL, options, document).",
		Assumptions: []string{
			"'never loops forever' is decided as bounded progress: every call returns within the watchdog on inputs of the generated sizes",
			"case lists are seeded and deterministic (no coverage-guided fuzzing), so the unchanged tree cannot surface a new crash at random",
		},
		Floor:         floor,
		MinNontrivial: 500,
		Phases: []fw.Phase{
			{Name: "robust", N: func(t fw.Tier) int { return pick(t, 60000, 2000000) }, Run: c10Run},
			{Name: "robust-race", Race: true, RaceInfoOnly: true, N: func(t fw.Tier) int { return pick(t, 0, 20000) }, Run: c10Run},
		},
		Witness: c10Witness,
	})
}

var bgStarted, bgFinished atomic.Int64

// waitBackground waits (bounded) until every background function call begun
// so far has finished.
func waitBackground() bool {
	for i := 0; i < 4000; i++ {
		if bgStarted.Load() == bgFinished.Load() {
			return true
		}
		time.Sleep(5 * time.Millisecond)
	}
	return false
}

var c10Keywords = []string{"NATURAL", "UNION", "WITH", "SELECT", "FROM", "WHERE", "JOIN", "ON", "(", ")", "[", "]", "'", "\"", "`", ",", "AS", "ALL", "DISTINCT", "GROUP BY", "HAVING", "ORDER BY", "LIMIT", "OFFSET",
	"NULL", "NOT", "IN", "EXISTS", "CASE", "WHEN", "END", "ASYNC.", "SPIN.", "ONCE.", "GLOBAL.", "<-", "=>", "::", "*", "-", "--", "/*", "*/", ";", "\\", "LEFT", "PARALLEL", "HASH_JOIN", "INTO", "x", "1", "dual", "USING", "BETWEEN", "LIKE", "IS", "%", "$1", "AWAIT(", "FUSE(", "RAISE("}

func tokenize(sql string) []string {
	var toks []string
	cur := ""
	flush := func() {
		if cur != "" {
			toks = append(toks, cur)
			cur = ""
		}
	}
	for _, r := range sql {
		switch {
		case r == ' ':
			flush()
		case strings.ContainsRune("(),'\"`[]=<>.*+-", r):
			flush()
			toks = append(toks, string(r))
		default:
			cur += string(r)
		}
	}
	flush()
	return toks
}

func mutateSQL(c *fw.Case, sql string) string {
	toks := tokenize(sql)
	n := 1 + c.Intn(3)
	for k := 0; k < n && len(toks) > 0; k++ {
		i := c.Intn(len(toks))
		switch c.Intn(6) {
		case 0:
			toks = append(toks[:i], toks[i+1:]...)
		case 1:
			toks = append(toks[:i], append([]string{toks[i]}, toks[i:]...)...)
		case 2:
			j := c.Intn(len(toks))
			toks[i], toks[j] = toks[j], toks[i]
		case 3:
			toks = append(toks[:i], append([]string{gen.Pick(c.R, c10Keywords)}, toks[i:]...)...)
		case 4:
			toks[i] = gen.Pick(c.R, c10Keywords)
		default:
			toks = toks[:i]
		}
	}
	return strings.Join(toks, " ")
}

type c10Case struct {
	sql    string
	doc    map[string]any
	opts   OptSet
	extra  []genql.QueryOption
	faultK int
	mode   int32
	feats  []string
	bg     bool
	execs  int // > 1: New once, Exec this many times on the same Query
}

func c10Build(c *fw.Case) c10Case {
	fam := c10Families[c.Idx%len(c10Families)]
	if c.Idx >= 6*len(c10Families) {
		// after the systematic prefix: weight towards the generative families
		fam = gen.Pick(c.R, append([]string{"valid", "mutated", "mutated", "mutated", "bytes", "bg-fail", "parallel-fail", "parallel-fresh", "parallel-fresh"}, c10Families...))
	}
	oi := (c.Idx / len(c10Families)) % 8
	if c.Idx >= 8*len(c10Families) {
		oi = c.Intn(8)
	}
	cs := c10Case{opts: OptSet{Wrapped: oi&1 != 0, PG: oi&2 != 0, Idiomatic: oi&4 != 0}}
	cs.feats = append(cs.feats, "family."+fam, fmt.Sprintf("opts.%d", oi))
	d := newRichDoc(c)
	cs.doc = d.fresh()
	form := func() string {
		f := richForms[c.Intn(len(richForms))]
		return f.build(c, d, "VFAIL")
	}
	switch fam {
	case "valid":
		cs.sql = form()
	case "mutated":
		cs.sql = mutateSQL(c, form())
	case "bytes":
		switch c.Intn(3) {
		case 0:
			s := form()
			cs.sql = s[:c.Intn(len(s)+1)]
		case 1:
			n := c.Intn(40)
			b := make([]byte, n)
			for i := range b {
				b[i] = byte(c.Intn(256))
			}
			cs.sql = string(b)
		default:
			n := c.Intn(12)
			for i := 0; i < n; i++ {
				cs.sql += gen.Pick(c.R, c10Keywords) + " "
			}
		}
	case "natural-join":
		cs.sql = "SELECT * FROM t1 " + gen.Pick(c.R, []string{"NATURAL JOIN", "NATURAL LEFT JOIN", "NATURAL RIGHT JOIN", "NATURAL LEFT OUTER JOIN"}) + " u1" + gen.Pick(c.R, []string{"", " WHERE n1 > 0", " x"})
		if c.Chance(0.5) {
			// USING with one, two, three and repeated columns
			jn := gen.Pick(c.R, []string{"JOIN", "LEFT JOIN", "RIGHT JOIN", "HASH_JOIN", "STRAIGHT_JOIN", "PARALLEL JOIN", "PARALLEL LEFT JOIN"})
			cols := gen.Pick(c.R, []string{"rid", "rid, n1", "rid, n1, s1", "n1, n1", "nosuch, rid", "rid, n1, s1, b1, n2"})
			cs.sql = "SELECT * FROM t1 x " + jn + " t1 y USING (" + cols + ")" + gen.Pick(c.R, []string{"", " WHERE x.n1 >= 0", " LIMIT 2"})
			if c.Chance(0.3) {
				cs.sql = "SELECT * FROM t1 x " + jn + " u1 y USING (" + gen.Pick(c.R, []string{"un1", "un1, us1", "rid, un1"}) + ")"
			}
		}
	case "union-chain":
		k := 2 + c.Intn(4)
		if c.Chance(0.15) {
			// long chains: the work grows with the number of branches, not faster
			k = 24 + c.Intn(16)
			cs.feats = append(cs.feats, "union-chain.long")
		}
		parts := make([]string, k)
		for i := range parts {
			parts[i] = gen.Pick(c.R, []string{"SELECT n1 AS v FROM t1", "SELECT un1 AS v FROM u1", "SELECT 1 AS v FROM dual", "SELECT * FROM t1", "SELECT nosuch AS v FROM nowhere"})
		}
		cs.sql = parts[0]
		for i := 1; i < k; i++ {
			cs.sql += gen.Pick(c.R, []string{" UNION ", " UNION ALL "}) + parts[i]
		}
		cs.sql += gen.Pick(c.R, []string{"", " LIMIT 2", " LIMIT 3 OFFSET 9", " ORDER BY v"})
	case "cte-cycle":
		switch c.Intn(4) {
		case 0:
			cs.sql = "WITH a AS (SELECT * FROM a) SELECT * FROM a"
		case 1:
			cs.sql = "WITH a AS (SELECT * FROM b), b AS (SELECT * FROM a) SELECT * FROM " + gen.Pick(c.R, []string{"a", "b"})
		case 2:
			cs.sql = "WITH a AS (SELECT * FROM b), b AS (SELECT * FROM c), c AS (SELECT * FROM a) SELECT * FROM " + gen.Pick(c.R, []string{"a", "b", "c"})
		default:
			cs.sql = "WITH a AS (SELECT rid, (SELECT rid FROM `<-a`) AS s FROM t1) SELECT * FROM a x JOIN a y ON x.rid = y.rid"
		}
	case "brackets":
		cs.opts.Idiomatic = c.Chance(0.8)
		cs.sql = gen.Pick(c.R, []string{"SELECT [1, 2 AS a FROM dual", "SELECT 1] AS a FROM dual", "SELECT [[1] AS a FROM dual", "SELECT [1]] AS a FROM dual", "SELECT ']' AS a, [1 AS b FROM dual", "SELECT [ AS a FROM dual", "SELECT ] FROM dual",
			"SELECT [1, [2, [3]]] AS a FROM t1", "SELECT `a[` AS x, [1] AS b FROM t1", "SELECT '\\' AS a, [1] AS b FROM dual", "][", "[[[[[[[[[[", "SELECT [1] AS a FROM `t1[0`"})
	case "quotes":
		cs.opts.PG = c.Chance(0.8)
		cs.sql = gen.Pick(c.R, []string{"SELECT \"a FROM t1", "SELECT 'a FROM t1", "SELECT `a FROM t1", "SELECT 'a\\", "SELECT \"a\\", "SELECT \"a\\\"", "SELECT \"\" FROM t1", "SELECT '' AS \"\" FROM \"t1\"", "\"", "'", "`", "SELECT \"n1\", 'x\\' FROM \"t1\"", "SELECT \"a\"\"b\" FROM t1"})
	case "from-path":
		cs.sql = "SELECT * FROM `" + gen.Pick(c.R, []string{"t1[99]", "t1[(0:99)]", "t1[(3:1)]", "t1[each:0]", "meta[0]", "t1.s1.x", "mm[0:9:9]", "mm[each:each:each:each]", "t1[-1]", "t1[keep=>9]", "t1{n1|date}", "nosuchfn=>t1", "mix=>meta", "t1::[99]", "meta.ip.x", "t1[0].arr[5]", "<-<-<-t1", "t1[(begin:99)]", ""}) + "`" + gen.Pick(c.R, []string{"", " x", " WHERE n1 > 0"})
	case "parallel-fail":
		j := gen.Pick(c.R, []string{"PARALLEL JOIN", "PARALLEL LEFT JOIN", "PARALLEL RIGHT JOIN", "PARALLEL HASH_JOIN", "PARALLEL LEFT HASH_JOIN", "PARALLEL STRAIGHT_JOIN"})
		switch c.Intn(3) {
		case 0:
			cs.sql = "SELECT * FROM t1 x " + j + " u1 y ON x.n1 = y.un1 AND VFAIL(true)"
			cs.faultK, cs.mode = 1+c.Intn(4), int32(1+c.Intn(4))
		case 1:
			cs.sql = "SELECT * FROM t1 x " + j + " u1 y ON x.n1 = y.un1 AND 5"
		default:
			cs.sql = "SELECT * FROM t1 x " + j + " u1 y ON x.n1 >= y.un1 OR VFAIL(x.b1)"
			cs.faultK, cs.mode = 1+c.Intn(4), int32(1+c.Intn(4))
		}
	case "bg-fail":
		q := gen.Pick(c.R, []string{"ASYNC", "SPIN", "SPINASYNC", "ONCE"})
		cs.feats = append(cs.feats, "bg."+strings.ToLower(q))
		cs.faultK, cs.mode = 1+c.Intn(5), int32(1+c.Intn(4))
		cs.feats = append(cs.feats, "bg."+faultModeNames[cs.mode])
		cs.bg = true
		switch c.Intn(7) {
		case 6:
			// the call is handed whole rows of a derived table (whose own
			// clean-up the outer query adopts) and reads them in the background
			cs.faultK, cs.mode = 0, 0
			cs.sql = gen.Pick(c.R, []string{
				"SELECT " + q + ".VBGREAD(x) AS v FROM (SELECT * FROM t1) x",
				"SELECT " + q + ".VBGREAD(x, x.rid) AS v FROM (SELECT *, rid AS r2 FROM t1 WHERE n1 >= 0) x",
				"SELECT " + q + ".VBGREAD((SELECT * FROM `<-.u1`)) AS v FROM t1",
				"WITH c AS (SELECT * FROM t1) SELECT " + q + ".VBGREAD(x) AS v FROM c x"})
			cs.feats = append(cs.feats, "bg.reads-derived-row")
		case 4:
			// the call never starts: one of its arguments fails or panics on some row
			cs.sql = "SELECT rid, " + q + ".CONCAT(VFAIL(n1), 'x') AS v FROM t1"
			if c.Chance(0.5) {
				cs.sql = "SELECT rid, " + q + ".VBG(n1) AS v, " + q + ".HASH(VFAIL(s1), 'md5') AS w FROM t1"
			}
			cs.feats = append(cs.feats, "bg.argument-fails")
		case 5:
			// ... by itself: a substring beyond the text, a negative shift count
			cs.faultK, cs.mode = 0, 0
			cs.sql = gen.Pick(c.R, []string{
				"SELECT rid, " + q + ".CONCAT(SUBSTR(s1, 0, 500)) AS v FROM t1",
				"SELECT rid, " + q + ".TO_UPPER(SUBSTR(s1, 40, 2)) AS v FROM t1",
				"SELECT rid, " + q + ".HASH(rid << (0 - 1), 'md5') AS v FROM t1",
				"SELECT rid, " + q + ".VBG(n1) AS a, " + q + ".CONCAT(ELEMENTAT(arr, 0 - 1)) AS v FROM t1"})
			cs.feats = append(cs.feats, "bg.argument-fails")
		case 0:
			cs.sql = "SELECT rid, " + q + ".VBG(n1) AS v FROM t1"
		case 1:
			cs.sql = "SELECT rid, " + q + ".VBG(n1) AS v, " + q + ".VBG(s1) AS w FROM t1 WHERE n1 >= 0"
		case 2:
			cs.sql = "SELECT rid, (SELECT " + q + ".VBG(e) AS v FROM arr) AS sub FROM t1"
		default:
			cs.sql = "SELECT q.v FROM (SELECT " + q + ".VBG(n1) AS v FROM t1) q"
		}
		switch c.Intn(10) {
		case 0, 1, 2:
			cs.extra = append(cs.extra, genql.UnReportedErrors(func(error) {}))
		case 3, 4:
			// a handler that misbehaves: it runs on the call's background goroutine
			cs.extra = append(cs.extra, genql.UnReportedErrors(func(error) { panic("handler") }))
			cs.feats = append(cs.feats, "handler.panics")
		}
	case "await":
		cs.bg = true
		cs.sql = gen.Pick(c.R, []string{
			"SELECT (SELECT AWAIT(`q.v`) AS item FROM (SELECT ASYNC.VBG(n1) AS v FROM t1) q) AS r FROM t1",
			"SELECT AWAIT(ASYNC.VBG(n1)) AS v FROM t1",
			"SELECT AWAIT(n1) AS v FROM t1",
			"SELECT AWAIT() AS v FROM t1",
			"SELECT rid FROM t1 WHERE AWAIT(b1)",
			"SELECT ASYNC.VIMM(n1) AS v FROM t1",
			"SELECT SPIN.SUM(n1) AS v FROM t1",
			"SELECT GLOBAL.VBG(n1) AS v FROM t1",
			"SELECT GLOBAL.VBG((SELECT n1 FROM t1)) AS v FROM t1",
			"SELECT SCOPED.VBG(n1) AS v, ONCE.VBG(1) AS o FROM t1",
			// a pending result stored in a register and awaited through that register
			"SELECT SETVAR('x', AWAIT(GETVAR('x'))), GETVAR('x') AS y FROM t1",
			"SELECT GETVAR('x') AS y, SETVAR('x', AWAIT(GETVAR('x'))), SETVAR('z', AWAIT(GETVAR('x'))) FROM dual",
			"SELECT SETVAR('x', AWAIT(ASYNC.VBG(GETVAR('x')))), AWAIT(GETVAR('x')) AS y FROM t1",
		})
		if strings.Contains(cs.sql, "SETVAR") {
			cs.extra = append(cs.extra, genql.WithVars(map[string]any{}))
			cs.feats = append(cs.feats, "await.self-reference")
		}
		if c.Chance(0.4) {
			cs.faultK, cs.mode = 1+c.Intn(3), int32(1+c.Intn(4))
		}
	case "distinct-subq-star":
		cs.sql = gen.Pick(c.R, []string{"SELECT DISTINCT (SELECT e FROM arr) AS s, * FROM t1", "SELECT DISTINCT (SELECT * FROM `<-t1`) AS s, * FROM t1", "SELECT DISTINCT *, (SELECT * FROM `<-u1`) FROM t1 WHERE EXISTS (SELECT * FROM arr)",
			"SELECT DISTINCT * FROM t1 WHERE n1 IN (SELECT e FROM arr)",
			// the rows a subquery formats while the outer row is in its scope
			"SELECT rid FROM t1 WHERE EXISTS (SELECT DISTINCT * FROM arr)", "SELECT rid FROM t1 WHERE EXISTS (SELECT DISTINCT *, t1.n1 FROM arr WHERE e >= 0)", "SELECT rid FROM t1 WHERE rid IN (SELECT DISTINCT * FROM arr) OR EXISTS (SELECT DISTINCT * FROM arr ORDER BY e)"})
	case "object-compare":
		cs.sql = gen.Pick(c.R, []string{"SELECT * FROM t1 WHERE obj = obj", "SELECT * FROM t1 WHERE arr = arr AND obj != arr", "SELECT * FROM t1 WHERE obj > 1", "SELECT * FROM t1 WHERE obj IN (obj, arr)", "SELECT * FROM t1 WHERE obj BETWEEN arr AND obj",
			"SELECT * FROM t1 WHERE obj LIKE '%'", "SELECT * FROM t1 ORDER BY obj", "SELECT * FROM t1 x JOIN t1 y ON x.obj = y.obj", "SELECT * FROM t1 WHERE (SELECT * FROM `<-t1`) = (SELECT * FROM `<-t1`)"})
	case "group-object":
		cs.sql = gen.Pick(c.R, []string{"SELECT obj, COUNT(*) AS c FROM t1 GROUP BY obj", "SELECT arr, COUNT(*) AS c FROM t1 GROUP BY arr", "SELECT COUNT(*) AS c FROM t1 GROUP BY n1 + 1", "SELECT SUM(obj) AS s FROM t1", "SELECT SUM(s1) AS s, AVG(b1) AS a FROM t1",
			"SELECT MAX(VFAIL(n1)) AS s FROM t1", "SELECT s1, SUM(arr) AS s FROM t1 GROUP BY s1", "SELECT COUNT(nokey) AS c, SUM(nokey) AS s FROM t1 GROUP BY nokey"})
	case "limit-weird":
		cs.sql = "SELECT * FROM t1 LIMIT " + gen.Pick(c.R, []string{"-1", "99999999999999999999", "1.5", "'a'", "0, 99999999999", "18446744073709551616 OFFSET 1", "1 OFFSET -5", "n1", "NULL", "(SELECT 1 FROM dual)"})
	case "deep-nesting":
		depth := 20 + c.Intn(150)
		switch c.Intn(3) {
		case 0:
			cs.sql = "SELECT " + strings.Repeat("(", depth) + "1" + strings.Repeat(")", depth) + " AS v FROM dual"
		case 1:
			cs.sql = "SELECT * FROM t1 WHERE " + strings.Repeat("NOT (", depth) + "n1 > 0" + strings.Repeat(")", depth)
		default:
			inner := "SELECT rid FROM t1"
			for i := 0; i < depth/8; i++ {
				inner = "SELECT q.rid FROM (" + inner + ") q"
			}
			cs.sql = inner
		}
	case "doc-shape":
		cs.sql = form()
		switch c.Intn(6) {
		case 0:
			cs.doc = map[string]any{"t1": "scalar", "u1": 5.0, "mm": nil, "meta": []any{}}
		case 1:
			cs.doc = map[string]any{}
		case 2:
			cs.doc = map[string]any{"t1": []any{1.0, "x", nil, []any{}, map[string]any{}}, "u1": []any{nil}, "mm": []any{[]any{[]any{[]any{}}}}}
		case 3:
			var deep any = map[string]any{"n1": 1.0}
			for i := 0; i < 60; i++ {
				deep = map[string]any{"t1": []any{deep}, "n1": float64(i)}
			}
			cs.doc = deep.(map[string]any)
		case 4:
			cs.doc = map[string]any{"t1": map[string]any{"n1": 1.0, "arr": map[string]any{"e": 1.0}}, "u1": map[string]any{"un1": 1.0}}
		default:
			cs.doc["t1"] = append(cs.doc["t1"].([]any), nil, 5.0, "row", []any{map[string]any{"n1": 1.0}})
		}
	case "native-types":
		cs.sql = form()
		rows := []map[string]any{{"rid": 0, "n1": int64(3), "n2": uint8(2), "s1": "a", "b1": true, "arr": []map[string]any{{"e": 1, "f": "p"}}, "obj": map[string]any{"k": float32(1.5), "w": "p"}},
			{"rid": 1, "n1": 2.5, "n2": int32(-1), "s1": "b", "b1": false, "arr": []map[string]any{}, "obj": map[string]int{"k": 2}}}
		cs.doc = map[string]any{"t1": rows, "u1": []map[string]any{{"un1": 3, "us1": "a"}}, "mm": [][]map[string]any{{{"a": 1, "b": "x"}}}, "meta": map[string]string{"ip": "::1"}}
	case "nil-doc":
		cs.sql = gen.Pick(c.R, []string{form(), "SELECT 1 AS a FROM dual", "SELECT * FROM dual", "WITH c AS (SELECT 1 AS a FROM dual) SELECT * FROM c", "SELECT * FROM t1 x JOIN u1 y ON x.a = y.a"})
		cs.doc = nil
	case "vars-nil":
		cs.sql = gen.Pick(c.R, []string{"SELECT SETVAR('k', n1), GETVAR('k') AS g FROM t1", "SELECT GETVAR('k') AS g FROM t1", "SELECT CONSTANT('k') AS c FROM t1", "SELECT SETVAR('k') FROM t1", "SELECT GETVAR() FROM t1", "SELECT SETVAR(obj, arr), GETVAR(obj) AS g FROM t1"})
		if c.Chance(0.3) {
			cs.extra = append(cs.extra, genql.WithVars(map[string]any{}), genql.WithConstants(map[string]any{"k": []any{1.0}}))
		}
	case "parallel-fresh":
		// a PARALLEL nested-loop join over column names this process has never
		// seen: every worker goroutine misses the selector cache at the same time
		sfx := fmt.Sprintf("_%d_%d", c.Seed, c.Idx)
		l := make([]any, 4+c.Intn(8))
		for i := range l {
			l[i] = map[string]any{"k" + sfx: float64(i % 5), "v" + sfx: float64(i)}
		}
		r := make([]any, 3+c.Intn(6))
		for i := range r {
			r[i] = map[string]any{"m" + sfx: float64(i % 4), "w" + sfx: float64(i)}
		}
		cs.doc = map[string]any{"l" + sfx: l, "r" + sfx: r}
		j := gen.Pick(c.R, []string{"PARALLEL JOIN", "PARALLEL LEFT JOIN", "PARALLEL RIGHT JOIN", "PARALLEL STRAIGHT_JOIN"})
		cs.sql = fmt.Sprintf("SELECT * FROM l%s x %s r%s y ON x.k%s %s y.m%s OR x.v%s = y.w%s", sfx, j, sfx, sfx, gen.Pick(c.R, []string{"<", ">=", "!="}), sfx, sfx, sfx)
		cs.opts = OptSet{}
	case "reexec":
		// the same Query object executed several times, the first execution
		// possibly failing part-way (planned fault, or SETVAR without a variable map)
		cs.sql = form()
		if c.Chance(0.4) {
			cs.sql = gen.Pick(c.R, []string{"SELECT SETVAR('k', n1), GETVAR('k') AS g FROM t1", "SELECT SETVAR('k', n1) FROM t1", "SELECT rid, GETVAR('k') AS g FROM t1 WHERE SETVAR('k', 1) IS NULL",
				"SELECT rid, (SELECT SETVAR('k', e) FROM arr) AS s FROM t1", "SELECT ONCE.VFAIL(n1) AS o, SETVAR('k', 1) FROM t1"})
		}
		cs.execs = 2 + c.Intn(2)
		if c.Chance(0.3) {
			cs.extra = append(cs.extra, genql.WithVars(map[string]any{}))
		}
		if c.Chance(0.6) {
			cs.faultK, cs.mode = 1+c.Intn(4), int32(1+c.Intn(4))
		}
	case "parallel-vars":
		// rows evaluated concurrently that all reach the query's variable store
		j := gen.Pick(c.R, []string{"PARALLEL JOIN", "PARALLEL LEFT JOIN", "PARALLEL RIGHT JOIN"})
		on := gen.Pick(c.R, []string{"x.n1 = y.un1 AND SETVAR('k', 1)", "x.n1 = y.un1 OR SETVAR('k', x.n1)", "GETVAR('k') = y.un1", "SETVAR('k', x.rid)", "x.n1 >= y.un1 AND GETVAR('k') IS NULL AND SETVAR('j', 2)"})
		cs.sql = "SELECT * FROM t1 x " + j + " u1 y ON " + on
		if c.Chance(0.3) {
			cs.extra = append(cs.extra, genql.WithVars(map[string]any{"k": 1.0}))
		}
		cs.execs = 1 + c.Intn(2)
	case "many-inner":
		// a multi-dimensional FROM with dozens of inner arrays: work and memory
		// stay proportional to the input
		n := 24 + c.Intn(40)
		mm := make([]any, n)
		for i := range mm {
			inner := make([]any, 1+c.Intn(2))
			for k := range inner {
				inner[k] = map[string]any{"a": float64(i), "b": "x", "s1": "v"}
			}
			mm[i] = inner
		}
		cs.doc = map[string]any{"mm": mm}
		cs.sql = gen.Pick(c.R, []string{"SELECT * FROM mm", "SELECT a, ASYNC.VBG(s1) AS w FROM mm", "SELECT a, AWAIT(ASYNC.VBG(s1)) AS w FROM mm", "SELECT *, (a + 1) AS c FROM mm WHERE a >= 3", "SELECT a, (SELECT b FROM dual) AS q FROM mm"})
		cs.opts = OptSet{Idiomatic: c.Chance(0.3)}
	case "nested-slots":
		// a column whose pending result is a chain of several pending results
		cs.bg = true
		cs.sql = gen.Pick(c.R, []string{
			"SELECT AWAIT(AWAIT(ASYNC.VBG(n1))) AS s FROM t1",
			"SELECT AWAIT(AWAIT(AWAIT(ASYNC.VBG(s1)))) AS s, rid FROM t1",
			"SELECT ASYNC.VBG(ASYNC.VBG(ASYNC.VBG(n1))) AS s FROM t1",
			"SELECT ASYNC.VBG(ASYNC.VBG(ASYNC.VBG(ASYNC.VBG(s1)))) AS s FROM t1 WHERE n1 >= 0",
			"SELECT x.s FROM (SELECT AWAIT(AWAIT(ASYNC.VBG(n1))) AS s FROM t1) x",
			"SELECT rid, FUSE((SELECT AWAIT(AWAIT(ASYNC.VBG(n1))) AS s FROM dual)) FROM t1",
			"SELECT ASYNC.FIRST(ARRAY(ASYNC.LAST(ARRAY(ASYNC.VBG(n1))))) AS s FROM t1",
			"WITH q AS (SELECT AWAIT(ASYNC.VBG(AWAIT(ASYNC.VBG(n1)))) AS s FROM t1) SELECT s FROM q",
		})
		if c.Chance(0.3) {
			cs.faultK, cs.mode = 1+c.Intn(3), int32(1+c.Intn(4))
		}
	case "parallel-many-fail":
		// a PARALLEL join with hundreds of key groups whose ON fails (or
		// panics) for every one of them, for most, or for a handful
		n := 130 + c.Intn(200)
		failing := gen.Pick(c.R, []int{n, n, n - 1, 129, 5, 0})
		lt := make([]any, n)
		for i := range lt {
			row := map[string]any{"k": float64(i), "ok": true, "z": 1.0}
			if i < failing {
				// a dirty column: a string where a boolean is needed, NULL where a function needs a value
				row["ok"], row["z"] = "yes", nil
			}
			lt[i] = row
		}
		c.R.Shuffle(len(lt), func(i, j int) { lt[i], lt[j] = lt[j], lt[i] })
		rt := make([]any, 1+c.Intn(n))
		for i := range rt {
			rt[i] = map[string]any{"k": float64(c.Intn(n))}
		}
		cs.doc = map[string]any{"lt": lt, "rt": rt}
		j := gen.Pick(c.R, []string{"PARALLEL JOIN", "PARALLEL LEFT JOIN", "PARALLEL HASH_JOIN", "PARALLEL STRAIGHT_JOIN", "PARALLEL LEFT HASH_JOIN"})
		on := gen.Pick(c.R, []string{"x.k = y.k AND NOT x.ok", "x.k >= y.k AND x.ok", "x.k = y.k AND RAISE_WHEN(x.ok, 'dirty')", "x.k = y.k AND VPANICNULL(x.z)", "x.k <= y.k OR VPANICNULL(x.z)", "x.k = y.k AND IF(TO_LOWER(x.z) = 'a', TRUE, FALSE)"})
		cs.sql = "SELECT x.k AS l, y.k AS r FROM lt x " + j + " rt y ON " + on
		cs.opts = OptSet{}
	case "order-null-keys":
		// several sort keys, and rows that are NULL or lack the key on a key that is not the last
		n := 3 + c.Intn(12)
		rows := make([]any, n)
		for i := range rows {
			row := map[string]any{"rid": float64(i), "k3": float64(c.Intn(3))}
			switch c.Intn(3) {
			case 0:
				row["k1"] = nil
			case 1:
				row["k1"] = float64(c.Intn(2))
			}
			if c.Chance(0.5) {
				row["k2"] = gen.Pick(c.R, []any{nil, "a", "b"})
			}
			rows[i] = row
		}
		cs.doc = map[string]any{"t1": rows}
		cs.sql = gen.Pick(c.R, []string{"SELECT * FROM t1 ORDER BY k1, k3", "SELECT * FROM t1 ORDER BY k1 DESC, k2, k3 DESC", "SELECT rid, k1, k2 FROM t1 ORDER BY k2, k1, rid", "SELECT * FROM t1 ORDER BY nokey, nokey2, rid DESC",
			"SELECT k1, COUNT(*) AS n FROM t1 GROUP BY k1 ORDER BY k1, n", "SELECT DISTINCT k1, k2 FROM t1 ORDER BY k1, k2 LIMIT 5"})
		cs.opts = OptSet{}
	case "parallel-like":
		// LIKE / NOT LIKE in the ON of a PARALLEL nested-loop join with many key groups
		n := 20 + c.Intn(80)
		lt, rt := make([]any, n), make([]any, 5+c.Intn(20))
		for i := range lt {
			lt[i] = map[string]any{"k": float64(i), "s": fmt.Sprintf("%c%d", 'a'+rune(i%5), i)}
		}
		for i := range rt {
			rt[i] = map[string]any{"k": float64(c.Intn(n)), "p": gen.Pick(c.R, []string{"a%", "%1", "b_", "%", "c%2"})}
		}
		cs.doc = map[string]any{"lt": lt, "rt": rt}
		j := gen.Pick(c.R, []string{"PARALLEL JOIN", "PARALLEL LEFT JOIN", "PARALLEL STRAIGHT_JOIN", "PARALLEL RIGHT JOIN"})
		on := gen.Pick(c.R, []string{"x.s LIKE y.p", "x.s NOT LIKE y.p", "x.s LIKE 'a%' OR x.k = y.k", "x.k >= y.k AND x.s LIKE y.p", "x.s LIKE '%1' AND x.s NOT LIKE y.p"})
		cs.sql = "SELECT x.k AS l, y.k AS r FROM lt x " + j + " rt y ON " + on
		cs.opts = OptSet{}
	case "marker-select":
		// the back-navigation marker selected as a value and carried through
		// the stages that fingerprint, compare or sort whole rows
		inner := gen.Pick(c.R, []string{"(SELECT `<-` FROM dual)", "(SELECT `<-` AS up FROM dual)", "(SELECT `<-` AS up, e FROM arr)", "ARRAY(`<-`)", "`<-`",
			"(SELECT (SELECT `<-.<-` AS up FROM dual) AS s2 FROM dual)", "(SELECT `'<-'` AS up FROM dual)", "(SELECT `<-<-` AS up FROM dual)", "(SELECT `<-.'<-'` AS up FROM dual)", "(SELECT `<-`, `<-.<-` AS g FROM dual)",
			"(SELECT * FROM `<-` x)", "(SELECT x FROM `<-` x)", "(SELECT `<-::` AS up FROM dual)", "(SELECT `<-.` AS up FROM dual)", "(SELECT `<- ` AS up FROM dual)", "(SELECT * FROM `<-.<-` y)", "(SELECT `<-.<-::` AS up FROM dual)"})
		cs.sql = gen.Pick(c.R, []string{
			"WITH a AS (SELECT " + inner + " AS x FROM t1) SELECT DISTINCT * FROM a",
			"WITH a AS (SELECT rid, " + inner + " AS x FROM t1), b AS (SELECT " + inner + " AS y, x FROM a) SELECT DISTINCT * FROM b",
			"WITH a AS (SELECT rid, " + inner + " AS x FROM t1) SELECT x, COUNT(*) AS n FROM a GROUP BY x",
			"WITH a AS (SELECT rid, " + inner + " AS x FROM t1) SELECT * FROM a l JOIN a r ON l.x = r.x",
			"WITH a AS (SELECT rid, " + inner + " AS x FROM t1) SELECT * FROM a ORDER BY x",
			"SELECT DISTINCT " + inner + " AS x FROM t1",
			"WITH a AS (SELECT " + inner + " AS x FROM t1) SELECT x FROM a UNION SELECT x FROM a",
		})
	case "selector-in-sql":
		cs.sql = "SELECT `" + gen.Pick(c.R, []string{"arr[9].e", "arr[each].e.x", "obj{k|date}", "obj.k.z", "arr[(2:1)]", "s1[0]", "nosuch=>arr", "arr::[5]", "'", "arr[", "obj{", "<-<-<-<-x"}) + "` AS v FROM t1"
	}
	return cs
}

func c10Run(c *fw.Case) {
	cs := c10Build(c)
	if cs.faultK > 0 {
		armFault(cs.faultK, cs.mode)
	} else {
		armFault(0, faultNone)
	}
	sql := cs.sql
	if cs.opts.Wrapped {
		sql = wrapSQL(sql)
	}
	opts := append(cs.opts.Options(), cs.extra...)
	c.Sample(map[string]any{"sql": short(sql, 300), "options": cs.opts.Names(), "fault_at": cs.faultK, "fault_mode": faultModeNames[cs.mode]})
	var o Outcome
	if cs.execs > 1 {
		q, no := newSafe(cs.doc, sql, opts...)
		o = no
		for i := 0; q != nil && i < cs.execs && o.Panic == nil; i++ {
			o = execBuilt(q)
			if i == 0 {
				armFault(0, faultNone) // later executions run without the planned fault
			}
		}
		c.Feature(fmt.Sprintf("execs.%d", cs.execs))
	} else {
		o = Run(cs.doc, sql, opts...)
	}
	quiet := waitBackground()
	armFault(0, faultNone)
	c.Feature(cs.feats...)
	det := map[string]any{"sql": sql, "sql_quoted": fmt.Sprintf("%q", sql), "options": cs.opts.Names(), "doc": val.Show(cs.doc), "fault_at": cs.faultK, "fault_mode": faultModeNames[cs.mode], "observed": o.Describe()}
	if o.Panic != nil {
		det["stack"] = firstN(o.Stack, 40)
		c.Violate("escaped-panic", fmt.Sprintf("a panic escaped %s: %v", o.Stage, o.Panic), det)
		return
	}
	if !quiet {
		c.Violate("background-stuck", "background function calls did not finish within the bounded wait", det)
		return
	}
	if o.Err != nil {
		c.Feature("outcome.error")
	} else {
		c.Feature("outcome.rows")
	}
	c.Nontrivial(sql + "|" + strings.Join(cs.opts.Names(), ",") + "|" + fmt.Sprint(cs.faultK, cs.mode) + short(val.Canon(cs.doc), 4000))
}

// wrapSQL re-addresses the rich document's tables under `root` for Wrapped().
func wrapSQL(sql string) string {
	r := strings.NewReplacer(
		"FROM t1", "FROM `root.t1`", "FROM u1", "FROM `root.u1`", "FROM mm", "FROM `root.mm`", "FROM nn", "FROM `root.nn`", "JOIN nn", "JOIN `root.nn`",
		"JOIN u1", "JOIN `root.u1`", "JOIN t1", "JOIN `root.t1`",
		"`<-u1`", "`<-root.u1`", "`<-t1`", "`<-root.t1`", "`<-meta`", "`<-root.meta`",
		"`t1.obj`", "`root.t1.obj`")
	return r.Replace(sql)
}

// c10Witness: generic SQL witnesses plus background-function witnesses
// (kind "bg": SQL using VBG with a planned fault).
func c10Witness(c *fw.Case, w *fw.Finding) {
	if w.Kind != "bg" {
		sqlWitness(c, w)
		return
	}
	k, _ := w.Extra["fault_at"].(float64)
	m, _ := w.Extra["mode"].(float64)
	armFault(int(k), int32(m))
	doc, _ := val.Copy(w.Doc).(map[string]any)
	o := Run(doc, w.SQL)
	quiet := waitBackground()
	armFault(0, faultNone)
	c.Nontrivial("witness:" + w.ID)
	c.Sample(map[string]any{"witness": w.ID, "sql": w.SQL, "observed": o.Describe()})
	det := map[string]any{"sql": w.SQL, "observed": o.Describe()}
	if o.Panic != nil {
		c.Violate("escaped-panic", fmt.Sprintf("witness %s: %v", w.ID, o.Panic), det)
	}
	if !quiet {
		c.Violate("background-stuck", "witness "+w.ID+": background calls did not finish", det)
	}
}
