package props

import (
	"reflect"
	"errors"
	"fmt"
	"strings"

	"github.com/vedadiyan/genql"

	"verifharness/internal/fw"
	"verifharness/internal/gen"
	"verifharness/internal/ref"
	"verifharness/internal/val"
)

var c20Floor = []string{"set", "get", "get.unset", "get.after-set-same-row", "get.before-set-same-row", "set.overwrite", "set.expr", "set.literal", "where", "prepopulated", "queries.2", "queries.3+", "keys.multi", "table.empty", "dual", "prebuilt", "order.projected", "order.unprojected", "grouped", "grouped.having", "get.subquery", "opt.callback", "keys.numeric", "union.derived-right", "union.cte-right", "union.nested-right", "union.plain", "reexec.register-where", "multidim.register-where", "literal.whitespace", "set.case-arm", "distinct", "union.cte-chain3", "native.stored-as-is"}

func init() {
	fw.Register(&fw.Prop{
		ID:    "C20",
		Title: "SETVAR/GETVAR behave as per-key registers in evaluation order",
		Level: "exploration",
		Rule: "a CTE with registers in its body read by every branch of a union chain. DISTINCT over source rows that repeat as a whole; registers written in the arms of a CASE. numeric register keys; phase 'union': registers on both sides of UNION ALL (plain / derived / CTE / parenthesised right branch); phase 'reexec': a register-only WHERE on a Query executed again after another query changed the register, over inner arrays, and queries that differ only in white space inside a literal. register reads also inside select-list scalar subqueries; a share of the histories runs with CompletedCallback / UnReportedErrors / WithConstants next to WithVars. queries may carry ORDER BY on a projected or non-projected column (rows then compared as a multiset, the store exactly); phase 'grouped': GROUP BY [HAVING] with a per-group counter and previous-value register, judged by order-independent consequences of 'each group's select list is evaluated once'. each case = a history: 1..4 queries sharing one variable map (pre-populated or empty), each a select list of 1..8 items mixing SETVAR(k, e), GETVAR(k) and plain columns over 1..4 keys (e = row column, literal, arithmetic on row columns), over a table of 0..12 rows with optional WHERE. " +
			"Oracle: a sequential per-key register model replays the history in evaluation order (rows in source order, select-list items left to right): every GETVAR column must equal the model's value at that point (NULL if never set), SETVAR must add no column, " +
			"after each Exec the caller's map must equal the model's store, and later queries must observe earlier writes. Non-trivial = at least one GETVAR that observes a value written by an earlier SETVAR of the same history; distinct = distinct (table, queries, initial map).",
		Assumptions: []string{
			"SETVAR/GETVAR appear only as select-list items of a non-grouped, non-joined SELECT (where the property defines evaluation order); aliases are unique",
			"stored values are scalars computed in-domain by the C02 reference evaluator",
		},
		Floor:         c20Floor,
		MinNontrivial: 50,
		Phases: []fw.Phase{
			{Name: "history", N: func(t fw.Tier) int { return pick(t, 10000, 400000) }, Run: c20Run},
			{Name: "grouped", N: func(t fw.Tier) int { return pick(t, 1000, 30000) }, Run: c20Grouped},
			{Name: "union", N: func(t fw.Tier) int { return pick(t, 600, 20000) }, Run: c20Union},
			{Name: "reexec", N: func(t fw.Tier) int { return pick(t, 600, 20000) }, Run: c20Reexec},
			{Name: "native", N: func(t fw.Tier) int { return pick(t, 600, 20000) }, Run: c20Native},
		},
		Witness: sqlWitness,
	})
}

type c20Step struct {
	sql     string
	want    []any
	store   map[string]any
	ordered bool // the query has an ORDER BY: rows are compared as a multiset
}

// execBuilt executes an already constructed query, catching an escaped panic.
func execBuilt(q *genql.Query) (out Outcome) {
	defer func() {
		if r := recover(); r != nil {
			out.Panic = r
		}
	}()
	out.Stage = "exec"
	rows, err := q.Exec()
	out.Rows, out.Err = rows, err
	if err != nil {
		out.Rows = nil
	}
	return
}

type c20Item struct {
	cond  gen.Pred // caseset: CASE WHEN cond THEN SETVAR(key, expr) ELSE SETVAR(key2, expr2) END
	key2  string
	expr2 gen.Expr
	kind  string // set get col caseset
	key   string
	expr  gen.Expr
	alias string
	col   string
}

func c20Run(c *fw.Case) {
	force := ""
	if c.Idx < 3*len(c20Floor) {
		force = c20Floor[c.Idx%len(c20Floor)]
	}
	t := gen.RandTable(c.R, gen.TableSpec{Name: "t1", MaxRows: pick(c.Tier, 12, 30), NumCols: 2, StrCols: 1, BoolCols: 1, StrStyle: gen.Hostile})
	if force == "table.empty" {
		t.Rows = nil
	}
	var feats []string
	keys := []string{"k1", "k2", "key 3", "K1"}
	nk := 1 + c.Intn(4)
	if force == "keys.multi" {
		nk = 2 + c.Intn(3)
	}
	keys = keys[:nk]
	// registers named by numbers (an order id, a literal): SETVAR and GETVAR
	// mean the same register whatever the number's size
	numKeys := force == "keys.numeric" || (force == "" && c.Chance(0.08))
	if numKeys {
		keys = []string{"1000000", "17", "2500000", "999999"}[:nk]
		feats = append(feats, "keys.numeric")
	}
	keySQL := func(k string) string {
		if numKeys {
			return k
		}
		return gen.SQLString(k, 0)
	}
	if nk > 1 {
		feats = append(feats, "keys.multi")
	}
	vars := map[string]any{}
	if !numKeys && (force == "prepopulated" || c.Chance(0.4)) {
		vars[keys[0]] = gen.Pick(c.R, []any{"init", 7.0, true})
		if c.Chance(0.5) {
			vars["other"] = "untouched"
		}
		feats = append(feats, "prepopulated")
	}
	model := val.CopyMap(vars)
	nq := 1 + c.Intn(4)
	switch force {
	case "queries.2", "prebuilt":
		nq = 2 + c.Intn(2)
	case "queries.3+":
		nq = 3 + c.Intn(2)
	}
	switch {
	case nq == 2:
		feats = append(feats, "queries.2")
	case nq >= 3:
		feats = append(feats, "queries.3+", "queries.2")
	}
	if len(t.Rows) == 0 {
		feats = append(feats, "table.empty")
	}
	pg := &gen.PredGen{R: c.R, T: t, MaxDepth: 1, Disable: map[string]bool{"in.subquery": true, "isnull": true, "isnotnull": true}}
	eg := &gen.ExprGen{R: c.R, T: t, MaxDepth: 2, NumRefs: []string{"n1", "n2"}}
	doc := DocOf(t)
	// d1: rows without an identity, so that whole rows repeat (not next to each other)
	var d1 []map[string]any
	if len(t.Rows) > 0 {
		var d1any []any
		for i := 0; i < 3+c.Intn(8); i++ {
			proto := t.Rows[c.Intn(min(3, len(t.Rows)))]
			r := map[string]any{"b1": proto["b1"], "s1": proto["s1"]}
			d1 = append(d1, r)
			d1any = append(d1any, r)
		}
		doc["d1"] = d1any
	}
	observedWrite := false
	everSet := map[string]bool{}
	var history []string
	var plan []c20Step
	for qi := 0; qi < nq; qi++ {
		n := 1 + c.Intn(8)
		var items []c20Item
		dual := (force == "dual" && qi == 0) || (force == "" && c.Chance(0.15))
		for i := 0; i < n; i++ {
			k := gen.Pick(c.R, keys)
			if dual {
				// FROM dual: one evaluation, literals only
				if c.Chance(0.5) {
					var e gen.Expr = gen.NumLit{V: gen.RandNum(c.R)}
					if c.Chance(0.5) {
						e = gen.StrLit{S: gen.RandString(c.R, gen.Plain, 2)}
					}
					items = append(items, c20Item{kind: "set", key: k, expr: e})
				} else {
					items = append(items, c20Item{kind: "get", key: k, alias: fmt.Sprintf("g%d", i)})
				}
				continue
			}
			if force == "set.case-arm" && i == 0 || c.Chance(0.1) {
				// a register written in one arm of a CASE: only the arm that is taken writes
				items = append(items, c20Item{kind: "caseset", cond: pg.Gen(), key: k, expr: gen.ColRef{Name: gen.Pick(c.R, []string{"rid", "n1", "s1"})},
					key2: gen.Pick(c.R, keys), expr2: gen.ColRef{Name: gen.Pick(c.R, []string{"rid", "n2", "s1"})}})
				feats = append(feats, "set.case-arm")
				continue
			}
			switch c.Intn(5) {
			case 0, 1:
				var e gen.Expr
				switch c.Intn(4) {
				case 0:
					e = gen.ColRef{Name: gen.Pick(c.R, []string{"n1", "s1", "b1", "rid"})}
				case 1:
					e = gen.StrLit{S: gen.RandString(c.R, gen.Plain, 2)}
					feats = append(feats, "set.literal")
				case 2:
					e = gen.NumLit{V: gen.RandNum(c.R)}
					feats = append(feats, "set.literal")
				default:
					e = eg.Gen()
					feats = append(feats, "set.expr")
				}
				items = append(items, c20Item{kind: "set", key: k, expr: e})
			case 2, 3:
				if c.Chance(0.2) {
					// the register read inside a select-list scalar subquery: evaluated at its position in the list
					items = append(items, c20Item{kind: "subget", key: k, alias: fmt.Sprintf("sg%d", i)})
					feats = append(feats, "get.subquery")
					continue
				}
				items = append(items, c20Item{kind: "get", key: k, alias: fmt.Sprintf("g%d", i)})
			default:
				items = append(items, c20Item{kind: "col", col: gen.Pick(c.R, []string{"rid", "n1", "s1"})})
			}
		}
		if qi == 0 && !dual {
			switch force {
			case "get.unset":
				items = append([]c20Item{{kind: "get", key: "never", alias: "gu"}}, items...)
			case "get.after-set-same-row":
				items = append(items, c20Item{kind: "set", key: keys[0], expr: gen.ColRef{Name: "n1"}}, c20Item{kind: "get", key: keys[0], alias: "gafter"})
			case "get.before-set-same-row":
				items = append([]c20Item{{kind: "get", key: keys[0], alias: "gbefore"}, {kind: "set", key: keys[0], expr: gen.ColRef{Name: "rid"}}}, items...)
			case "set.overwrite":
				items = append(items, c20Item{kind: "set", key: keys[0], expr: gen.ColRef{Name: "n1"}}, c20Item{kind: "set", key: keys[0], expr: gen.ColRef{Name: "n2"}}, c20Item{kind: "get", key: keys[0], alias: "gow"})
			}
		}
		var where gen.Pred
		if !dual && (force == "where" || c.Chance(0.3)) {
			where = pg.Gen()
			feats = append(feats, "where")
		}
		ro := gen.RenderOpts{StrStyle: c.Intn(2)}
		parts := make([]string, len(items))
		for i, it := range items {
			switch it.kind {
			case "caseset":
				parts[i] = "CASE WHEN " + gen.RenderPred(it.cond, ro) + " THEN SETVAR(" + keySQL(it.key) + ", " + gen.RenderExpr(it.expr, ro) + ") ELSE SETVAR(" + keySQL(it.key2) + ", " + gen.RenderExpr(it.expr2, ro) + ") END"
			case "set":
				parts[i] = "SETVAR(" + keySQL(it.key) + ", " + gen.RenderExpr(it.expr, ro) + ")"
			case "subget":
				parts[i] = "(SELECT GETVAR(" + keySQL(it.key) + ") AS g FROM dual) AS " + it.alias
			case "get":
				parts[i] = "GETVAR(" + keySQL(it.key) + ") AS " + it.alias
			default:
				parts[i] = it.col
			}
		}
		sql := "SELECT " + strings.Join(parts, ", ") + " FROM t1"
		rowsOf := t.Rows
		if dual {
			sql = "SELECT " + strings.Join(parts, ", ") + " FROM dual"
			rowsOf = []map[string]any{{}}
			feats = append(feats, "dual")
		}
		if where != nil {
			sql += " WHERE " + gen.RenderPred(where, ro)
		}
		// ORDER BY sorts what is returned; the rows are still evaluated in source order
		ordered := false
		if !dual && (force == "order.projected" || force == "order.unprojected" || c.Chance(0.2)) {
			ordered = true
			key := gen.Pick(c.R, []string{"n1", "n2", "s1", "rid", "b1"})
			projected := false
			for _, it := range items {
				if it.kind == "col" && it.col == key {
					projected = true
				}
			}
			if force == "order.projected" && !projected {
				key, projected = "rid", true
				sql = strings.Replace(sql, "SELECT ", "SELECT rid, ", 1)
				items = append([]c20Item{{kind: "col", col: "rid"}}, items...)
			}
			if projected {
				feats = append(feats, "order.projected")
			} else {
				feats = append(feats, "order.unprojected")
			}
			sql += " ORDER BY " + key + gen.Pick(c.R, []string{"", " ASC", " DESC"})
		}
		// DISTINCT drops repeated output rows; every source row is still evaluated
		distinct := !dual && !ordered && len(d1) > 0 && (force == "distinct" && qi == 0 || force == "" && c.Chance(0.1))
		if distinct {
			// few distinct output rows: one small-domain column next to the register writes
			var kept []c20Item
			for _, it := range items {
				if it.kind == "set" || it.kind == "caseset" {
					kept = append(kept, it)
				}
			}
			// (the source rows repeat as a whole: table d1 has no row ids)
			for i := range kept {
				kept[i].kind, kept[i].expr = "set", gen.ColRef{Name: gen.Pick(c.R, []string{"s1", "b1"})}
			}
			items = append([]c20Item{{kind: "col", col: "b1"}}, kept...)
			items = append(items, c20Item{kind: "set", key: keys[0], expr: gen.ColRef{Name: "s1"}})
			where = nil
			rowsOf = d1
			parts = parts[:0]
			for _, it := range items {
				switch it.kind {
				case "caseset":
					parts = append(parts, "CASE WHEN "+gen.RenderPred(it.cond, ro)+" THEN SETVAR("+keySQL(it.key)+", "+gen.RenderExpr(it.expr, ro)+") ELSE SETVAR("+keySQL(it.key2)+", "+gen.RenderExpr(it.expr2, ro)+") END")
				case "set":
					parts = append(parts, "SETVAR("+keySQL(it.key)+", "+gen.RenderExpr(it.expr, ro)+")")
				default:
					parts = append(parts, it.col)
				}
			}
			sql = "SELECT DISTINCT " + strings.Join(parts, ", ") + " FROM d1"
			feats = append(feats, "distinct")
		}
		history = append(history, sql)
		// model
		var want []any
		for _, row := range rowsOf {
			env := ref.Env{Row: row}
			if where != nil {
				ok, err := ref.EvalPred(where, env)
				if err != nil {
					c.Discard("reference: " + err.Error())
					return
				}
				if !ok {
					continue
				}
			}
			out := map[string]any{}
			setInRow := map[string]bool{}
			for _, it := range items {
				if it.kind == "caseset" {
					taken, err := ref.EvalPred(it.cond, env)
					if err != nil {
						c.Discard("reference: " + err.Error())
						return
					}
					it.kind = "set"
					if !taken {
						it.key, it.expr = it.key2, it.expr2
					}
				}
				switch it.kind {
				case "set":
					v, err := ref.EvalExpr(it.expr, env)
					if err != nil {
						if errors.Is(err, ref.ErrDomain) {
							c.Discard("domain")
							return
						}
						c.Discard("reference: " + err.Error())
						return
					}
					if _, had := model[it.key]; had && everSet[it.key] {
						feats = append(feats, "set.overwrite")
					}
					model[it.key] = v
					everSet[it.key] = true
					setInRow[it.key] = true
					feats = append(feats, "set")
				case "subget":
					v, ok := model[it.key]
					if !ok {
						v = nil
					} else if everSet[it.key] {
						observedWrite = true
					}
					out[it.alias] = map[string]any{"g": v}
				case "get":
					v, ok := model[it.key]
					if !ok {
						v = nil
						feats = append(feats, "get.unset")
					} else if everSet[it.key] {
						observedWrite = true
						if setInRow[it.key] {
							feats = append(feats, "get.after-set-same-row")
						}
					}
					if !setInRow[it.key] {
						for _, later := range items {
							if later.kind == "set" && later.key == it.key {
								feats = append(feats, "get.before-set-same-row")
							}
						}
					}
					out[it.alias] = v
					feats = append(feats, "get")
				default:
					out[it.col] = row[it.col]
				}
			}
			want = append(want, out)
		}
		if distinct {
			want = dedupFirst(want)
		}
		plan = append(plan, c20Step{sql: sql, want: want, store: val.CopyMap(model), ordered: ordered})
	}
	// execution: either each query is constructed and executed in turn, or -
	// 'prebuilt' - every query of the history is constructed first (all given
	// the same map) and only then executed in order; evaluation order is the
	// order of the Exec calls either way
	// the other per-query options do not take the variables away
	extraOpts := func() []genql.QueryOption { return nil }
	if force == "opt.callback" || c.Chance(0.3) {
		feats = append(feats, "opt.callback")
		extraOpts = func() []genql.QueryOption {
			return []genql.QueryOption{genql.CompletedCallback(func() {}), genql.UnReportedErrors(func(error) {}), genql.WithConstants(map[string]any{"c": 1.0})}
		}
	}
	prebuilt := force == "prebuilt" || (force == "" && len(plan) > 1 && c.Chance(0.3))
	var built []*genql.Query
	if prebuilt {
		feats = append(feats, "prebuilt")
		for qi, st := range plan {
			q, err := genql.New(val.CopyMap(doc), st.sql, append(extraOpts(), genql.WithVars(vars))...)
			if err != nil {
				c.Feature(feats...)
				c.Violate("error", fmt.Sprintf("query %d of the history could not be constructed: %v", qi, err), map[string]any{"history": history, "doc": doc})
				return
			}
			built = append(built, q)
		}
	}
	for qi, st := range plan {
		want, model := st.want, st.store
		var o Outcome
		if prebuilt {
			o = execBuilt(built[qi])
		} else {
			o = Run(val.CopyMap(doc), st.sql, append(extraOpts(), genql.WithVars(vars))...)
		}
		c.Evals(1)
		det := map[string]any{"history": history, "doc": doc, "expected_rows": val.Show(want), "observed": o.Describe(), "expected_store": val.Show(model), "observed_store": val.Show(vars)}
		if !o.OK() {
			c.Feature(feats...)
			c.Violate("error", fmt.Sprintf("query %d of the history failed: %v", qi, o.Describe()), det)
			return
		}
		sameRows := val.SameSeq(o.Rows, want)
		if st.ordered {
			// the output order is C05's business; the values each row saw are not
			sameRows = val.SameMultiset(o.Rows, want)
		}
		if !(len(o.Rows) == 0 && len(want) == 0) && !sameRows {
			c.Feature(feats...)
			kind := "wrong-value"
			if len(o.Rows) == len(want) && len(want) > 0 {
				if g, ok := o.Rows[0].(map[string]any); ok && len(g) != len(want[0].(map[string]any)) {
					kind = "extra-column"
				}
			}
			c.Violate(kind, fmt.Sprintf("query %d: rows differ from the register model: got %s want %s", qi, short(val.Canon(o.Rows), 300), short(val.Canon(want), 300)), det)
			return
		}
		sameStore := val.Equal(vars, model)
		if numKeys {
			// how a numeric key is spelled in the caller's map is the
			// library's choice: one entry per register, holding its last value
			var got, exp []any
			for _, v := range vars {
				got = append(got, v)
			}
			for _, v := range model {
				exp = append(exp, v)
			}
			sameStore = len(got) == len(exp) && (len(got) == 0 || val.SameMultiset(got, exp))
		}
		if !sameStore {
			c.Feature(feats...)
			c.Violate("store", fmt.Sprintf("after query %d the caller's map is %s, the model's store is %s", qi, short(val.Canon(vars), 200), short(val.Canon(model), 200)), det)
			return
		}
	}
	c.Feature(feats...)
	c.Sample(map[string]any{"history": history, "initial_vars_keys": len(vars), "rows": len(t.Rows)})
	if observedWrite {
		c.Nontrivial(strings.Join(history, ";") + val.Canon(t.Array()))
	}
}

// c20Grouped: registers in the select list of a grouped query. The order in
// which groups are evaluated is not defined by the property, so the oracle
// uses order-independent consequences of "each group's select list is
// evaluated once, left to right, against one store": a counter incremented per
// group ends at the number of groups and the groups see 1..G; exactly one
// group reads `prev` before any write; the other groups' `prev` values and the
// final store value are the G group keys, each once.
func c20Grouped(c *fw.Case) {
	t := gen.RandTable(c.R, gen.TableSpec{Name: "t1", MinRows: 1, MaxRows: pick(c.Tier, 12, 30), NumCols: 1, StrCols: 1, StrStyle: gen.Plain, PoolSize: 2 + c.Intn(4)})
	having := c.Idx%2 == 0
	sql := "SELECT s1, GETVAR('prev') AS prev, SETVAR('prev', s1), SETVAR('c', GETVAR('c') + 1), GETVAR('c') AS c, COUNT(*) AS n FROM t1 GROUP BY s1"
	c.Feature("grouped")
	if having {
		sql += gen.Pick(c.R, []string{" HAVING COUNT(*) >= 1", " HAVING COUNT(*) > 0", " HAVING MAX(n1) >= MIN(n1)"})
		c.Feature("grouped.having")
	}
	groups := map[string]bool{}
	for _, r := range t.Rows {
		groups[r["s1"].(string)] = true
	}
	G := len(groups)
	vars := map[string]any{"c": 0.0}
	o := Run(DocOf(t), sql, genql.WithVars(vars))
	c.Evals(1)
	c.Sample(map[string]any{"sql": sql, "groups": G})
	det := map[string]any{"sql": sql, "doc": DocOf(t), "observed": o.Describe(), "observed_store": val.Show(vars), "groups": G}
	if !o.OK() {
		c.Violate("error", fmt.Sprintf("grouped query with registers failed: %v", o.Describe()), det)
		return
	}
	if len(o.Rows) != G {
		c.Violate("wrong-value", fmt.Sprintf("%d groups out, the table has %d", len(o.Rows), G), det)
		return
	}
	seenC := map[float64]bool{}
	prevs := map[string]int{}
	nulls := 0
	for _, r := range o.Rows {
		m, _ := r.(map[string]any)
		cv, _ := val.Rat(val.Deref(m["c"])).Float64()
		seenC[cv] = true
		switch p := val.Deref(m["prev"]).(type) {
		case nil:
			nulls++
		case string:
			prevs[p]++
		}
	}
	for i := 1; i <= G; i++ {
		if !seenC[float64(i)] {
			c.Violate("wrong-value", fmt.Sprintf("a counter incremented once per group must show 1..%d over the groups; %d is missing (a select list evaluated more or less than once per group)", G, i), det)
			return
		}
	}
	if fc, _ := val.Rat(vars["c"]).Float64(); fc != float64(G) {
		c.Violate("store", fmt.Sprintf("after Exec the counter in the caller's map is %v, one increment per group gives %d", vars["c"], G), det)
		return
	}
	if nulls != 1 {
		c.Violate("wrong-value", fmt.Sprintf("%d groups read `prev` as NULL; exactly the first evaluated group reads it before any write", nulls), det)
		return
	}
	if last, ok := vars["prev"].(string); ok {
		prevs[last]++
	}
	for g := range groups {
		if prevs[g] != 1 {
			c.Violate("wrong-value", fmt.Sprintf("group key %q was observed %d times as the previous value (incl. the final store); a single pass makes every key the previous value exactly once", g, prevs[g]), det)
			return
		}
	}
	// a later query given the same map continues from there
	after := Run(map[string]any{}, "SELECT GETVAR('c') AS c FROM dual", genql.WithVars(vars))
	if !after.OK() || len(after.Rows) != 1 || !val.Equal(val.Deref(after.Rows[0].(map[string]any)["c"]), float64(G)) {
		det["later_query"] = after.Describe()
		c.Violate("store", fmt.Sprintf("a later query given the same map reads c = %v, expected %d", after.Describe(), G), det)
		return
	}
	if G >= 2 {
		c.Nontrivial(sql + val.Canon(t.Array()))
	}
}

// c20Union: registers on both sides of a UNION ALL. The rows of the left
// branch come first and are evaluated first, whatever the right branch is made
// of (a derived table, a CTE, a parenthesised union): a counter incremented per
// row reads 1..n down the result, the right branch sees what the left branch
// stored last, and the caller's map ends with the right branch's last write.
func c20Union(c *fw.Case) {
	t := gen.RandTable(c.R, gen.TableSpec{Name: "t1", MinRows: 1, MaxRows: pick(c.Tier, 8, 20), NumCols: 1, StrCols: 1, StrStyle: gen.Plain})
	u := gen.RandTable(c.R, gen.TableSpec{Name: "u1", MinRows: 1, MaxRows: 6, NumCols: 1, StrCols: 1, StrStyle: gen.Plain})
	item := "SETVAR('c', GETVAR('c') + 1), GETVAR('c') AS c, GETVAR('last') AS seen, SETVAR('last', rid)"
	left := "SELECT rid, " + item + " FROM t1"
	shapes := []struct{ feat, right string }{
		{"union.plain", "SELECT rid, " + item + " FROM u1"},
		{"union.derived-right", "SELECT d.rid, d.c, d.seen FROM (SELECT rid, " + item + " FROM u1) d"},
		{"union.cte-right", "SELECT rid, c, seen FROM w"},
		{"union.nested-right", "(SELECT rid, " + item + " FROM u1 UNION ALL SELECT rid, " + item + " FROM u1)"},
		{"union.cte-chain3", ""},
	}
	sh := shapes[c.Idx%len(shapes)]
	sql := left + " UNION ALL " + sh.right
	if sh.feat == "union.cte-right" {
		sql = "WITH w AS (SELECT rid, " + item + " FROM u1) " + sql
	}
	c.Feature(sh.feat)
	// model: left rows, then right rows (twice for the nested union)
	var order []map[string]any
	order = append(order, t.Rows...)
	order = append(order, u.Rows...)
	if sh.feat == "union.nested-right" {
		order = append(order, u.Rows...)
	}
	if sh.feat == "union.cte-chain3" {
		// a CTE that every branch of a chain reads: its body - and the registers it writes - run once
		branch := "SELECT rid, c, seen FROM w"
		sql = "WITH w AS (SELECT rid, " + item + " FROM u1) " + branch + " UNION ALL " + branch + " UNION ALL " + branch
		if c.Chance(0.4) {
			sql += " UNION ALL " + branch
		}
		order = append([]map[string]any{}, u.Rows...)
	}
	var want []any
	var last any
	for i, r := range order {
		want = append(want, map[string]any{"rid": r["rid"], "c": float64(i + 1), "seen": last})
		last = r["rid"]
	}
	if sh.feat == "union.cte-chain3" {
		once := want
		want = nil
		for i := 0; i < strings.Count(sql, "FROM w"); i++ {
			want = append(want, once...)
		}
	}
	vars := map[string]any{"c": 0.0}
	doc := DocOf(t, u)
	o := Run(val.CopyMap(doc), sql, genql.WithVars(vars))
	c.Evals(1)
	c.Sample(map[string]any{"sql": sql, "rows": len(order)})
	det := map[string]any{"sql": sql, "doc": doc, "expected_rows": val.Show(want), "observed": o.Describe(), "observed_store": val.Show(vars)}
	if !o.OK() {
		c.Violate("error", fmt.Sprintf("union with registers failed: %v", o.Describe()), det)
		return
	}
	if !val.SameSeq(o.Rows, want) {
		c.Violate("wrong-value", fmt.Sprintf("rows differ from the register model (left branch first, rows in source order): got %s want %s", short(val.Canon(o.Rows), 300), short(val.Canon(want), 300)), det)
		return
	}
	if !val.Equal(vars["c"], float64(len(order))) || !val.Equal(vars["last"], last) {
		c.Violate("store", fmt.Sprintf("after Exec the caller's map is %s, the last values written are c=%d last=%v", short(val.Canon(vars), 200), len(order), last), det)
		return
	}
	later := Run(val.CopyMap(doc), "SELECT GETVAR('c') AS c, GETVAR('last') AS l FROM dual", genql.WithVars(vars))
	if !later.OK() || !val.SameSeq(later.Rows, []any{map[string]any{"c": float64(len(order)), "l": last}}) {
		det["later"] = later.Describe()
		c.Violate("store", fmt.Sprintf("a later query given the same map observes %s", short(fmt.Sprint(later.Describe()), 200)), det)
		return
	}
	c.Nontrivial(sql + val.Canon(doc))
}

// c20Reexec: a predicate that reads only a register. One Query kept and
// executed again after another query (given the same map) changed the register
// observes the new value; over an array of arrays, the inner arrays are
// evaluated one after the other against the one store.
func c20Reexec(c *fw.Case) {
	if c.Idx%4 == 3 {
		// queries that differ only inside a string constant (runs of blanks,
		// tabs, line feeds): each writes the value, and the key, it spells
		vars := map[string]any{}
		texts := []string{"a b", "a  b", "a\tb", "a \n b", " a b", "a b ", "a   b"}
		c.R.Shuffle(len(texts), func(i, j int) { texts[i], texts[j] = texts[j], texts[i] })
		asKey := c.Chance(0.4)
		c.Feature("literal.whitespace")
		for i, txt := range texts[:2+c.Intn(4)] {
			sql := "SELECT SETVAR('k', " + gen.SQLString(txt, 0) + "), GETVAR('k') AS g FROM dual"
			want := map[string]any{"g": txt}
			if asKey {
				sql = "SELECT SETVAR(" + gen.SQLString(txt, 0) + ", " + fmt.Sprint(i) + "), GETVAR(" + gen.SQLString(txt, 0) + ") AS g FROM dual"
				want = map[string]any{"g": float64(i)}
			}
			o := Run(map[string]any{}, sql, genql.WithVars(vars))
			c.Evals(1)
			stored := vars["k"]
			wantStored := any(txt)
			if asKey {
				stored, wantStored = vars[txt], float64(i)
			}
			if !o.OK() || !val.SameSeq(o.Rows, []any{want}) || !val.Equal(stored, wantStored) {
				c.Violate("wrong-value", fmt.Sprintf("query %d (%q) returned %s and left the map %s", i, sql, short(fmt.Sprint(o.Describe()), 150), short(val.Canon(vars), 200)),
					map[string]any{"sql": sql, "observed": o.Describe(), "observed_store": val.Show(vars)})
				return
			}
		}
		c.Nontrivial(fmt.Sprint(texts, asKey))
		return
	}
	if c.Idx%3 == 2 {
		// rows spread over inner arrays: an inner array's WHERE sees what the
		// select lists of the inner arrays before it stored
		n := 2 + c.Intn(4)
		mm := make([]any, n)
		next := 1.0
		var want []any
		on := 0.0
		limit := float64(1 + c.Intn(6))
		for i := range mm {
			inner := make([]any, 1+c.Intn(3))
			var keep []any
			pass := on < limit
			for j := range inner {
				inner[j] = map[string]any{"a": next}
				if pass {
					keep = append(keep, map[string]any{"a": next})
				}
				next++
			}
			if pass {
				on = next - 1
			}
			mm[i] = inner
			want = append(want, keep)
		}
		sql := fmt.Sprintf("SELECT a, SETVAR('on', a) FROM mm WHERE GETVAR('on') < %v", limit)
		vars := map[string]any{"on": 0.0}
		o := Run(map[string]any{"mm": mm}, sql, genql.WithVars(vars))
		c.Evals(1)
		c.Feature("multidim.register-where")
		c.Sample(map[string]any{"sql": sql, "inner_arrays": n})
		det := map[string]any{"sql": sql, "doc": map[string]any{"mm": mm}, "expected_rows": val.Show(want), "observed": o.Describe(), "observed_store": val.Show(vars)}
		if !o.OK() {
			c.Violate("error", fmt.Sprintf("query failed: %v", o.Describe()), det)
			return
		}
		if !c14Same(o.Rows, want) {
			c.Violate("wrong-value", fmt.Sprintf("rows differ from the register model: got %s want %s", short(val.Canon(o.Rows), 300), short(val.Canon(want), 300)), det)
			return
		}
		if !val.Equal(vars["on"], on) {
			c.Violate("store", fmt.Sprintf("after Exec the register holds %v, the last value written is %v", vars["on"], on), det)
			return
		}
		c.Nontrivial(sql + val.Canon(mm))
		return
	}
	t := gen.RandTable(c.R, gen.TableSpec{Name: "t1", MinRows: 1, MaxRows: 8, NumCols: 1, StrCols: 1, StrStyle: gen.Plain})
	doc := DocOf(t)
	vars := map[string]any{"enabled": 1.0}
	sql := gen.Pick(c.R, []string{"SELECT rid FROM t1 WHERE GETVAR('enabled') = 1", "SELECT rid, s1 FROM t1 WHERE 1 = GETVAR('enabled')", "SELECT rid FROM t1 WHERE GETVAR('enabled') = 1 AND GETVAR('enabled') >= 1", "SELECT rid FROM t1 WHERE NOT (GETVAR('enabled') = 0)"})
	q, nerr := newSafe(doc, sql, genql.WithVars(vars))
	if q == nil {
		c.Violate("error", fmt.Sprintf("query could not be constructed: %v", nerr.Describe()), map[string]any{"sql": sql})
		return
	}
	c.Feature("reexec.register-where")
	enabled := 1.0
	for i := 1; i <= 5; i++ {
		if i > 1 {
			enabled = float64(c.Intn(2))
			// another query, given the same map, writes the register
			w := Run(map[string]any{}, fmt.Sprintf("SELECT SETVAR('enabled', %v) FROM dual", enabled), genql.WithVars(vars))
			if !w.OK() || !val.Equal(vars["enabled"], enabled) {
				c.Violate("store", fmt.Sprintf("SETVAR over dual did not store: %v, map %s", w.Describe(), val.Canon(vars)), map[string]any{"vars": vars})
				return
			}
		}
		got := execBuilt(q)
		c.Evals(1)
		wantN := 0
		if enabled == 1 {
			wantN = len(t.Rows)
		}
		if !got.OK() || len(got.Rows) != wantN {
			c.Violate("wrong-value", fmt.Sprintf("execution %d with the register at %v returned %d rows, expected %d", i, enabled, len(got.Rows), wantN),
				map[string]any{"sql": sql, "doc": doc, "execution": i, "register": enabled, "observed": got.Describe()})
			return
		}
	}
	c.Sample(map[string]any{"sql": sql})
	c.Nontrivial(sql + val.Canon(t.Array()))
}

// c20Native: a register holds the value that was stored - also when the
// document was built by Go code and the value is a native integer (an id or a
// nanosecond timestamp beyond 2^53), a float32, or an empty string. GETVAR
// returns that very value, the caller's map holds it, and a second query given
// the map reads it.
func c20Native(c *fw.Case) {
	pool := []any{int64(9007199254740993), int64(9007199254740995), uint64(18446744073709551615), int64(-9223372036854775807), int(4611686018427387905), uint64(9223372036854775809),
		int8(-7), uint16(65535), int32(2147483647), float32(0.1), float32(16777217), "", "0", 0.0, false, int64(1), 1.0, uint8(255)}
	n := 1 + c.Intn(6)
	rows := make([]any, n)
	for i := range rows {
		rows[i] = map[string]any{"rid": float64(i), "big": gen.Pick(c.R, pool)}
	}
	doc := map[string]any{"t1": rows}
	vars := map[string]any{}
	if c.Chance(0.3) {
		vars["k"] = "init"
	}
	sql := "SELECT rid, SETVAR('k', big), GETVAR('k') AS g FROM t1"
	dual := c.Chance(0.2)
	if dual {
		doc["big"] = rows[n-1].(map[string]any)["big"]
		sql = "SELECT SETVAR('k', big), GETVAR('k') AS g FROM dual"
	}
	o := Run(doc, sql, genql.WithVars(vars))
	c.Evals(1)
	c.Feature("native.stored-as-is")
	det := map[string]any{"sql": sql, "doc": val.Show(doc), "observed": o.Describe(), "vars": fmt.Sprintf("%#v", vars)}
	if !o.OK() {
		c.Violate("error", fmt.Sprintf("register query failed: %v", o.Describe()), det)
		return
	}
	wantRows := n
	if dual {
		wantRows = 1
	}
	if len(o.Rows) != wantRows {
		c.Violate("wrong-value", fmt.Sprintf("%d rows, expected %d", len(o.Rows), wantRows), det)
		return
	}
	same := func(a, b any) bool { return reflect.DeepEqual(a, b) }
	for i, r := range o.Rows {
		m, _ := r.(map[string]any)
		want := rows[i].(map[string]any)["big"]
		if dual {
			want = doc["big"]
		}
		if !same(val.Deref(m["g"]), want) {
			c.Violate("wrong-value", fmt.Sprintf("row %d: GETVAR('k') = %#v right after SETVAR('k', big) with big = %#v", i, val.Deref(m["g"]), want), det)
			return
		}
	}
	last := rows[n-1].(map[string]any)["big"]
	if !same(vars["k"], last) {
		c.Violate("store", fmt.Sprintf("after Exec the caller's map holds %#v, the last value written is %#v", vars["k"], last), det)
		return
	}
	o2 := Run(map[string]any{}, "SELECT GETVAR('k') AS g FROM dual", genql.WithVars(vars))
	c.Evals(1)
	if !o2.OK() || len(o2.Rows) != 1 || !same(val.Deref(o2.Rows[0].(map[string]any)["g"]), last) {
		c.Violate("wrong-value", fmt.Sprintf("a later query given the map reads %s, the register holds %#v", o2.Describe(), last), det)
		return
	}
	c.Sample(map[string]any{"sql": sql, "last": fmt.Sprintf("%#v", last)})
	c.Nontrivial(sql + fmt.Sprintf("%#v", rows))
}
