package props

import (
	"fmt"
	"strings"

	"verifharness/internal/fw"
	"verifharness/internal/gen"
	"verifharness/internal/ref"
	"verifharness/internal/val"
)

var c17Floor = []string{"after-rejected", "after-other-reading", "comment", "opts.none", "opts.W", "opts.P", "opts.I", "opts.WP", "opts.WI", "opts.PI", "opts.WPI", "spell.dq", "spell.brackets", "spell.neutral-under-option",
	"lit.dquote", "lit.squote", "lit.backtick", "lit.backslash", "lit.bracket", "ident.dquote-in-backtick", "ident.bracket", "ident.space", "array.nested", "array.empty", "array.with-bracket-literal", "array.glued", "ident.backslash-end", "ident.backslash-end.dq", "ident.dquote-doubled", "ident.backtick-inside", "path.bracket", "where", "shape.derived", "shape.cte", "shape.union", "shape.with-shadow", "shape.with-body", "wrapped.root-document"}

func init() {
	fw.Register(&fw.Prop{
		ID:    "C17",
		Title: "Dialect options rewrite only syntax and preserve query meaning",
		Level: "exploration",
		Rule: "wrapped over a document whose one top-level key is root. double-quoted identifiers ending in a backslash. the same text evaluated without the options just before (bare FROM table); WITH scopes inside derived tables and CTE bodies under Wrapped; identifiers ending in a backslash; array literals glued to a keyword. a quarter of the cases first evaluate a query text the option rewrite or the parser rejects. each case = a query AST (filter from the C01 grammar + select list of string literals and aliases over an alphabet of \" ' ` \\ [ ] letters and space, array literals nested 0..4 deep incl. empty arrays and arrays next to literals containing brackets, back-tick selector paths with [i], plain columns) " +
			"x one of the 2^3 option sets (forced round-robin). The query is rendered in the spelling the option set calls for (double-quoted identifiers under PostgresEscapingDialect, [..] under IdiomaticArrays, raw document under Wrapped - or, for a share of the cases, the neutral spelling, which the option must leave alone) and executed; " +
			"it must return exactly what the canonical spelling (back-ticks, ARRAY(..), document passed as {\"root\": d}) returns without options, and the canonical result itself must echo every literal / alias / array / path value untouched. " +
			"Non-trivial = an option set with at least one option and a select list containing a hostile literal, alias or nested array; distinct = distinct (document, SQL, options).",
		Assumptions: []string{
			"an identifier never contains its own delimiter, and an identifier spelled with double quotes contains no back-tick (how those map is not defined by the property)",
			"unbalanced input belongs to C10, not here",
		},
		Floor:         c17Floor,
		MinNontrivial: 100,
		Phases: []fw.Phase{
			{Name: "options", N: func(t fw.Tier) int { return pick(t, 20000, 600000) }, Run: c17Run},
		},
		Witness: sqlWitness,
	})
}

var c17LitAtoms = []string{"\"", "'", "`", "\\", "[", "]", "a", "B", " ", "[1]", "x]", "[y", "\"q\"", "it's", "\\'", "\\\\", "é", "$1", ",", "(", ")"}
var c17IdentAtoms = []string{"a", "B", " ", "[", "]", "[0]", "'", "x", "1", "é", "-", ".", "(", ")", ","}

type c17Item struct {
	kind  string // str, arr, col, path, num
	s     string
	arr   []any
	col   string
	alias string
	bt    bool // alias must be spelled with back-ticks (contains a double quote)
}

func c17Arr(c *fw.Case, depth int, feats *[]string) []any {
	n := c.Intn(4)
	if n == 0 {
		*feats = append(*feats, "array.empty")
	}
	a := make([]any, n)
	for i := range a {
		switch {
		case depth > 0 && c.Chance(0.35):
			a[i] = c17Arr(c, depth-1, feats)
			*feats = append(*feats, "array.nested")
		case c.Chance(0.4):
			s := ""
			for k := 0; k < 1+c.Intn(3); k++ {
				s += gen.Pick(c.R, c17LitAtoms)
			}
			if strings.ContainsAny(s, "[]") {
				*feats = append(*feats, "array.with-bracket-literal")
			}
			a[i] = s
		default:
			a[i] = float64(c.Intn(20))
		}
	}
	return a
}

func renderArr(a []any, brackets bool, style int) string {
	parts := make([]string, len(a))
	for i, x := range a {
		if s, ok := x.([]any); ok {
			parts[i] = renderArr(s, brackets, style)
		} else {
			parts[i] = gen.SQLLit(x, style)
		}
	}
	if brackets {
		return "[" + strings.Join(parts, ", ") + "]"
	}
	return "ARRAY(" + strings.Join(parts, ", ") + ")"
}

func c17Run(c *fw.Case) {
	var feats []string
	optIdx := c.Idx % 8
	o := OptSet{Wrapped: optIdx&1 != 0, PG: optIdx&2 != 0, Idiomatic: optIdx&4 != 0}
	name := "opts."
	if o.Wrapped {
		name += "W"
	}
	if o.PG {
		name += "P"
	}
	if o.Idiomatic {
		name += "I"
	}
	if name == "opts." {
		name = "opts.none"
	}
	feats = append(feats, name)
	force := ""
	if c.Idx < 4*len(c17Floor) {
		force = c17Floor[c.Idx%len(c17Floor)]
	}
	// a query text the option's rewrite (or the parser) rejects, evaluated just
	// before: what a rejected query leaves behind must not reach the next one
	if force == "after-rejected" || c.Chance(0.25) {
		bad := gen.Pick(c.R, []string{"SELECT 'say \\", "SELECT \"col\\", "SELECT \"a\" FROM t1 WHERE s1 = 'x\\", "SELECT [1, [2", "SELECT \"a", "SELECT 'it''s \" and \\"})
		ro := OptSet{PG: c.Chance(0.8), Idiomatic: c.Chance(0.5), Wrapped: c.Chance(0.2)}
		r := Run(map[string]any{"t1": []any{}}, bad, ro.Options()...)
		if r.Panic != nil {
			c.Violate("panic", fmt.Sprintf("a rejected query text panicked: %v", r.Panic), map[string]any{"sql": bad, "options": ro.Names()})
			return
		}
		if r.Err != nil {
			feats = append(feats, "after-rejected")
		}
	}
	// document
	t := gen.RandTable(c.R, gen.TableSpec{Name: "t1", MinRows: 1, MaxRows: pick(c.Tier, 6, 12), NumCols: 2, StrCols: 1, BoolCols: 1, StrStyle: gen.Hostile})
	for _, row := range t.Rows {
		row["arr"] = []any{map[string]any{"v": float64(c.Intn(9))}, map[string]any{"v": "s"}}
	}
	d := DocOf(t)
	// a document whose one top-level element is itself called root: Wrapped()
	// wraps it like any other input
	fromPath := "root.t1"
	if o.Wrapped && (force == "wrapped.root-document" || (force == "" && c.Chance(0.3))) {
		d = map[string]any{"root": d}
		fromPath = "root.root.t1"
		feats = append(feats, "wrapped.root-document")
	}
	// items
	var items []c17Item
	hostile := false
	mkAlias := func(i int, allowDQ bool) (string, bool) {
		if c.Chance(0.5) && force != "ident.dquote-in-backtick" && force != "ident.bracket" && force != "ident.space" {
			return fmt.Sprintf("c%d", i), false
		}
		s := fmt.Sprintf("k%d", i)
		for k := 0; k < 1+c.Intn(3); k++ {
			s += gen.Pick(c.R, c17IdentAtoms)
		}
		if force == "ident.bracket" {
			s += "[0]"
		}
		if force == "ident.space" {
			s += " x"
		}
		bt := false
		if allowDQ && (force == "ident.dquote-in-backtick" || c.Chance(0.15)) {
			s += "\"q"
			bt = true
			feats = append(feats, "ident.dquote-in-backtick")
		}
		if !bt && allowDQ && (force == "ident.dquote-doubled" || c.Chance(0.08)) {
			// a double quote inside the name: doubled under the double-quoted spelling
			s += "\"d"
			feats = append(feats, "ident.dquote-doubled")
		}
		if allowDQ && (force == "ident.backtick-inside" || c.Chance(0.06)) {
			// a back-tick inside the name: doubled under the back-ticked spelling
			s += "`t"
			feats = append(feats, "ident.backtick-inside")
		}
		if allowDQ && (force == "ident.backslash-end" || c.Chance(0.08)) {
			// an identifier that ends in a backslash (no escapes there), back-ticked
			// or - under the option - double-quoted
			s = strings.TrimRight(s, " ") + "\\"
			bt = c.Idx%2 == 0
			feats = append(feats, "ident.backslash-end")
			if !bt {
				feats = append(feats, "ident.backslash-end.dq")
			}
		}
		if strings.ContainsAny(s, "[]") {
			feats = append(feats, "ident.bracket")
		}
		if strings.Contains(s, " ") {
			feats = append(feats, "ident.space")
		}
		hostile = true
		return strings.TrimRight(s, " "), bt
	}
	n := 1 + c.Intn(5)
	for i := 0; i < n; i++ {
		it := c17Item{}
		it.alias, it.bt = mkAlias(i, true)
		switch k := c.Intn(10); {
		case k < 4 || (i == 0 && strings.HasPrefix(force, "lit.")):
			it.kind = "str"
			for j := 0; j < c.Intn(5); j++ {
				it.s += gen.Pick(c.R, c17LitAtoms)
			}
			switch force {
			case "lit.dquote":
				it.s += "\""
			case "lit.squote":
				it.s += "'"
			case "lit.backtick":
				it.s += "`"
			case "lit.backslash":
				it.s += "\\"
			case "lit.bracket":
				it.s += "[x]"
			}
			for ch, f := range map[string]string{"\"": "lit.dquote", "'": "lit.squote", "`": "lit.backtick", "\\": "lit.backslash", "[": "lit.bracket", "]": "lit.bracket"} {
				if strings.Contains(it.s, ch) {
					feats = append(feats, f)
					hostile = true
				}
			}
		case k < 7 || (i == 0 && strings.HasPrefix(force, "array.")):
			it.kind = "arr"
			it.arr = c17Arr(c, 3, &feats)
			if force == "array.nested" {
				it.arr = append(it.arr, []any{1.0, []any{"[", 2.0}})
				feats = append(feats, "array.nested", "array.with-bracket-literal")
			}
			if force == "array.empty" {
				it.arr = append(it.arr, []any{})
				feats = append(feats, "array.empty")
			}
			if force == "array.with-bracket-literal" {
				it.arr = append(it.arr, "]x[")
				feats = append(feats, "array.with-bracket-literal")
			}
			hostile = true
		case k == 7 || (i == 0 && force == "path.bracket"):
			it.kind = "path"
			it.col = gen.Pick(c.R, []string{"arr[0].v", "arr[1].v", "arr[each].v"})
			feats = append(feats, "path.bracket")
			hostile = true
		case k == 8:
			it.kind = "num"
			it.s = gen.SQLNum(gen.RandNum(c.R))
		default:
			it.kind = "col"
			it.col = gen.Pick(c.R, []string{"n1", "s1", "b1", "rid"})
		}
		items = append(items, it)
	}
	var where gen.Pred
	if force == "where" || c.Chance(0.5) {
		where = (&gen.PredGen{R: c.R, T: t, MaxDepth: 2, Disable: map[string]bool{"in.subquery": true, "isnull": true, "isnotnull": true}}).Gen()
		feats = append(feats, "where")
	}
	style := c.Intn(2)
	shape := ""
	switch {
	case strings.HasPrefix(force, "shape."):
		shape = strings.TrimPrefix(force, "shape.")
	case force == "" && c.Chance(0.4):
		shape = gen.Pick(c.R, []string{"derived", "cte", "union", "with-shadow", "with-body"})
	}
	if shape != "" {
		feats = append(feats, "shape."+shape)
	}
	if shape == "with-shadow" || shape == "with-body" {
		// a column to join on
		items = append(items, c17Item{kind: "num", s: "1", alias: "jk"})
	}
	bareFrom := c.Chance(0.4)
	glued := force == "array.glued" || c.Chance(0.15)
	render := func(dq, brackets bool) string {
		q := gen.QBacktick
		if dq {
			q = gen.QDouble
		}
		parts := make([]string, len(items))
		for i, it := range items {
			var e string
			switch it.kind {
			case "str":
				e = gen.SQLString(it.s, style)
			case "arr":
				e = renderArr(it.arr, brackets, style)
			case "num":
				e = it.s
			case "path", "col":
				e = gen.Ident(it.col, q)
			}
			aq := q
			if it.bt {
				aq = gen.QBacktick
			}
			parts[i] = e + " AS " + gen.Ident(it.alias, aq)
		}
		// an array literal glued to the keyword in front of it
		if glued && brackets && len(parts) > 0 && strings.HasPrefix(parts[0], "[") {
			parts[0] = "\x00" + parts[0]
		}
		from := gen.Ident(fromPath, q)
		if bareFrom && fromPath == "root.t1" {
			// the table named without quotes: the text can then be read without the option too
			// (a path of three parts cannot be written without quotes)
			from = fromPath
		}
		sql := strings.Replace("SELECT "+strings.Join(parts, ", ")+" FROM "+from, "SELECT \x00", "SELECT", 1)
		if where != nil {
			sql += " WHERE " + gen.RenderPred(where, gen.RenderOpts{Quote: q, StrStyle: style})
		}
		// nested queries see the same (wrapped) document as the outer one
		switch shape {
		case "derived":
			sql = "SELECT * FROM (" + sql + ") q"
		case "cte":
			sql = "WITH c1 AS (" + sql + ") SELECT * FROM c1"
		case "union":
			sql = sql + " UNION ALL " + sql
		case "with-shadow":
			// a WITH inside a derived table has a scope of its own: its c1 is not the outer c1
			sql = "WITH c1 AS (" + sql + ") SELECT * FROM (WITH c1 AS (SELECT 1 AS one FROM dual) SELECT one FROM c1) s JOIN c1 k ON s.one = k.jk"
		case "with-body":
			// so has a WITH inside the body of a CTE
			sql = "WITH a AS (WITH c1 AS (SELECT 1 AS one FROM dual) SELECT one FROM c1), c1 AS (" + sql + ") SELECT * FROM a s JOIN c1 k ON s.one = k.jk"
		}
		return sql
	}
	canonical := render(false, false)
	r0 := Run(map[string]any{"root": val.Copy(d)}, canonical)
	// spelling for the option set: the option's own spelling, or (sometimes)
	// the neutral one which the option must leave alone
	dq := o.PG
	brackets := o.Idiomatic
	if (force == "spell.neutral-under-option" || c.Chance(0.25)) && (o.PG || o.Idiomatic) {
		if c.Chance(0.5) {
			dq = false
		} else {
			brackets = false
		}
		if force == "spell.neutral-under-option" {
			dq, brackets = false, false
		}
		feats = append(feats, "spell.neutral-under-option")
	}
	if dq {
		feats = append(feats, "spell.dq")
	}
	if brackets {
		feats = append(feats, "spell.brackets")
		if glued && len(items) > 0 && items[0].kind == "arr" {
			feats = append(feats, "array.glued")
		}
	}
	sql := render(dq, brackets)
	// a comment holds neither quotes nor brackets, whatever characters it contains
	if force == "comment" || c.Chance(0.25) {
		cm := gen.Pick(c.R, []string{"/* user's \"id\" [1] `x */", "/* it's */", "-- don't [ \"\n", "# it's [0] `\n", "/* [[ */", "// can't \"\n"})
		if i := strings.Index(sql, " FROM "); i >= 0 {
			sql = sql[:i] + " " + cm + sql[i:]
			canonical = strings.Replace(canonical, " FROM ", " "+cm+" FROM ", 1)
			r0 = Run(map[string]any{"root": val.Copy(d)}, canonical)
			feats = append(feats, "comment")
		}
	}
	var doc map[string]any
	if o.Wrapped {
		doc = val.CopyMap(d)
	} else {
		doc = map[string]any{"root": val.Copy(d)}
	}
	if (force == "after-other-reading" || c.Chance(0.2)) && (o.PG || o.Idiomatic) {
		// the very same text evaluated just before without the options (it then
		// means something else, or nothing): what a text means is decided by
		// the options of each call
		_ = Run(val.CopyMap(doc), sql, OptSet{Wrapped: o.Wrapped}.Options()...)
		feats = append(feats, "after-other-reading")
	}
	r1 := Run(doc, sql, o.Options()...)
	c.Evals(2)
	c.Feature(feats...)
	c.Sample(map[string]any{"options": o.Names(), "sql": sql, "canonical": canonical})
	det := map[string]any{"options": o.Names(), "sql": sql, "canonical_sql": canonical, "doc": d, "observed": r1.Describe(), "canonical_result": r0.Describe()}
	// the canonical result must echo everything untouched
	if !r0.OK() {
		c.Violate("canonical-error", fmt.Sprintf("the canonical spelling failed: %v", r0.Describe()), det)
		return
	}
	var want []any
	for _, row := range t.Rows {
		if where != nil {
			ok, err := ref.EvalPred(where, ref.Env{Row: row})
			if err != nil {
				c.Discard("reference: " + err.Error())
				return
			}
			if !ok {
				continue
			}
		}
		out := map[string]any{}
		for _, it := range items {
			switch it.kind {
			case "str":
				out[it.alias] = it.s
			case "arr":
				out[it.alias] = it.arr
			case "num":
				var f float64
				fmt.Sscanf(it.s, "%g", &f)
				out[it.alias] = f
			case "col":
				out[it.alias] = row[it.col]
			case "path":
				arr := row["arr"].([]any)
				switch it.col {
				case "arr[0].v":
					out[it.alias] = arr[0].(map[string]any)["v"]
				case "arr[1].v":
					out[it.alias] = arr[1].(map[string]any)["v"]
				default:
					out[it.alias] = []any{arr[0].(map[string]any)["v"], arr[1].(map[string]any)["v"]}
				}
			}
		}
		want = append(want, out)
	}
	switch shape {
	case "derived":
		for i := range want {
			want[i] = map[string]any{"q": want[i]}
		}
	case "union":
		want = append(append([]any{}, want...), want...)
	case "with-shadow", "with-body":
		for i := range want {
			want[i] = map[string]any{"s": map[string]any{"one": 1.0}, "k": want[i]}
		}
	}
	det["expected"] = val.Show(want)
	if !(len(want) == 0 && len(r0.Rows) == 0) && !sameSelValue(r0.Rows, want) {
		c.Violate("echo", fmt.Sprintf("the canonical spelling does not echo its literals / aliases / arrays untouched: got %s want %s", short(val.Canon(r0.Rows), 300), short(val.Canon(want), 300)), det)
		return
	}
	if r1.Panic != nil {
		c.Violate("panic", fmt.Sprintf("panic under options %v: %v", o.Names(), r1.Panic), det)
		return
	}
	if !r1.OK() {
		c.Violate("option-error", fmt.Sprintf("options %v with the matching spelling failed although the canonical query succeeds: %v", o.Names(), r1.Describe()), det)
		return
	}
	if !(len(r1.Rows) == 0 && len(r0.Rows) == 0) && !sameSelValue(r1.Rows, r0.Rows) {
		c.Violate("meaning-changed", fmt.Sprintf("options %v changed the result: got %s, canonical %s", o.Names(), short(val.Canon(r1.Rows), 300), short(val.Canon(r0.Rows), 300)), det)
		return
	}
	if optIdx != 0 && hostile && len(want) > 0 {
		c.Nontrivial(sql + strings.Join(o.Names(), ",") + val.Canon(d))
	}
}
