package props

import (
	"fmt"
	"regexp"
	"strings"

	"github.com/vedadiyan/genql"

	"verifharness/internal/fw"
	"verifharness/internal/gen"
	"verifharness/internal/val"
)

var c08Floor = []string{"depth.2", "depth.3", "inner.empty", "outer.empty", "mid.empty", "ragged", "where", "item.alias", "item.nonidempotent", "item.star", "item.async", "item.userfn", "mix", "mix.keep", "reexec.after-fault", "opt.vars", "opt.constants", "item.aggregate", "item.all-aggregate", "where.aggregate", "reexec", "naming.table-qualified", "naming.alias", "naming.alias-unqualified", "row.shadows-table", "where.in-computed", "keep.no-function"}

func init() {
	fw.Register(&fw.Prop{
		ID:    "C08",
		Title: "A multi-dimensional FROM applies the query inside every inner array",
		Level: "exploration",
		Rule: "keep=> without a function in front. IN lists whose items are computed from the row. columns qualified by the table's own name, by an alias of the multi-dimensional source, or named without that alias - over nested, flattened and flat sources; rows that carry a column named like the table. WHERE may hold an aggregate (per-inner-array oracle); a third of the cases executes one Query three times. select lists also carry aggregates without GROUP BY (per-inner-array semantics; mix=> is not asserted for them) and GETVAR / CONSTANT under per-query options. each case = a document holding an array of arrays of objects (depth 2..3, ragged, empty inner arrays, empty outer) x a filter/projection query (WHERE from the C01 grammar; select list with *, columns, aliases and non-idempotent expressions such as `(a + 1) AS a`). " +
			"Oracle (metamorphic over real executions): the nested result must have the source's nesting, and every inner array's result must equal what the same WHERE + select list returns when that inner array is supplied as its own table; " +
			"`FROM `mix=>path`` must return the concatenation of those inner results. Non-trivial = at least two inner arrays with a non-empty result and a WHERE that rejects at least one row; distinct = distinct (document, SQL).",
		Assumptions: []string{
			"an empty inner result may come back as nil or [] (a direct run on an empty array also returns nil); number and position of inner arrays are exact",
			"only WHERE and the select list are asserted over nested sources (the property names nothing else)",
		},
		Floor:         c08Floor,
		MinNontrivial: 50,
		Phases: []fw.Phase{
			{Name: "nested", N: func(t fw.Tier) int { return pick(t, 8000, 200000) }, Run: c08Run},
		},
		Witness: sqlWitness,
	})
}

var c08ColRe = regexp.MustCompile(`\b(rid|n1|n2|s1|b1|z1)\b`)

func c08Run(c *fw.Case) {
	force := ""
	if c.Idx < 3*len(c08Floor) {
		force = c08Floor[c.Idx%len(c08Floor)]
	}
	var feats []string
	depth := 2 + c.Intn(2)
	switch force {
	case "depth.2":
		depth = 2
	case "depth.3", "mid.empty":
		depth = 3
	}
	feats = append(feats, fmt.Sprintf("depth.%d", depth))
	// template table for pools / predicate generation
	tmpl := gen.RandTable(c.R, gen.TableSpec{Name: "t", MinRows: 1, MaxRows: 1, NumCols: 2, StrCols: 1, BoolCols: 1, NullCols: 1, StrStyle: gen.Hostile})
	rid := 0
	leaf := func() []any {
		n := c.Intn(4)
		if c.Chance(0.2) {
			n = 0
		}
		rows := make([]any, n)
		for i := range rows {
			row := map[string]any{"rid": float64(rid)}
			rid++
			for _, col := range tmpl.Cols {
				pool := tmpl.Pools[col.Name]
				switch col.Kind {
				case gen.KNullNum, gen.KNullStr:
					if c.Chance(0.5) {
						row[col.Name] = gen.Pick(c.R, pool)
					} else if c.Chance(0.5) {
						row[col.Name] = nil
					}
				default:
					row[col.Name] = gen.Pick(c.R, pool)
				}
			}
			rows[i] = row
		}
		return rows
	}
	var build func(d int) []any
	lens := map[int]bool{}
	build = func(d int) []any {
		if d == 1 {
			l := leaf()
			lens[len(l)] = true
			if len(l) == 0 {
				feats = append(feats, "inner.empty")
			}
			return l
		}
		n := 1 + c.Intn(3)
		if d == depth && (force == "outer.empty" || c.Chance(0.05)) {
			n = 0
			feats = append(feats, "outer.empty")
		}
		out := make([]any, n)
		for i := range out {
			out[i] = build(d - 1)
		}
		// an empty array at an intermediate level, typically last (the shape
		// that stops a pass-by-pass flattener early)
		if d == depth && depth == 3 && n > 0 && (force == "mid.empty" || c.Chance(0.25)) {
			out[len(out)-1] = []any{}
			if c.Chance(0.3) {
				out[c.Intn(len(out))] = []any{}
			}
			feats = append(feats, "mid.empty")
		}
		return out
	}
	mm := build(depth)
	if force == "inner.empty" && depth == 2 && len(mm) > 0 {
		mm[c.Intn(len(mm))] = []any{}
		feats = append(feats, "inner.empty")
	}
	if len(lens) > 1 {
		feats = append(feats, "ragged")
	}
	doc := map[string]any{"mm": mm}
	// query
	pg := &gen.PredGen{R: c.R, T: tmpl, MaxDepth: 2, Disable: map[string]bool{"in.subquery": true}}
	// the columns may be named with the table's own name (mm.n1 FROM mm): the
	// inner arrays, the flattened source and a flat array answer alike
	qual, as := "", ""
	switch {
	case force == "naming.table-qualified" || (force == "" && c.Chance(0.12)):
		qual = "mm"
		feats = append(feats, "naming.table-qualified")
	case force == "naming.alias" || (force == "" && c.Chance(0.1)):
		// an alias on the multi-dimensional source names the rows of the inner arrays
		qual, as = "m", " m"
		feats = append(feats, "naming.alias")
	case force == "naming.alias-unqualified" || (force == "" && c.Chance(0.06)):
		as = " m"
		feats = append(feats, "naming.alias-unqualified")
	}
	if qual == "mm" && (force == "naming.table-qualified" && c.Idx%2 == 0 || c.Chance(0.3)) {
		// rows that carry a column named like the table: mm.n1 is then that
		// column's member, in a nested, a flattened and a flat source alike
		var walk func(v any)
		walk = func(v any) {
			switch x := v.(type) {
			case []any:
				for _, e := range x {
					walk(e)
				}
			case map[string]any:
				if c.Chance(0.7) {
					// a whole row of its own, with other values
					inner := map[string]any{}
					for k, v := range x {
						inner[k] = v
						if p := tmpl.Pools[k]; len(p) > 0 && v != nil {
							inner[k] = gen.Pick(c.R, p)
						}
					}
					// ... but without rid: mm.rid finds nothing there, and
					// must not fall back to the row's own rid
					delete(inner, "rid")
					x["mm"] = inner
				}
			}
		}
		walk(mm)
		feats = append(feats, "row.shadows-table")
	}
	qcols := func(text string) string {
		if qual == "" {
			return text
		}
		return c08ColRe.ReplaceAllString(text, qual+".$1")
	}
	where := ""
	if force == "where" || force == "mix" || c.Chance(0.6) {
		where = " WHERE " + gen.RenderPred(pg.Gen(), gen.RenderOpts{Qualifier: qual})
		feats = append(feats, "where")
	}
	if force == "where.in-computed" || (force == "" && c.Chance(0.12)) {
		// an IN list whose items are computed from the row at hand
		in := qcols(gen.Pick(c.R, []string{"n1 IN (n2 + 1, n2 - 1, n2)", "n1 NOT IN (n2 + 1, n2 * 2, 3)", "n2 IN (n1, n1 + 1, n1 + 2, 0 - n1)", "n1 + 1 IN (n2, n2 + 1, n2 + 2)"}))
		if where == "" {
			where = " WHERE " + in
		} else {
			where = " WHERE " + in + gen.Pick(c.R, []string{" AND (", " OR ("}) + strings.TrimPrefix(where, " WHERE ") + ")"
		}
		feats = append(feats, "where", "where.in-computed")
	}
	var items []string
	switch {
	case force == "item.star" || (force == "" && c.Chance(0.2)):
		items = []string{"*"}
		feats = append(feats, "item.star")
	default:
		items = append(items, "rid")
		if force == "item.nonidempotent" || c.Chance(0.5) {
			items = append(items, "(n1 + 1) AS n1")
			feats = append(feats, "item.nonidempotent", "item.alias")
		} else if c.Chance(0.5) {
			items = append(items, "n1")
		}
		if force == "item.alias" || c.Chance(0.5) {
			items = append(items, "s1 AS x")
			feats = append(feats, "item.alias")
		}
		if c.Chance(0.4) {
			items = append(items, "(n1 * n2) AS p", "z1")
		}
		if c.Chance(0.3) {
			items = append(items, "n2 AS n1x", "b1")
		}
		if force == "item.userfn" || force == "reexec.after-fault" || c.Chance(0.15) {
			items = append(items, "VFAIL(n2) AS u")
			feats = append(feats, "item.userfn")
		}
		if force == "item.async" || c.Chance(0.15) {
			items = append(items, "ASYNC.VBG(s1) AS w")
			feats = append(feats, "item.async")
		}
	}
	// an aggregate inside WHERE is computed over the inner array as well
	// (mix=> computes it over the flattened whole, so it is not asserted then)
	whereAgg := false
	if !containsStr(feats, "item.userfn") && !containsStr(feats, "item.async") && (force == "where.aggregate" || force == "reexec" || c.Chance(0.1)) {
		aw := qcols(gen.Pick(c.R, []string{"n1 >= AVG(n1)", "n1 <= COUNT(*)", "n1 < MAX(n1)", "n2 > MIN(n2)"}))
		if where == "" {
			where = " WHERE " + aw
		} else {
			where = " WHERE " + aw + " AND (" + strings.TrimPrefix(where, " WHERE ") + ")"
		}
		feats = append(feats, "where.aggregate", "where")
		whereAgg = true
	}
	// aggregates without GROUP BY are computed over the inner array they run in
	hasAgg := false
	if len(items) > 0 && items[0] != "*" && (force == "item.aggregate" || force == "item.all-aggregate" || c.Chance(0.15)) && !containsStr(feats, "item.userfn") && !containsStr(feats, "item.async") {
		hasAgg = true
		if force == "item.all-aggregate" || (force == "" && c.Chance(0.4)) {
			items = []string{gen.Pick(c.R, []string{"COUNT(*) AS cnt", "SUM(n1) AS sm", "COUNT(*) AS cnt, MAX(n2) AS mx", "MIN(n1) AS mn, SUM(n2) AS sm"})}
			feats = append(feats, "item.all-aggregate")
		} else {
			items = append(items, gen.Pick(c.R, []string{"COUNT(*) AS cnt", "SUM(n1) AS sm", "MAX(n2) AS mx"}))
			feats = append(feats, "item.aggregate")
		}
	}
	// per-query options reach every inner array: variables and constants
	useVars := len(items) > 0 && items[0] != "*" && (force == "opt.vars" || c.Chance(0.2))
	useConst := len(items) > 0 && items[0] != "*" && (force == "opt.constants" || c.Chance(0.15))
	minV := gen.Pick(c.R, tmpl.Pools["n1"])
	opts := func() []genql.QueryOption {
		var out []genql.QueryOption
		if useVars {
			out = append(out, genql.WithVars(map[string]any{"min": minV, "tag": "tg"}))
		}
		if useConst {
			out = append(out, genql.WithConstants(map[string]any{"c1": []any{1.0, "two"}, "c2": 5.0}))
		}
		return out
	}
	if useVars {
		items = append(items, "GETVAR('tag') AS tg")
		if where == "" {
			where = " WHERE " + qcols("n1") + " >= GETVAR('min')"
		} else {
			where = " WHERE " + qcols("n1") + " >= GETVAR('min') AND (" + strings.TrimPrefix(where, " WHERE ") + ")"
		}
		feats = append(feats, "opt.vars", "where")
	}
	if useConst {
		items = append(items, "CONSTANT('c1') AS ck", "(n1 + CONSTANT('c2')) AS cn")
		feats = append(feats, "opt.constants")
	}
	for i, it := range items {
		// the expression is qualified, the output name is not
		if expr, as, aliased := strings.Cut(it, " AS "); aliased {
			items[i] = qcols(expr) + " AS " + as
		} else {
			items[i] = qcols(it)
		}
	}
	sel := strings.Join(items, ", ")
	sql := "SELECT " + sel + " FROM mm" + as + where
	inner, innerKey := "SELECT "+sel+" FROM t"+where, "t"
	if qual != "" || as != "" {
		inner, innerKey = sql, "mm"
	}
	armFault(0, faultNone)
	o := Run(val.CopyMap(doc), sql, opts()...)
	waitBackground()
	evals := 1
	c.Sample(map[string]any{"sql": sql, "depth": depth, "outer_len": len(mm)})
	det := map[string]any{"sql": sql, "doc": doc, "observed": o.Describe()}
	defer func() { c.Feature(feats...); c.Evals(evals) }()
	if !o.OK() {
		c.Violate("error", fmt.Sprintf("query over a multi-dimensional source failed: %v", o.Describe()), det)
		return
	}
	var concat []any
	concatBy := map[int][]any{}
	curTop := 0
	nonEmptyInner, rejected := 0, false
	var check func(src []any, got any, d int, path string) bool
	check = func(src []any, got any, d int, path string) bool {
		if d == 1 {
			so := Run(map[string]any{innerKey: val.Copy(src)}, inner, opts()...)
			evals++
			if !so.OK() {
				c.Discard("inner standalone failed")
				return false
			}
			ga, ok := got.([]any)
			if got != nil && !ok {
				c.Violate("nesting", fmt.Sprintf("%s: expected an array of rows, got %T", path, got), det)
				return false
			}
			if len(so.Rows) > 0 {
				nonEmptyInner++
			}
			if len(so.Rows) < len(src) {
				rejected = true
			}
			concat = append(concat, so.Rows...)
			concatBy[curTop] = append(concatBy[curTop], so.Rows...)
			if len(ga) == 0 && len(so.Rows) == 0 {
				return true
			}
			if !val.SameSeq(ga, so.Rows) {
				det["inner_array"] = src
				det["inner_expected"] = val.Show(so.Rows)
				c.Violate("inner-differs", fmt.Sprintf("%s: inner result %s, the same query run directly on that inner array returns %s", path, short(val.Canon(ga), 250), short(val.Canon(so.Rows), 250)), det)
				return false
			}
			return true
		}
		if len(src) == 0 && hasAgg {
			// an empty array has no depth: read as an empty row set an
			// aggregate still yields its one row, read as zero inner arrays it
			// yields nothing; the property does not choose
			return true
		}
		ga, ok := got.([]any)
		if !ok && !(got == nil && len(src) == 0) {
			c.Violate("nesting", fmt.Sprintf("%s: expected an array of %d arrays, got %T", path, len(src), got), det)
			return false
		}
		if len(ga) != len(src) {
			c.Violate("nesting", fmt.Sprintf("%s: result has %d inner arrays, the source has %d", path, len(ga), len(src)), det)
			return false
		}
		for i := range src {
			if d == depth {
				curTop = i
			}
			if !check(src[i].([]any), ga[i], d-1, fmt.Sprintf("%s[%d]", path, i)) {
				return false
			}
		}
		return true
	}
	var top any = o.Rows
	if len(mm) == 0 {
		if len(o.Rows) != 0 && !hasAgg {
			c.Violate("nesting", "empty outer array produced rows", det)
		}
		return
	}
	if !check(mm, top, depth, "mm") {
		return
	}
	// mix=> : concatenation of the inner results
	if !hasAgg && !whereAgg && (force == "mix" || c.Chance(0.5)) {
		msql := "SELECT " + sel + " FROM `mix=>mm`" + as + where
		m := Run(val.CopyMap(doc), msql, opts()...)
		evals++
		feats = append(feats, "mix")
		det2 := map[string]any{"sql": msql, "doc": doc, "observed": m.Describe(), "expected": val.Show(concat)}
		if !m.OK() {
			c.Violate("error", fmt.Sprintf("mix=> query failed: %v", m.Describe()), det2)
			return
		}
		if !(len(m.Rows) == 0 && len(concat) == 0) && !val.SameSeq(m.Rows, concat) {
			c.Violate("mix-differs", fmt.Sprintf("mix=> returned %s, the concatenation of the inner results is %s", short(val.Canon(m.Rows), 250), short(val.Canon(concat), 250)), det2)
			return
		}
	}
	// the same Query object executed again (nothing failed in between) applies
	// the query inside every inner array again
	if !containsStr(feats, "item.async") && (force == "reexec" || c.Chance(0.3)) {
		armFault(0, faultNone)
		if q, nerr := newSafe(val.CopyMap(doc), sql, opts()...); q != nil && nerr.Err == nil {
			first := execBuilt(q)
			second := execBuilt(q)
			third := execBuilt(q)
			evals += 3
			feats = append(feats, "reexec")
			for i, r := range []Outcome{first, second, third} {
				if !(r.OK() && sameSelValue(r.Rows, o.Rows)) {
					c.Violate("reexec-differs", fmt.Sprintf("execution %d of the same Query object returned %s instead of the nested result %s", i+1, short(fmt.Sprint(r.Describe()), 250), short(val.Canon(o.Rows), 250)),
						map[string]any{"sql": sql, "doc": doc, "execution": i + 1, "observed": r.Describe()})
					return
				}
			}
		}
	}
	// a Query object whose first execution failed part-way through some inner
	// array must, executed again, still apply the query inside every inner array
	// (only synchronous calls: a failing ASYNC call is outside what the given properties cover)
	if containsStr(feats, "item.userfn") && !containsStr(feats, "item.async") && (force == "item.userfn" || force == "reexec.after-fault" || c.Chance(0.5)) {
		armFault(0, faultNone)
		if q, nerr := newSafe(val.CopyMap(doc), sql, opts()...); q != nil && nerr.Err == nil {
			_ = execBuilt(q)
			n := faultCount()
			if n >= 1 {
				q2, _ := newSafe(val.CopyMap(doc), sql, opts()...)
				armFault(1+c.Intn(n), faultError)
				failed := execBuilt(q2)
				armFault(0, faultNone)
				again := execBuilt(q2)
				waitBackground()
				evals += 2
				feats = append(feats, "reexec.after-fault")
				if failed.Err != nil && !(again.OK() && sameSelValue(again.Rows, o.Rows)) {
					c.Violate("reexec-differs", fmt.Sprintf("after an execution that failed inside an inner array, executing the same Query again returned %s instead of the nested result %s", short(fmt.Sprint(again.Describe()), 250), short(val.Canon(o.Rows), 250)),
						map[string]any{"sql": sql, "doc": doc, "first_failure": failed.Describe(), "second": again.Describe()})
					return
				}
			}
		}
	}
	// a top-level function combined with a keep=> step in the same path:
	// mix=> over the first K inner arrays
	if !hasAgg && !whereAgg && (force == "mix.keep" || c.Chance(0.25)) {
		K := c.Intn(len(mm) + 1)
		ksql := fmt.Sprintf("SELECT %s FROM `mix=>mm[keep=>(0:%d)]`%s%s", sel, K, as, where)
		k := Run(val.CopyMap(doc), ksql, opts()...)
		waitBackground()
		evals++
		feats = append(feats, "mix.keep")
		var wantK []any
		for i := 0; i < K; i++ {
			wantK = append(wantK, concatBy[i]...)
		}
		detK := map[string]any{"sql": ksql, "doc": doc, "observed": k.Describe(), "expected": val.Show(wantK)}
		if !k.OK() {
			c.Violate("error", fmt.Sprintf("mix=> over a keep=> path failed: %v", k.Describe()), detK)
			return
		}
		if !(len(k.Rows) == 0 && len(wantK) == 0) && !val.SameSeq(k.Rows, wantK) {
			c.Violate("mix-differs", fmt.Sprintf("`%s` returned %s, the concatenation of the first %d inner results is %s", ksql, short(val.Canon(k.Rows), 250), K, short(val.Canon(wantK), 250)), detK)
			return
		}
		// the keep=> step without a function in front: the first K inner arrays, nested as they are
		if depth == 2 && K > 0 {
			nsql := fmt.Sprintf("SELECT %s FROM `mm[keep=>(0:%d)]`%s%s", sel, K, as, where)
			n := Run(val.CopyMap(doc), nsql, opts()...)
			waitBackground()
			evals++
			feats = append(feats, "keep.no-function")
			detN := map[string]any{"sql": nsql, "doc": doc, "observed": n.Describe()}
			bad := !n.OK() || len(n.Rows) != K
			for i := 0; !bad && i < K; i++ {
				inner, ok := n.Rows[i].([]any)
				if !ok && n.Rows[i] != nil || !(len(inner) == 0 && len(concatBy[i]) == 0) && !val.SameSeq(inner, concatBy[i]) {
					bad = true
				}
			}
			if bad {
				c.Violate("inner-differs", fmt.Sprintf("`%s` returned %s, the results of the first %d inner arrays are %s", nsql, short(val.Canon(n.Rows), 250), K, short(val.Canon(concatBy[0]), 250)+" ..."), detN)
				return
			}
		}
	}
	if nonEmptyInner >= 2 && rejected {
		c.Nontrivial(sql + "|" + val.Canon(doc))
	}
}
