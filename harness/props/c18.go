package props

import (
	"os"
	"os/exec"
	"fmt"
	"math"
	"strconv"
	"strings"

	"github.com/vedadiyan/genql"

	"verifharness/internal/fw"
	"verifharness/internal/gen"
	"verifharness/internal/val"
)

var c18Kinds = []string{"encdec", "encdec.unknown", "hash", "hash.unknown", "first", "last", "elementat", "elementat.oob", "elementat.negative", "array.null", "array.empty",
	"unwind", "array", "concat", "concat.null", "if", "lower", "upper", "changetype.string", "changetype.double", "changetype.integer", "changetype.array", "changetype.unknown",
	"daterange", "daterange.null", "constant", "constant.unknown", "constant.nested", "constant.twice", "arity"}

func init() {
	fw.Register(&fw.Prop{
		ID:    "C18",
		Title: "Built-in functions obey their algebraic contracts for all arguments",
		Level: "exploration",
		Rule: "DATERANGE over numeric bounds and read as an array by FIRST / LAST. phase 'twins': two calls of one function that differ in letter case only, each alone and both together; IF guarding a branch that cannot be evaluated. IF with computed branches and a NULL condition; CONCAT / CHANGETYPE texts of numbers by their decimal text (1e6 and more, 1e-7). also: open-ended DATERANGE, CONSTANT inside nested queries next to other options, a defaults map shared between queries, UNWIND over arrays with spare capacity and calls that share their first group. phase 'big': FIRST / LAST / ELEMENTAT over arrays of more than a million elements (indexes whose float text carries an exponent). each case = one built-in function (DECODE/ENCODE, HASH, FIRST, LAST, ELEMENTAT, UNWIND, ARRAY, CONCAT, IF, TO_LOWER, TO_UPPER, CHANGETYPE, DATERANGE, CONSTANT, and every fixed-arity function with arity +-1) x random arguments of every JSON scalar kind and arrays thereof (empty, nested, with NULLs), " +
			"passed both as SQL literals and as column references of a one-row table; indices from {-2,-1,0,n-1,n,n+3}; bases / algorithms / type names incl. unknown ones. The value returned by the real `SELECT f(args) AS v ...` (and its error-ness) is compared with a per-function reference implementation. " +
			"Non-trivial = every in-domain case (each compares a computed value or an expected error); distinct = distinct (function, arguments).",
		Assumptions: []string{
			"ELEMENTAT on an empty array is not asserted (the statement gives both NULL and error); non-integral indices not asserted",
			"textual forms (CONCAT, CHANGETYPE string) are asserted for strings, booleans and finite numbers (by their decimal text, no exponent)",
			"base / algorithm / type names are given in lower case as the statement spells them; ENCODE/HASH of NULL is not asserted (NULL is not a scalar value)",
		},
		Floor:         append([]string{"elementat.big", "if.computed-branch", "if.computed-branch.null-condition", "text.decimal", "twins.literal-case", "twins.name-case", "if.guards-unpicked-branch", "daterange.numeric-bound", "daterange.as-array", "hash.process-history"}, c18Kinds...),
		MinNontrivial: 100,
		Phases: []fw.Phase{
			{Name: "fn", N: func(t fw.Tier) int { return pick(t, 30000, 1000000) }, Run: c18Run},
			{Name: "hash-process", N: func(t fw.Tier) int { return pick(t, 6, 60) }, Run: c18HashProcess},
			{Name: "big", N: func(t fw.Tier) int { return pick(t, 4, 24) }, Run: c18Big, Batch: 2},
			{Name: "twins", N: func(t fw.Tier) int { return pick(t, 3000, 60000) }, Run: c18Twins},
		},
		Witness: sqlWitness,
	})
}

func c18Scalar(c *fw.Case, allowNull bool) any {
	switch c.Intn(7) {
	case 0:
		return float64(c.Intn(200) - 100)
	case 1:
		return float64(c.Intn(4001)-2000) / 8
	case 2:
		return gen.RandString(c.R, gen.Hostile, 4)
	case 3:
		return gen.Pick(c.R, []string{"Héllo Wörld", "ǅungla", "ΑΒΓ αβγ", "straße", "İstanbul", "ß", "ÀÉÎ õü", "abc XYZ"})
	case 4:
		return c.Chance(0.5)
	case 5:
		if allowNull {
			return nil
		}
		return "x"
	default:
		return gen.RandString(c.R, gen.Plain, 3)
	}
}

func c18Array(c *fw.Case, depth int) []any {
	n := c.Intn(5)
	a := make([]any, n)
	for i := range a {
		if depth > 0 && c.Chance(0.3) {
			a[i] = c18Array(c, depth-1)
		} else {
			a[i] = c18Scalar(c, true)
		}
	}
	return a
}

// numText is the decimal text of a number: no exponent, however large or small.
func numText(f float64) (string, bool) {
	if math.IsNaN(f) || math.IsInf(f, 0) {
		return "", false
	}
	if f == 0 {
		return "0", true
	}
	return strconv.FormatFloat(f, 'f', -1, 64), true
}

func c18Run(c *fw.Case) {
	kind := c18Kinds[c.Idx%len(c18Kinds)]
	if c.Idx >= 4*len(c18Kinds) {
		kind = gen.Pick(c.R, c18Kinds)
	}
	if kind == "concat.null" && c.Quarantined("fn.concat.null-arg") {
		c.Feature("concat.null")
		c.Discard("quarantined: open known finding fn.concat.null-arg")
		return
	}
	row := map[string]any{}
	nargs := 0
	// arg renders a value either as a literal (scalars) or through a column
	arg := func(v any) string {
		_, isArr := v.([]any)
		if !isArr && c.Chance(0.5) {
			return gen.SQLLit(v, c.Intn(2))
		}
		name := fmt.Sprintf("a%d", nargs)
		nargs++
		row[name] = v
		return name
	}
	var call string
	var want any
	wantErr := false
	var opts []genql.QueryOption
	extraCheck := func(got any) string { return "" }
	nestedSQL := ""
	rawDoc := false
	str := func(s string) string { return gen.SQLString(s, 0) }
	switch kind {
	case "encdec":
		v := c18Scalar(c, false)
		b := gen.Pick(c.R, []string{"base64", "base32", "hex"})
		call = fmt.Sprintf("DECODE(ENCODE(%s, %s), %s)", arg(v), str(b), str(b))
		want = v
	case "encdec.unknown":
		call = fmt.Sprintf("ENCODE(%s, %s)", arg(c18Scalar(c, false)), str(gen.Pick(c.R, []string{"base16", "base58", "", "rot13"})))
		if c.Chance(0.5) {
			call = fmt.Sprintf("DECODE(%s, %s)", str("aGVsbG8="), str(gen.Pick(c.R, []string{"base16", "base58", "", "rot13"})))
		}
		wantErr = true
	case "hash":
		v := c18Scalar(c, false)
		alg := gen.Pick(c.R, []string{"md5", "sha1", "sha256", "sha512"})
		a := arg(v)
		call = fmt.Sprintf("ARRAY(HASH(%s, %s), HASH(%s, %s))", a, str(alg), a, str(alg))
		n := map[string]int{"md5": 32, "sha1": 40, "sha256": 64, "sha512": 128}[alg]
		extraCheck = func(got any) string {
			ga, ok := got.([]any)
			if !ok || len(ga) != 2 {
				return "not a pair"
			}
			h1, ok1 := ga[0].(string)
			h2, ok2 := ga[1].(string)
			if !ok1 || !ok2 {
				return "hash is not a string"
			}
			if h1 != h2 {
				return "two evaluations of HASH on the same value differ"
			}
			if len(h1) != n {
				return fmt.Sprintf("hex length %d, expected %d for %s", len(h1), n, alg)
			}
			if strings.Trim(h1, "0123456789abcdef") != "" {
				return "not lower-case hex"
			}
			return ""
		}
		want = "<hash>"
	case "hash.unknown":
		call = fmt.Sprintf("HASH(%s, %s)", arg(c18Scalar(c, false)), str(gen.Pick(c.R, []string{"crc32", "sha3", "", "md4"})))
		wantErr = true
	case "first", "last":
		a := c18Array(c, 1)
		for len(a) == 0 {
			a = c18Array(c, 1)
		}
		if kind == "first" {
			call, want = "FIRST("+arg(a)+")", a[0]
		} else {
			call, want = "LAST("+arg(a)+")", a[len(a)-1]
		}
	case "elementat":
		a := c18Array(c, 1)
		for len(a) == 0 {
			a = c18Array(c, 1)
		}
		i := gen.Pick(c.R, []int{0, len(a) - 1, c.Intn(len(a))})
		call, want = fmt.Sprintf("ELEMENTAT(%s, %d)", arg(a), i), a[i]
		switch c.Intn(4) {
		case 0:
			// the index as an integer: what CHANGETYPE(x, 'integer') yields
			call = fmt.Sprintf("ELEMENTAT(%s, CHANGETYPE('%d', 'integer'))", arg(a), i)
			c.Feature("elementat.integer-index")
		case 1:
			// ... or an index column holding a natively typed Go integer
			row["ix"] = gen.Pick(c.R, []any{int(i), int64(i), int32(i), uint8(i), uint(i), float32(i)})
			call = fmt.Sprintf("ELEMENTAT(%s, ix)", arg(a))
			rawDoc = true
			c.Feature("elementat.integer-index")
		}
	case "elementat.oob":
		a := c18Array(c, 1)
		for len(a) == 0 {
			a = c18Array(c, 1)
		}
		call = fmt.Sprintf("ELEMENTAT(%s, %d)", arg(a), gen.Pick(c.R, []int{len(a), len(a) + 3}))
		wantErr = true
	case "elementat.negative":
		a := c18Array(c, 1)
		for len(a) == 0 {
			a = c18Array(c, 1)
		}
		call = fmt.Sprintf("ELEMENTAT(%s, %d)", arg(a), gen.Pick(c.R, []int{-1, -2}))
		wantErr = true
	case "array.null":
		row["z"] = nil
		call = gen.Pick(c.R, []string{"FIRST(z)", "LAST(z)", "ELEMENTAT(z, 0)", "FIRST(missing)", "LAST(missing)", "ELEMENTAT(missing, 2)"})
		want = nil
	case "array.empty":
		call = gen.Pick(c.R, []string{"FIRST", "LAST"}) + "(" + arg([]any{}) + ")"
		want = nil
	case "unwind":
		a := c18Array(c, 2)
		// arrays as a decoder leaves them: with spare capacity behind their elements
		for i, x := range a {
			if s, ok := x.([]any); ok {
				roomy := make([]any, len(s), len(s)+1+c.Intn(4))
				copy(roomy, s)
				a[i] = roomy
			}
		}
		rawDoc = true
		name := arg(a)
		call = "UNWIND(" + name + ")"
		out := []any{}
		for _, x := range a {
			if s, ok := x.([]any); ok {
				out = append(out, s...)
			} else {
				out = append(out, x)
			}
		}
		want = out
		switch c.Intn(3) {
		case 0:
			// several calls over the same array in one query, and the array itself
			call = "ARRAY(UNWIND(" + name + "), UNWIND(" + name + "), " + name + ", UNWIND(" + name + "))"
			want = []any{out, out, val.Copy(a), out}
		case 1:
			// calls that share their first group and go on differently
			n := c.Intn(4)
			base := make([]any, n, n+1+c.Intn(4))
			for i := range base {
				base[i] = float64(i)
			}
			row["base"] = base
			call = "ARRAY(UNWIND(ARRAY(base, ARRAY('p'))), UNWIND(ARRAY(base, ARRAY('q', 'z'))), base, UNWIND(ARRAY(base, ARRAY('p'))))"
			withP := append(append([]any{}, base...), "p")
			want = []any{withP, append(append([]any{}, base...), "q", "z"), val.Copy(base), withP}
		}
	case "array":
		n := c.Intn(5)
		vals := make([]any, n)
		parts := make([]string, n)
		for i := range vals {
			if c.Chance(0.2) {
				vals[i] = c18Array(c, 0)
			} else {
				vals[i] = c18Scalar(c, true)
			}
			parts[i] = arg(vals[i])
		}
		call, want = "ARRAY("+strings.Join(parts, ", ")+")", vals
		if n == 0 {
			// no arguments: an empty array, which is not NULL (a nil slice is `null` for encoding/json)
			c.Feature("array.no-arguments")
			extraCheck = func(got any) string {
				if a, ok := got.([]any); !ok || a == nil {
					return fmt.Sprintf("ARRAY() is an empty array, got %#v", got)
				}
				return ""
			}
		}
	case "concat", "concat.null":
		n := 1 + c.Intn(4)
		var sb strings.Builder
		parts := make([]string, n)
		for i := 0; i < n; i++ {
			v := c18Scalar(c, false)
			if c.Chance(0.12) {
				// numbers whose conventional float text carries an exponent
				v = gen.Pick(c.R, []float64{1000000, 1234567, -4000000, 123456789012, 1e15, 1e-7, 2.5e-5, 1e21, 999999})
				c.Feature("text.decimal")
			}
			if kind == "concat.null" && (i == n-1 || c.Chance(0.3)) {
				v = nil
			}
			switch x := v.(type) {
			case float64:
				t, ok := numText(x)
				if !ok {
					c.Discard("number with exponent text")
					return
				}
				sb.WriteString(t)
			case string:
				sb.WriteString(x)
			case bool:
				sb.WriteString(strconv.FormatBool(x))
			}
			parts[i] = arg(v)
		}
		call, want = "CONCAT("+strings.Join(parts, ", ")+")", sb.String()
	case "if":
		cond := c.Chance(0.5)
		x, y := c18Scalar(c, true), c18Scalar(c, true)
		var cs string
		switch c.Intn(3) {
		case 0:
			cs = arg(cond)
		case 1:
			row["k"] = 5.0
			if cond {
				cs = "k > 3"
			} else {
				cs = "k < 3"
			}
		default:
			cs = strconv.FormatBool(cond)
		}
		if !cond && c.Chance(0.3) {
			// a NULL condition is not true
			cs = gen.Pick(c.R, []string{"NULL", "nokey"})
		}
		xs, ys := arg(x), arg(y)
		if c.Chance(0.35) {
			// computed branches: calls, a path through the marker, a subquery
			row["k2"] = 7.0
			wrap := func(a string) string {
				return gen.Pick(c.R, []string{"ELEMENTAT(ARRAY(" + a + "), 0)", "FIRST(ARRAY(" + a + ", 1))", "IF(`<-.t[0].k2` = 7, " + a + ", 'never')", "IF(true, " + a + ", 0)"})
			}
			if c.Chance(0.6) {
				xs = wrap(xs)
			}
			if c.Chance(0.6) {
				ys = wrap(ys)
			}
			c.Feature("if.computed-branch")
			if cs == "NULL" || cs == "nokey" {
				c.Feature("if.computed-branch.null-condition")
			}
		}
		if c.Chance(0.2) {
			// the branch that is not picked cannot be evaluated at all: IF guards it
			bad := gen.Pick(c.R, []string{"ELEMENTAT(ARRAY(1), 5)", "FIRST(5)", "ELEMENTAT(ARRAY(1, 2), 0 - 1)", "CHANGETYPE('x', 'integer')"})
			if cond {
				ys = bad
			} else {
				xs = bad
			}
			c.Feature("if.guards-unpicked-branch")
		}
		call = fmt.Sprintf("IF(%s, %s, %s)", cs, xs, ys)
		want = y
		if cond {
			want = x
		}
	case "lower", "upper":
		s, _ := c18Scalar(c, false).(string)
		if s == "" {
			s = gen.Pick(c.R, []string{"Héllo Wörld", "ǅungla", "ΑΒΓ αβγ", "straße", "İstanbul", "MiXeD 123"})
		}
		if kind == "lower" {
			call, want = "TO_LOWER("+arg(s)+")", strings.ToLower(s)
		} else {
			call, want = "TO_UPPER("+arg(s)+")", strings.ToUpper(s)
		}
	case "changetype.string":
		f := float64(c.Intn(4001)-2000) / 8
		if c.Chance(0.2) {
			f = gen.Pick(c.R, []float64{1000000, 1234567, -4000000, 123456789012, 1e15, 1e-7, 2.5e-5, 1e21, 999999})
			c.Feature("text.decimal")
		}
		t, ok := numText(f)
		if !ok {
			c.Discard("exponent")
			return
		}
		if c.Chance(0.5) {
			call, want = fmt.Sprintf("CHANGETYPE(%s, 'string')", arg(f)), t
		} else {
			// the round trip is asserted for every finite double, whatever its text looks like
			if c.Chance(0.5) {
				f = gen.Pick(c.R, []float64{1e19, 1e21, 6.02e23, 1.7976931348623157e308, 5e-324, 1e-7, 123456789, 9223372036854775808, 18446744073709551616, -1e19, 9007199254740993, 0.1, 1e6, 2.5e-5, 1 << 62, -9223372036854775808})
			}
			row["big"] = f
			call, want = "CHANGETYPE(CHANGETYPE(big, 'string'), 'double')", f
		}
	case "changetype.double":
		f := float64(c.Intn(4001)-2000) / 8
		t, _ := numText(f)
		if c.Chance(0.5) {
			call, want = fmt.Sprintf("CHANGETYPE(%s, 'double')", arg(t)), f
		} else {
			call, want = fmt.Sprintf("CHANGETYPE(CHANGETYPE(%s, 'double'), 'string')", arg(t)), t
		}
	case "changetype.integer":
		i := c.Intn(2001) - 1000
		if c.Chance(0.3) {
			// whole numbers whose conventional float text carries an exponent
			i = gen.Pick(c.R, []int{1000000, 1234567, -4000000, 123456789012, 1 << 40, 999999, 1000001})
		}
		if c.Chance(0.5) {
			call = fmt.Sprintf("CHANGETYPE(%s, 'integer')", arg(strconv.Itoa(i)))
		} else {
			call = fmt.Sprintf("CHANGETYPE(%s, 'integer')", arg(float64(i)))
		}
		want = float64(i)
	case "changetype.array":
		v := c18Scalar(c, false)
		call, want = fmt.Sprintf("CHANGETYPE(%s, 'array')", arg(v)), []any{v}
	case "changetype.unknown":
		call = fmt.Sprintf("CHANGETYPE(%s, %s)", arg(c18Scalar(c, false)), str(gen.Pick(c.R, []string{"date", "bool", "", "float", "int"})))
		wantErr = true
	case "daterange":
		f := fmt.Sprintf("20%02d-%02d-%02d", c.Intn(30), 1+c.Intn(12), 1+c.Intn(28))
		t := fmt.Sprintf("20%02d-%02d-%02d", 30+c.Intn(30), 1+c.Intn(12), 1+c.Intn(28))
		call, want = fmt.Sprintf("DATERANGE(%s, %s)", arg(f), arg(t)), []any{f, t}
		switch c.Intn(5) {
		case 0:
			// a numeric bound (a timestamp) by its decimal text
			ts := gen.Pick(c.R, []float64{1700000000, 1234567, 86400000, 1e15})
			txt, _ := numText(ts)
			call, want = fmt.Sprintf("DATERANGE(%s, %s)", arg(ts), arg(t)), []any{txt, t}
			c.Feature("daterange.numeric-bound")
		case 1:
			// the range is an array like any other
			call, want = fmt.Sprintf("%s(DATERANGE(%s, %s))", "FIRST", arg(f), arg(t)), f
			if c.Chance(0.5) {
				call, want = fmt.Sprintf("%s(DATERANGE(%s, %s))", "LAST", arg(f), arg(t)), t
			}
			c.Feature("daterange.as-array")
		}
	case "daterange.null":
		// an open-ended range: the bound that is there stays in its place
		d := fmt.Sprintf("20%02d-%02d-%02d", c.Intn(60), 1+c.Intn(12), 1+c.Intn(28))
		pos := c.Intn(2)
		bounds := []any{nil, nil}
		bounds[pos] = d
		call, want = fmt.Sprintf("DATERANGE(%s, %s)", arg(bounds[0]), arg(bounds[1])), "<hash>"
		if c.Chance(0.3) {
			// a missing key is NULL like any other
			parts := []string{"nokey", "nokey"}
			parts[pos] = arg(d)
			call = "DATERANGE(" + parts[0] + ", " + parts[1] + ")"
		}
		extraCheck = func(got any) string {
			ga, ok := got.([]any)
			if gs, isStrings := got.([]string); isStrings {
				ga, ok = make([]any, len(gs)), true
				for i, x := range gs {
					ga[i] = x
				}
			}
			if !ok || len(ga) != 2 {
				return fmt.Sprintf("DATERANGE(f, t) is [f, t]: expected two elements, got %s", short(val.Canon(got), 100))
			}
			if !val.Equal(ga[pos], d) {
				return fmt.Sprintf("the bound %q is not at index %d: %s", d, pos, short(val.Canon(got), 100))
			}
			if other := ga[1-pos]; other != nil && other != "" {
				return fmt.Sprintf("the NULL bound came back as %s", short(val.Canon(other), 60))
			}
			return ""
		}
	case "constant.twice":
		// a map of defaults shared between queries, and one query that is given
		// the defaults and then its own constants: the other queries (and the
		// caller's map) still hold the defaults
		defaults := map[string]any{"cur": "USD", "k1": c18Scalar(c, true)}
		own := map[string]any{"cur": "EUR"}
		both := Run(map[string]any{"t": []any{map[string]any{"x": 1.0}}}, "SELECT CONSTANT('cur') AS v FROM t", genql.WithConstants(defaults), genql.WithConstants(own))
		if !both.OK() || len(both.Rows) != 1 || !val.Equal(both.Rows[0].(map[string]any)["v"], "EUR") {
			c.Feature(kind)
			c.Violate("value", fmt.Sprintf("a query given WithConstants(defaults) and then WithConstants(own) returned %s for a constant of its own map", short(fmt.Sprint(both.Describe()), 120)), map[string]any{"observed": both.Describe()})
			return
		}
		if !val.Equal(defaults["cur"], "USD") || len(defaults) != 2 {
			c.Feature(kind)
			c.Violate("value", fmt.Sprintf("the caller's defaults map was rewritten: %s", short(val.Canon(defaults), 120)), map[string]any{"defaults": defaults})
			return
		}
		opts = append(opts, genql.WithConstants(defaults))
		call, want = "CONSTANT('cur')", "USD"
	case "constant.nested":
		// the configured constants reach every nested query, with whatever other options
		consts := map[string]any{"k1": c18Scalar(c, true), "k2": float64(c.Intn(9))}
		opts = append(opts, genql.WithConstants(consts))
		if c.Chance(0.6) {
			opts = append(opts, genql.CompletedCallback(func() {}))
		}
		if c.Chance(0.3) {
			opts = append(opts, genql.UnReportedErrors(func(error) {}))
		}
		if c.Chance(0.3) {
			opts = append(opts, genql.WithVars(map[string]any{"x": 1.0}))
		}
		key := gen.Pick(c.R, []string{"k1", "k2"})
		want = consts[key]
		nestedSQL = gen.Pick(c.R, []string{
			"SELECT q.v FROM (SELECT CONSTANT('%K') AS v FROM t) q",
			"WITH q AS (SELECT CONSTANT('%K') AS v FROM t) SELECT v FROM q",
			"SELECT CONSTANT('%K') AS v FROM t UNION SELECT CONSTANT('%K') AS v FROM t",
			"SELECT (SELECT CONSTANT('%K') AS c FROM dual) AS o FROM t",
			"SELECT CONSTANT('%K') AS v FROM t WHERE EXISTS (SELECT 1 AS one FROM dual WHERE CONSTANT('k2') >= 0)",
		})
		nestedSQL = strings.ReplaceAll(nestedSQL, "%K", key)
		call = "CONSTANT('" + key + "')"
	case "constant", "constant.unknown":
		consts := map[string]any{"k1": c18Scalar(c, true), "k 2": c18Array(c, 1), "Key": float64(c.Intn(9))}
		opts = append(opts, genql.WithConstants(consts))
		key := gen.Pick(c.R, []string{"k1", "k 2", "Key"})
		if kind == "constant.unknown" {
			key = gen.Pick(c.R, []string{"nokey", "", "K1"})
			wantErr = true
			if c.Chance(0.3) {
				opts = nil
			}
		} else {
			want = consts[key]
		}
		call = "CONSTANT(" + arg(key) + ")"
	case "arity":
		fns := []struct {
			name string
			n    int
		}{{"FIRST", 1}, {"LAST", 1}, {"ELEMENTAT", 2}, {"CHANGETYPE", 2}, {"UNWIND", 1}, {"IF", 3}, {"DATERANGE", 2}, {"CONSTANT", 1}, {"HASH", 2}, {"ENCODE", 2}, {"DECODE", 2}, {"TO_LOWER", 1}, {"TO_UPPER", 1}}
		f := gen.Pick(c.R, fns)
		n := f.n + 1
		if c.Chance(0.5) {
			n = f.n - 1
		}
		// plausible arguments so that only the count is wrong
		plaus := map[string][]any{"FIRST": {[]any{1.0}}, "LAST": {[]any{1.0}}, "ELEMENTAT": {[]any{1.0, 2.0}, 0.0}, "CHANGETYPE": {"1", "double"}, "UNWIND": {[]any{1.0}},
			"IF": {true, 1.0, 2.0}, "DATERANGE": {"a", "b"}, "CONSTANT": {"k1"}, "HASH": {"x", "md5"}, "ENCODE": {"x", "hex"}, "DECODE": {"78", "hex"}, "TO_LOWER": {"A"}, "TO_UPPER": {"a"}}[f.name]
		parts := []string{}
		for i := 0; i < n; i++ {
			if i < len(plaus) {
				parts = append(parts, arg(plaus[i]))
			} else {
				parts = append(parts, arg("extra"))
			}
		}
		opts = append(opts, genql.WithConstants(map[string]any{"k1": 1.0}))
		call = f.name + "(" + strings.Join(parts, ", ") + ")"
		wantErr = true
	}
	doc := map[string]any{"t": []any{row}}
	sql := "SELECT " + call + " AS v FROM t"
	if nestedSQL != "" {
		sql = nestedSQL
	}
	runDoc := val.CopyMap(doc)
	if rawDoc {
		runDoc = doc // keeps the capacities of its arrays
	}
	o := Run(runDoc, sql, opts...)
	c.Feature(kind)
	c.Sample(map[string]any{"sql": sql, "row": val.Show(row), "expected": val.Show(want), "expected_error": wantErr})
	det := map[string]any{"sql": sql, "doc": val.Show(doc), "expected": val.Show(want), "expected_error": wantErr, "observed": o.Describe()}
	if o.Panic != nil {
		c.Violate("panic", fmt.Sprintf("%s panicked: %v", call, o.Panic), det)
		return
	}
	if wantErr {
		if o.Err == nil {
			c.Violate("no-error", fmt.Sprintf("%s must be rejected with an error, got %s", call, short(val.Canon(o.Rows), 200)), det)
			return
		}
		c.Nontrivial(sql + val.Canon(row))
		return
	}
	if o.Err != nil {
		c.Violate("error", fmt.Sprintf("%s failed: %v", call, o.Err), det)
		return
	}
	if len(o.Rows) != 1 {
		c.Violate("row-count", fmt.Sprintf("%d rows", len(o.Rows)), det)
		return
	}
	got := o.Rows[0].(map[string]any)["v"]
	if m, ok := o.Rows[0].(map[string]any)["o"].(map[string]any); ok && nestedSQL != "" {
		got = m["c"]
	}
	if msg := extraCheck(got); msg != "" {
		c.Violate("contract", fmt.Sprintf("%s: %s", call, msg), det)
		return
	}
	if want != "<hash>" && !sameSelValue(got, want) {
		c.Violate("value", fmt.Sprintf("%s = %s, the contract gives %s", call, short(val.Canon(got), 200), short(val.Canon(want), 200)), det)
		return
	}
	c.Nontrivial(sql + val.Canon(row))
}

// c18Big: FIRST / LAST / ELEMENTAT over an array of more than a million
// elements, at indexes whose conventional float text carries an exponent.
func c18Big(c *fw.Case) {
	n := 1000003 + c.Intn(50)
	arr := make([]any, n)
	for i := range arr {
		arr[i] = float64(i)
	}
	doc := map[string]any{"t": []any{map[string]any{"big": arr}}}
	idx := []int{1000000, 1000001, n - 1, 999999, 1e6 + 2, 123456, 0}
	i := idx[c.Idx%len(idx)]
	sql := fmt.Sprintf("SELECT ELEMENTAT(big, %d) AS v, LAST(big) AS l, FIRST(big) AS f FROM t", i)
	if c.Idx%3 == 2 {
		sql = fmt.Sprintf("SELECT ELEMENTAT(big, %d) AS v, LAST(big) AS l, FIRST(big) AS f FROM t", n+c.Intn(3))
		i = -1
	}
	o := Run(doc, sql)
	c.Evals(1)
	c.Feature("elementat.big")
	c.Sample(map[string]any{"sql": sql, "array_len": n})
	det := map[string]any{"sql": sql, "array_len": n, "observed": short(fmt.Sprint(o.Describe()), 300)}
	if o.Panic != nil {
		c.Violate("panic", fmt.Sprintf("panicked: %v", o.Panic), det)
		return
	}
	if i < 0 {
		if o.Err == nil {
			c.Violate("no-error", "an index outside a million-element array must be rejected with an error", det)
		}
		c.Nontrivial(sql)
		return
	}
	if o.Err != nil || len(o.Rows) != 1 {
		c.Violate("error", fmt.Sprintf("ELEMENTAT(arr, %d) over %d elements failed: %v", i, n, o.Err), det)
		return
	}
	row, _ := o.Rows[0].(map[string]any)
	if !val.Equal(val.Deref(row["v"]), float64(i)) || !val.Equal(val.Deref(row["l"]), float64(n-1)) || !val.Equal(val.Deref(row["f"]), 0.0) {
		c.Violate("value", fmt.Sprintf("ELEMENTAT(arr, %d) = %v, LAST = %v, FIRST = %v over [0 .. %d]", i, row["v"], row["l"], row["f"], n-1), det)
		return
	}
	c.Nontrivial(sql)
}


// c18Twins: two calls of one function in one select list whose arguments differ
// in letter case (or in the spelling of the function's name) only. Each call
// is a function of its own arguments: together they return what each returns
// when it is the only call of the query.
func c18Twins(c *fw.Case) {
	tpls := []string{"HASH(%s, 'sha1')", "HASH(%s, 'md5')", "ENCODE(%s, 'hex')", "CONCAT(%s, '-', %s)", "ARRAY(%s, 1)", "IF(true, %s, 'n')", "DECODE(ENCODE(%s, 'base64'), 'base64')", "FIRST(ARRAY(%s))", "CHANGETYPE(%s, 'array')", "CONCAT(%s)"}
	tpl := tpls[c.Idx%len(tpls)]
	base := gen.Pick(c.R, []string{"admin", "Hello World", "aBc", "straße", "x1", "Zoë", "ok", "SELECT"})
	other := strings.ToUpper(base)
	switch c.Intn(3) {
	case 0:
		other = strings.ToLower(base)
	case 1:
		other = strings.ToUpper(base[:1]) + base[1:]
	}
	if other == base {
		other = base + "X"
	}
	call := func(v string) string { return strings.ReplaceAll(tpl, "%s", gen.SQLString(v, 0)) }
	a, b := call(base), call(other)
	feat := "twins.literal-case"
	if c.Chance(0.25) {
		// the same call under two spellings of the function's name
		b = strings.ToLower(a[:strings.Index(a, "(")]) + a[strings.Index(a, "("):]
		other = base
		feat = "twins.name-case"
	}
	c.Feature(feat)
	doc := map[string]any{"t": []any{map[string]any{"k": 1.0}}}
	alone := func(callSQL string) (any, bool) {
		o := Run(val.CopyMap(doc), "SELECT "+callSQL+" AS v FROM t")
		if !o.OK() || len(o.Rows) != 1 {
			c.Violate("error", fmt.Sprintf("%s failed on its own: %v", callSQL, o.Describe()), map[string]any{"sql": callSQL})
			return nil, false
		}
		return o.Rows[0].(map[string]any)["v"], true
	}
	va, ok := alone(a)
	if !ok {
		return
	}
	vb, ok := alone(b)
	if !ok {
		return
	}
	sql := "SELECT " + a + " AS v, " + b + " AS w FROM t"
	if c.Chance(0.5) {
		sql = "SELECT " + b + " AS w, " + a + " AS v FROM t"
	}
	o := Run(val.CopyMap(doc), sql)
	c.Evals(3)
	c.Sample(map[string]any{"sql": sql})
	det := map[string]any{"sql": sql, "alone_v": val.Show(va), "alone_w": val.Show(vb), "observed": o.Describe()}
	if !o.OK() || len(o.Rows) != 1 {
		c.Violate("error", fmt.Sprintf("two calls in one select list failed: %v", o.Describe()), det)
		return
	}
	row := o.Rows[0].(map[string]any)
	if !val.Equal(row["v"], va) || !val.Equal(row["w"], vb) {
		c.Violate("value", fmt.Sprintf("two calls of one function in one select list returned v=%s w=%s; each on its own returns v=%s w=%s", short(val.Canon(row["v"]), 80), short(val.Canon(row["w"]), 80), short(val.Canon(va), 80), short(val.Canon(vb), 80)), det)
		return
	}
	if feat == "twins.name-case" && !val.Equal(va, vb) {
		c.Violate("value", "the same call under two spellings of the function's name returned two values", det)
		return
	}
	c.Nontrivial(sql)
}

// HashProbe runs in a process of its own (vcheck hashprobe <order> <text>):
// it calls built-ins over scalars in the given order and returns what HASH
// gives for the text afterwards. HASH is a function of its argument: what the
// process did before does not enter the digest.
func HashProbe(order, text string) string {
	doc := map[string]any{"t": []any{map[string]any{"v": text, "n": 12.5, "b": true}}}
	warm := map[string]string{
		"hash-first":   "",
		"encode-first": "SELECT ENCODE(v, 'hex') AS a, ENCODE(n, 'base64') AS b FROM t",
		"decode-first": "SELECT DECODE(ENCODE(v, 'base32'), 'base32') AS a, DECODE(ENCODE(b, 'hex'), 'hex') AS c FROM t",
		"mixed-first":  "SELECT CONCAT(v, n) AS a, DECODE(ENCODE(n, 'hex'), 'hex') AS b, TO_UPPER(v) AS c FROM t",
	}[order]
	if warm != "" {
		if o := Run(val.CopyMap(doc), warm); !o.OK() {
			return fmt.Sprintf("warm-up failed: %v", o.Describe())
		}
	}
	o := Run(val.CopyMap(doc), "SELECT HASH(v, 'sha1') AS s1, HASH(v, 'md5') AS m5, HASH(n, 'sha256') AS n2, HASH(b, 'sha512') AS b5, HASH('test data', 'sha1') AS lit FROM t")
	if !o.OK() || len(o.Rows) != 1 {
		return fmt.Sprintf("hash query failed: %v", o.Describe())
	}
	return val.Canon(o.Rows[0])
}

func c18HashProcess(c *fw.Case) {
	bin := os.Getenv("VCHECK_BIN")
	if bin == "" {
		bin, _ = os.Executable()
	}
	text := gen.Pick(c.R, []string{"test data", "", "héllo", "a'b", "0"}) + gen.Pick(c.R, []string{"", "x", " 1"})
	orders := []string{"hash-first", "encode-first", "decode-first", "mixed-first"}
	outs := make([]string, len(orders))
	for i, ord := range orders {
		b, err := exec.Command(bin, "hashprobe", ord, text).CombinedOutput()
		if err != nil {
			c.Discard(fmt.Sprintf("probe process failed: %v: %s", err, short(string(b), 200)))
			return
		}
		outs[i] = string(b)
		c.Evals(1)
	}
	c.Feature("hash.process-history")
	c.Sample(map[string]any{"text": text, "digests": short(outs[0], 300)})
	for i := 1; i < len(orders); i++ {
		if outs[i] != outs[0] {
			c.Violate("hash-impure", fmt.Sprintf("HASH of the same values differs between a process that hashes first and one that ran %s: %s vs %s", orders[i], short(outs[0], 200), short(outs[i], 200)),
				map[string]any{"text": text, "hash-first": outs[0], orders[i]: outs[i]})
			return
		}
	}
	if !strings.Contains(outs[0], "s1") {
		c.Violate("error", "the probe printed no digests: "+short(outs[0], 200), map[string]any{"text": text})
		return
	}
	c.Nontrivial(text)
}
