package props

import (
	"fmt"
	"regexp"
	"strings"

	"github.com/vedadiyan/genql"

	"verifharness/internal/fw"
	"verifharness/internal/gen"
	"verifharness/internal/ref"
	"verifharness/internal/val"
)

var c03Forced = []string{"group.1col", "group.2col", "group.3col", "group.nullkey", "group.mixedkey", "having", "having.key", "where", "star", "agg.COUNT*", "agg.COUNT", "agg.SUM", "agg.MIN", "agg.MAX", "agg.AVG",
	"agg.samefn-diffcol", "agg.samefn-samecol", "agg.nullable", "whole.where", "whole.nowhere", "whole.empty", "whole.union", "whole.limit", "table.empty", "from.alias", "reexec.vars", "agg.groupcol", "naming.alias-unqualified", "naming.table-qualified", "agg.like-named", "star.only", "naming.mixed-spelling", "column.nonword", "column.table-prefixed", "agg.huge", "having.alias", "agg.COUNT1", "groups.many", "having.alias-case-twin"}

func init() {
	fw.Register(&fw.Prop{
		ID:    "C03",
		Title: "GROUP BY partitions rows; aggregates cover exactly their group and honour WHERE",
		Level: "exploration",
		Rule: "COUNT of a constant. HAVING naming an aggregate of the select list by its alias. whole-number members around and beyond 2^63 (exact sums); column names that begin with the table's name. GROUP BY spelling the grouping columns the other way than the select list; column names that are not plain words. naming modes (alias, alias-unqualified, table-qualified); aggregates of grouping columns and over like-named nested members; groups shown by `*` alone; re-execution across an execution that fails after its first aggregates. whole-table aggregates may carry a LIMIT that does not cut; a share of the cases reads an aliased table with every column named by its qualified source name; phase 'reexec': one Query executed five times while a variable its WHERE reads changes, each execution compared with a fresh query. each case = random table (string/number/boolean/nullable grouping columns, numeric columns holding dyadic rationals k/4 so that every sum is exact) x GROUP BY over 1..3 columns x optional WHERE (C01 grammar) x optional HAVING over aggregates/key columns " +
			"x select list mixing key columns, `*` and 2..5 aggregates (incl. the same function on different columns and twice on one column); or, without GROUP BY, an all-aggregate select list with/without WHERE (incl. WHERE keeping nothing). " +
			"The real output must equal the reference group-by as a sequence (groups in first-appearance order, members in source order, bit-exact aggregates); conservation sum(COUNT(*)) = |filtered rows| is checked directly; every case is executed 3 (thorough 8) times on fresh copies and all runs must be identical. " +
			"Non-trivial = at least 2 output groups, or a whole-table aggregate over a WHERE that keeps a proper non-empty subset; distinct = distinct (table, SQL).",
		Assumptions: []string{
			"AVG and COUNT(col) are asserted only on columns without NULL/missing members; aggregated columns are numeric; grouping values are scalars or NULL",
			"aggregated values are dyadic rationals so that the bit-exact comparison does not depend on summation order",
			"HAVING compares aggregates of non-NULL columns and non-NULL key columns only",
		},
		Floor:         append(append([]string{}, c03Forced...), "reexec.after-failure"),
		MinNontrivial: 50,
		Phases: []fw.Phase{
			{Name: "group", N: func(t fw.Tier) int { return pick(t, 10000, 300000) }, Run: c03Group},
			{Name: "reexec", N: func(t fw.Tier) int { return pick(t, 600, 15000) }, Run: c03Reexec},
		},
		Witness: sqlWitness,
	})
}

func dyadic(c *fw.Case) float64 {
	switch c.Intn(4) {
	case 0:
		return float64(c.Intn(9) - 2)
	case 1:
		return float64(c.Intn(8001)-4000) / 4
	default:
		return float64(c.Intn(41)-20) / 4
	}
}

func c03Table(c *fw.Case, forceEmpty bool) *gen.Table {
	t := &gen.Table{Name: "t1"}
	n := c.Intn(pick(c.Tier, 13, 41))
	if forceEmpty {
		n = 0
	}
	gs := []any{"a", "b", "A", "", "a b", "1"}
	gs = gs[:2+c.Intn(len(gs)-1)]
	gn := []any{1.0, 2.0, 1.5, -1.0}
	gn = gn[:1+c.Intn(len(gn))]
	if !forceEmpty && (c.Idx%50 == 7 || c.Chance(0.04)) {
		// many groups: more distinct keys than any small table has (whatever
		// the grouping does differently from some size on, a key has one group)
		n = 50 + c.Intn(110)
		k := 33 + c.Intn(40)
		gs, gn = make([]any, k), make([]any, k)
		for i := range gs {
			gs[i] = fmt.Sprintf("k%d", i)
			gn[i] = float64(i) / 2
		}
		c.Feature("groups.many")
	}
	vpool := make([]float64, 2+c.Intn(5))
	for i := range vpool {
		vpool[i] = dyadic(c)
	}
	huge := c.Chance(0.12)
	if huge && n > 0 {
		c.Feature("agg.huge")
	}
	for i := 0; i < n; i++ {
		row := map[string]any{"rid": float64(i)}
		row["g1"] = gen.Pick(c.R, gs)
		row["g2"] = gen.Pick(c.R, gn)
		row["g3"] = c.Chance(0.5)
		switch c.Intn(4) { // nullable string grouping column
		case 0:
			row["g4"] = nil
		case 1:
		default:
			row["g4"] = gen.Pick(c.R, gs)
		}
		// a grouping column whose values look alike as text but differ in type
		switch c.Intn(8) {
		case 0:
		default:
			row["g5"] = gen.Pick(c.R, []any{1.0, "1", true, "true", nil, "<nil>", "a", 1.5, "1.5"})
		}
		row["v1"] = gen.Pick(c.R, vpool)
		if huge {
			// whole numbers around and beyond 2^63 (nanosecond timestamps, 64-bit ids): every sum stays exact
			row["v1"] = float64(1+c.Intn(7)) * (1 << 60)
		}
		row["v2"] = dyadic(c)
		switch c.Intn(3) { // nullable numeric column
		case 0:
			row["w1"] = nil
		case 1:
		default:
			row["w1"] = dyadic(c)
		}
		row["s1"] = gen.RandString(c.R, gen.Plain, 2)
		// two nested objects with a like-named member
		row["p1"] = map[string]any{"v": dyadic(c)}
		row["p2"] = map[string]any{"v": dyadic(c)}
		t.Rows = append(t.Rows, row)
	}
	t.Cols = []gen.Col{{Name: "g1", Kind: gen.KStr}, {Name: "g2", Kind: gen.KNum}, {Name: "g3", Kind: gen.KBool}, {Name: "g4", Kind: gen.KNullStr},
		{Name: "v1", Kind: gen.KNum}, {Name: "v2", Kind: gen.KNum}, {Name: "w1", Kind: gen.KNullNum}, {Name: "s1", Kind: gen.KStr}}
	t.Pools = map[string][]any{"g1": gs, "g2": gn}
	for _, v := range vpool {
		t.Pools["v1"] = append(t.Pools["v1"], v)
	}
	t.Pools["v2"] = []any{0.0, 1.0, -0.25, 2.5}
	t.Pools["s1"] = []any{"a", "b", ""}
	return t
}

type c03Item struct {
	key   string // output key
	col   string // grouping column (when not agg / star)
	agg   *ref.Agg
	star  bool
	alias bool
}

func c03Group(c *fw.Case) {
	force := ""
	if c.Idx < 3*len(c03Forced) {
		force = c03Forced[c.Idx%len(c03Forced)]
	}
	t := c03Table(c, force == "table.empty")
	whole := strings.HasPrefix(force, "whole.") || (force == "" && c.Chance(0.25)) || (force == "table.empty" && c.Chance(0.5))
	var feats []string
	// an aliased table with every column named by its qualified source name
	aliasMode := force == "from.alias" || (force == "" && c.Chance(0.2))
	// how the columns are named: by the alias, without it although the table
	// has one, or by the table's own name
	qualName, fromText := "", "t1"
	switch {
	case aliasMode:
		qualName, fromText = "x", "t1 x"
	case force == "naming.alias-unqualified" || (force == "" && c.Chance(0.08)):
		aliasMode, fromText = true, "t1 x"
		feats = append(feats, "naming.alias-unqualified")
	case force == "naming.table-qualified" || (force == "" && c.Chance(0.08)):
		aliasMode, qualName = true, "t1"
		feats = append(feats, "naming.table-qualified")
	}
	qualify := func(aggSQL string) string {
		if qualName == "" || strings.HasSuffix(aggSQL, "(*)") || strings.HasSuffix(aggSQL, "(1)") {
			return aggSQL
		}
		return strings.Replace(aggSQL, "(", "("+qualName+".", 1)
	}
	pg := &gen.PredGen{R: c.R, T: t, MaxDepth: 2, Disable: map[string]bool{"in.subquery": true, "like": true, "notlike": true}}
	var where gen.Pred
	switch {
	case force == "where" || force == "whole.where":
		where = pg.Gen()
	case force == "whole.nowhere":
	case force == "whole.empty":
		where = gen.Cmp{L: gen.Operand{Col: "v1", IsCol: true}, R: gen.Operand{Lit: 1e6}, Op: ">"}
	case c.Chance(0.4):
		where = pg.Gen()
	}
	// grouping columns
	var gcols []string
	if !whole {
		ng := 1 + c.Intn(3)
		switch force {
		case "group.1col":
			ng = 1
		case "group.2col":
			ng = 2
		case "group.3col":
			ng = 3
		}
		all := []string{"g1", "g2", "g3", "g4", "g5"}
		c.R.Shuffle(len(all), func(i, j int) { all[i], all[j] = all[j], all[i] })
		gcols = all[:ng]
		if force == "group.nullkey" && !containsStr(gcols, "g4") {
			gcols[0] = "g4"
		}
		if force == "group.mixedkey" && !containsStr(gcols, "g5") {
			gcols[0] = "g5"
		}
		if containsStr(gcols, "g5") {
			feats = append(feats, "group.mixedkey")
		}
		feats = append(feats, fmt.Sprintf("group.%dcol", ng))
		if containsStr(gcols, "g4") {
			feats = append(feats, "group.nullkey")
		}
	}
	// aggregates
	aggPool := []ref.Agg{{Fn: "COUNT", Col: "*"}, {Fn: "COUNT", Col: "1"}, {Fn: "COUNT", Col: "v1"}, {Fn: "SUM", Col: "v1"}, {Fn: "SUM", Col: "v2"}, {Fn: "MIN", Col: "v1"}, {Fn: "MIN", Col: "v2"},
		{Fn: "MAX", Col: "v1"}, {Fn: "MAX", Col: "v2"}, {Fn: "AVG", Col: "v1"}, {Fn: "AVG", Col: "v2"}, {Fn: "SUM", Col: "w1"}, {Fn: "MIN", Col: "w1"}, {Fn: "MAX", Col: "w1"}, {Fn: "COUNT", Col: "rid"}}
	var aggs []ref.Agg
	na := 2 + c.Intn(4)
	for i := 0; i < na; i++ {
		aggs = append(aggs, gen.Pick(c.R, aggPool))
	}
	switch {
	case strings.HasPrefix(force, "agg.COUNT*"):
		aggs[0] = ref.Agg{Fn: "COUNT", Col: "*"}
	case force == "agg.samefn-diffcol":
		fn := gen.Pick(c.R, []string{"SUM", "MIN", "MAX", "AVG"})
		aggs[0], aggs[1] = ref.Agg{Fn: fn, Col: "v1"}, ref.Agg{Fn: fn, Col: "v2"}
	case force == "agg.samefn-samecol":
		aggs[1] = aggs[0]
	case force == "agg.nullable":
		aggs[0] = ref.Agg{Fn: gen.Pick(c.R, []string{"SUM", "MIN", "MAX"}), Col: "w1"}
	case force == "agg.groupcol", force == "agg.like-named":
	case strings.HasPrefix(force, "agg."):
		fn := strings.TrimPrefix(force, "agg.")
		aggs[0] = ref.Agg{Fn: fn, Col: "v1"}
	}
	if force == "agg.like-named" || (force == "" && c.Chance(0.15)) {
		// the same function over arguments that differ in their qualifier only
		fn := gen.Pick(c.R, []string{"SUM", "MAX", "MIN", "AVG"})
		aggs = append(aggs, ref.Agg{Fn: fn, Col: "p1.v"}, ref.Agg{Fn: fn, Col: "p2.v"})
		feats = append(feats, "agg.like-named")
	}
	starOnly := !whole && !aliasMode && (force == "star.only" || (force == "" && c.Chance(0.06)))
	if starOnly {
		// no aggregate anywhere: `*` still lists every member of its group
		aggs = nil
		feats = append(feats, "star.only")
	}
	if !whole && (force == "agg.groupcol" || (force == "" && c.Chance(0.25))) {
		// an aggregate of a grouping column covers every member of the group
		switch {
		case containsStr(gcols, "g2"):
			aggs = append(aggs, ref.Agg{Fn: gen.Pick(c.R, []string{"SUM", "COUNT", "SUM", "AVG", "MIN"}), Col: "g2"})
		case containsStr(gcols, "g1"):
			aggs = append(aggs, ref.Agg{Fn: "COUNT", Col: "g1"})
		case containsStr(gcols, "g3"):
			aggs = append(aggs, ref.Agg{Fn: "COUNT", Col: "g3"})
		}
	}
	var items []c03Item
	if !whole {
		for _, g := range gcols {
			if c.Chance(0.8) {
				items = append(items, c03Item{key: g, col: g})
			}
		}
		if !aliasMode && (force == "star" || starOnly || c.Chance(0.25)) {
			items = append(items, c03Item{key: "*", star: true})
			feats = append(feats, "star")
		}
	}
	seenFn := map[string]string{}
	seenCall := map[string]bool{}
	for i := range aggs {
		a := aggs[i]
		items = append(items, c03Item{key: fmt.Sprintf("a%d", i), agg: &aggs[i], alias: true})
		feats = append(feats, "agg."+a.Fn)
		if a.Col == "*" {
			feats = append(feats, "agg.COUNT*")
		}
		if a.Col == "1" {
			feats = append(feats, "agg.COUNT1")
		}
		if a.Col == "w1" {
			feats = append(feats, "agg.nullable")
		}
		if containsStr(gcols, a.Col) {
			feats = append(feats, "agg.groupcol")
		}
		if prev, ok := seenFn[a.Fn]; ok && prev != a.Col {
			feats = append(feats, "agg.samefn-diffcol")
		}
		if seenCall[a.SQL()] {
			feats = append(feats, "agg.samefn-samecol")
		}
		seenFn[a.Fn] = a.Col
		seenCall[a.SQL()] = true
	}
	// an aggregate's alias that differs from a grouping column by letter case
	// only: HAVING over the grouping column still reads the grouping column
	caseTwin := ""
	if !whole && !aliasMode && force == "" && (c.Idx%50 == 9 || c.Chance(0.05)) {
		for _, g := range gcols {
			if g != "g4" && g != "g5" {
				caseTwin = g
				break
			}
		}
		if caseTwin != "" {
			caseTwin = ""
			for i := range items {
				if items[i].agg != nil {
					for _, g := range gcols {
						if g != "g4" && g != "g5" {
							caseTwin = g
							break
						}
					}
					items[i].key = strings.ToUpper(caseTwin)
					feats = append(feats, "having.alias-case-twin")
					break
				}
			}
		}
	}
	c.R.Shuffle(len(items), func(i, j int) { items[i], items[j] = items[j], items[i] })
	// HAVING
	var having gen.Pred
	colText := map[string]string{}
	havingAggs := []ref.Agg{{Fn: "COUNT", Col: "*"}, {Fn: "SUM", Col: "v1"}, {Fn: "MIN", Col: "v2"}, {Fn: "MAX", Col: "v1"}, {Fn: "AVG", Col: "v2"}}
	if containsStr(gcols, "g2") {
		havingAggs = append(havingAggs, ref.Agg{Fn: "SUM", Col: "g2"}, ref.Agg{Fn: "COUNT", Col: "g2"})
	}
	if !whole && (force == "having" || force == "having.key" || force == "having.alias" || caseTwin != "" || c.Chance(0.35)) {
		atom := func() gen.Pred {
			ops := []string{"=", "!=", "<", "<=", ">", ">="}
			useKey := !aliasMode && (force == "having.key" || c.Chance(0.25) || (caseTwin != "" && c.Chance(0.7)))
			if useKey {
				for _, g := range gcols {
					if g == "g4" || g == "g5" {
						continue
					}
					feats = append(feats, "having.key")
					pool := t.Pools[g]
					var lit any = true
					if g != "g3" {
						lit = gen.Pick(c.R, pool)
					} else {
						return gen.Cmp{L: gen.Operand{Col: g, IsCol: true}, R: gen.Operand{Lit: c.Chance(0.5)}, Op: "="}
					}
					return gen.Cmp{L: gen.Operand{Col: g, IsCol: true}, R: gen.Operand{Lit: lit}, Op: gen.Pick(c.R, ops)}
				}
			}
			a := gen.Pick(c.R, havingAggs)
			name := "@" + a.SQL()
			colText[name] = qualify(a.SQL())
			// an aggregate of the select list may be named by its alias
			for _, it := range items {
				if it.agg != nil && it.agg.SQL() == a.SQL() && (force == "having.alias" || c.Chance(0.5)) {
					colText[name] = it.key
					feats = append(feats, "having.alias")
					break
				}
			}
			var lit float64
			if a.Fn == "COUNT" {
				lit = float64(c.Intn(4))
			} else {
				lit = dyadic(c)
			}
			return gen.Cmp{L: gen.Operand{Col: name, IsCol: true}, R: gen.Operand{Lit: lit}, Op: gen.Pick(c.R, ops)}
		}
		having = atom()
		switch c.Intn(3) {
		case 0:
			having = gen.And{A: having, B: atom()}
		case 1:
			having = gen.Or{A: having, B: atom()}
		}
		feats = append(feats, "having")
	}
	// SQL
	ro := gen.RenderOpts{Quote: gen.Quoting(c.Intn(2)), StrStyle: c.Intn(2)}
	from := fromText
	if aliasMode {
		ro.Qualifier = qualName
		if qualName == "x" {
			feats = append(feats, "from.alias")
		}
	}
	parts := make([]string, len(items))
	for i, it := range items {
		switch {
		case it.star:
			parts[i] = "*"
		case it.agg != nil:
			parts[i] = qualify(it.agg.SQL()) + " AS " + it.key
		default:
			parts[i] = ro.Col(it.col)
		}
	}
	sql := "SELECT " + strings.Join(parts, ", ") + " FROM " + from
	if where != nil {
		sql += " WHERE " + gen.RenderPred(where, ro)
		feats = append(feats, "where")
	}
	if !whole {
		// GROUP BY may spell the grouping columns the other way than the
		// select list does: with / without the alias, with the table's own name
		gro := ro
		hasStar := false
		for _, it := range items {
			hasStar = hasStar || it.star
		}
		if !hasStar && (force == "naming.mixed-spelling" || (force == "" && c.Chance(0.15))) {
			switch {
			case ro.Qualifier != "":
				gro.Qualifier = ""
			case fromText == "t1 x":
				gro.Qualifier = "x"
			default:
				gro.Qualifier = "t1"
			}
			feats = append(feats, "naming.mixed-spelling")
		}
		gq := make([]string, len(gcols))
		for i, g := range gcols {
			gq[i] = gro.Col(g)
		}
		sql += " GROUP BY " + strings.Join(gq, ", ")
		if having != nil {
			hro := ro
			hro.ColText = colText
			sql += " HAVING " + gen.RenderPred(having, hro)
		}
	}
	// reference
	var filtered []map[string]any
	for _, row := range t.Rows {
		if where != nil {
			ok, err := ref.EvalPred(where, ref.Env{Row: row})
			if err != nil {
				c.Discard("reference: " + err.Error())
				return
			}
			if !ok {
				continue
			}
		}
		filtered = append(filtered, row)
	}
	evalItems := func(key []any, members []map[string]any) (map[string]any, error) {
		out := map[string]any{}
		for _, it := range items {
			switch {
			case it.star:
				ms := make([]any, len(members))
				for i, m := range members {
					ms[i] = m
				}
				out["*"] = ms
				// README: a grouped `*` carries the group keys and the full
				// group data under the * key
				for i, g := range gcols {
					out[g] = key[i]
				}
			case it.agg != nil:
				v, err := ref.EvalAgg(*it.agg, members)
				if err != nil {
					return nil, err
				}
				out[it.key] = v
			default:
				for i, g := range gcols {
					if g == it.col {
						out[it.key] = key[i]
					}
				}
			}
		}
		return out, nil
	}
	var want []any
	nontrivial := false
	if whole {
		row, err := evalItems(nil, filtered)
		if err != nil {
			c.Discard("domain")
			return
		}
		want = append(want, row)
		switch {
		case len(t.Rows) == 0:
			feats = append(feats, "table.empty")
		case where == nil:
			feats = append(feats, "whole.nowhere")
		case len(filtered) == 0:
			feats = append(feats, "whole.empty", "whole.where")
		default:
			feats = append(feats, "whole.where")
		}
		nontrivial = where != nil && len(filtered) > 0 && len(filtered) < len(t.Rows)
		// two whole-table aggregate queries in one statement: every branch of a
		// UNION computes its aggregates over its own filtered rows
		if force == "whole.union" || (force == "" && c.Chance(0.25)) {
			p2 := pg.Gen()
			var filtered2 []map[string]any
			for _, row := range t.Rows {
				ok, err := ref.EvalPred(p2, ref.Env{Row: row})
				if err != nil {
					c.Discard("reference: " + err.Error())
					return
				}
				if ok {
					filtered2 = append(filtered2, row)
				}
			}
			row2, err := evalItems(nil, filtered2)
			if err != nil {
				c.Discard("domain")
				return
			}
			want = append(want, row2)
			sel := sql[:strings.Index(sql, " FROM t1")]
			sql = sql + " UNION ALL " + sel + " FROM " + from + " WHERE " + gen.RenderPred(p2, ro)
			feats = append(feats, "whole.union")
			nontrivial = len(filtered2) != len(filtered)
		}
	} else {
		if len(t.Rows) == 0 {
			feats = append(feats, "table.empty")
		}
		for _, g := range ref.GroupBy(filtered, gcols) {
			if having != nil {
				env := map[string]any{}
				for i, gc := range gcols {
					env[gc] = g.Key[i]
				}
				for name := range colText {
					var a ref.Agg
					for _, x := range havingAggs {
						if "@"+x.SQL() == name {
							a = x
						}
					}
					v, err := ref.EvalAgg(a, g.Members)
					if err != nil {
						c.Discard("domain")
						return
					}
					env[name] = v
				}
				ok, err := ref.EvalPred(having, ref.Env{Row: env})
				if err != nil {
					c.Discard("having domain: " + err.Error())
					return
				}
				if !ok {
					continue
				}
			}
			row, err := evalItems(g.Key, g.Members)
			if err != nil {
				c.Discard("domain")
				return
			}
			want = append(want, row)
		}
		nontrivial = len(want) >= 2
	}
	// a LIMIT that does not cut the result changes nothing: the one row of a
	// whole-table aggregate is computed over every row that passed WHERE
	if whole && !containsStr(feats, "whole.union") && (force == "whole.limit" || c.Chance(0.3)) {
		sql += fmt.Sprintf(" LIMIT %d", gen.Pick(c.R, []int{1, 1, 2, 5, 100}))
		if c.Chance(0.3) {
			sql += " OFFSET 0"
		}
		feats = append(feats, "whole.limit")
	}
	// column names that are not plain words, back-ticked wherever they are named
	var nonword map[string]string
	if force == "column.nonword" || (force == "" && c.Chance(0.1)) {
		nonword = map[string]string{"g1": "g-1", "g2": "g 2", "v1": "v-1", "w1": "w é", "g4": "g.4"}
		delete(nonword, "g4") // a dot inside a key is a path separator for GROUP BY: not asserted
		sql = c03NonwordRe.ReplaceAllStringFunc(sql, func(m string) string { return "`" + nonword[strings.Trim(m, "`")] + "`" })
		for i := range want {
			want[i] = renameKeys(val.Copy(want[i]), nonword)
		}
		feats = append(feats, "column.nonword")
	}
	// columns whose names begin with the table's name and go on with the name of another column
	if nonword == nil && fromText == "t1" && (force == "column.table-prefixed" || (force == "" && c.Chance(0.1))) {
		nonword = map[string]string{"g4": "t1_g1", "w1": "t1_v1"}
		sql = c03PrefixedRe.ReplaceAllStringFunc(sql, func(m string) string { return nonword[strings.Trim(m, "`")] })
		for i := range want {
			want[i] = renameKeys(val.Copy(want[i]), nonword)
		}
		feats = append(feats, "column.table-prefixed")
	}
	c.Feature(feats...)
	c.Sample(map[string]any{"sql": sql, "rows_in": len(t.Rows), "filtered": len(filtered), "expected": want})
	R := pick(c.Tier, 3, 8)
	var firstRows []any
	for rep := 0; rep < R; rep++ {
		doc := DocOf(t)
		if nonword != nil {
			doc = renameKeys(val.Copy(doc), nonword).(map[string]any)
		}
		o := Run(doc, sql)
		detail := map[string]any{"sql": sql, "doc": doc, "expected": want, "observed": o.Describe(), "repetition": rep}
		if !o.OK() {
			c.Violate("error", fmt.Sprintf("in-domain grouped query failed: %v", o.Describe()), detail)
			return
		}
		got := o.Rows
		if len(want) == 0 && len(got) == 0 {
			continue
		}
		if !val.SameSeq(got, want) {
			kind := "wrong-groups"
			if val.SameMultiset(got, want) {
				kind = "group-order"
			}
			c.Violate(kind, fmt.Sprintf("grouped result differs from the reference (run %d): got %s want %s", rep, short(val.Canon(got), 300), short(val.Canon(want), 300)), detail)
			return
		}
		if rep == 0 {
			firstRows = got
		} else if !val.SameSeq(firstRows, got) {
			c.Violate("nondeterministic", fmt.Sprintf("run %d differs from run 0", rep), detail)
			return
		}
		// conservation law, checked directly on the observed output
		if !whole && having == nil {
			for _, it := range items {
				if it.agg != nil && it.agg.Fn == "COUNT" && it.agg.Col == "*" {
					sum := 0.0
					for _, r := range got {
						if m, ok := r.(map[string]any); ok {
							if rat := val.Rat(m[it.key]); rat != nil {
								f, _ := rat.Float64()
								sum += f
							}
						}
					}
					if int(sum) != len(filtered) {
						c.Violate("conservation", fmt.Sprintf("sum of COUNT(*) over groups = %v, filtered rows = %d", sum, len(filtered)), detail)
						return
					}
					c.Count("conservation_checks", 1)
					break
				}
			}
		}
	}
	c.Evals(R)
	if nontrivial {
		c.Nontrivial(sql + "|" + val.Canon(t.Array()))
	}
}

var c03PrefixedRe = regexp.MustCompile("`?\\b(g4|w1)\\b`?")
var c03NonwordRe = regexp.MustCompile("`?\\b(g1|g2|v1|w1)\\b`?")

func containsStr(xs []string, s string) bool {
	for _, x := range xs {
		if x == s {
			return true
		}
	}
	return false
}

// c03Reexec: one Query object executed several times while a variable its
// WHERE reads changes in between: every execution's aggregates are computed
// over the rows that pass WHERE in that execution.
func c03Reexec(c *fw.Case) {
	t := c03Table(c, false)
	if len(t.Rows) == 0 {
		c.Discard("empty table")
		return
	}
	grouped := c.Chance(0.4)
	sql := "SELECT COUNT(*) AS c, SUM(v1) AS s, MAX(v2) AS m FROM t1 WHERE v1 >= GETVAR('min')"
	if grouped {
		sql = "SELECT g1, COUNT(*) AS c, SUM(v1) AS s FROM t1 WHERE v1 >= GETVAR('min') GROUP BY g1"
	}
	if c.Chance(0.3) && !grouped {
		sql = "SELECT rid, SUM(v1) AS s FROM t1 WHERE v1 >= GETVAR('min')"
	}
	failing := false
	if !grouped && c.Chance(0.35) {
		// the rows with the smallest v1 carry a reading that is no number: an
		// execution that admits them fails after its first aggregates have
		// been computed, the next one starts from nothing all the same
		failing = true
		low := t.Rows[0]["v1"].(float64)
		for _, row := range t.Rows {
			row["p"] = row["v2"]
			if v := row["v1"].(float64); v < low {
				low = v
			}
		}
		for _, row := range t.Rows {
			if row["v1"].(float64) == low {
				row["p"] = "n/a"
				break
			}
		}
		sql = "SELECT COUNT(*) AS c, MIN(v1) AS f, SUM(p) AS s, MAX(v2) AS m FROM t1 WHERE v1 >= GETVAR('min')"
	}
	vars := map[string]any{"min": -1e9}
	q, nerr := newSafe(DocOf(t), sql, genql.WithVars(vars))
	if q == nil || nerr.Err != nil {
		c.Violate("error", fmt.Sprintf("query could not be constructed: %v", nerr.Describe()), map[string]any{"sql": sql})
		return
	}
	c.Feature("reexec.vars")
	mins := []float64{-1e9}
	for i := 0; i < 3; i++ {
		mins = append(mins, dyadic(c))
	}
	mins = append(mins, -1e9)
	for i, min := range mins {
		vars["min"] = min
		got := execBuilt(q)
		fresh := Run(DocOf(t), sql, genql.WithVars(map[string]any{"min": min}))
		c.Evals(2)
		det := map[string]any{"sql": sql, "doc": DocOf(t), "execution": i + 1, "min": min, "observed": got.Describe(), "fresh_query": fresh.Describe()}
		if !fresh.OK() {
			if failing {
				c.Feature("reexec.after-failure")
				continue
			}
			c.Discard("a fresh query fails")
			return
		}
		if !got.OK() || !(val.SameSeq(got.Rows, fresh.Rows) || grouped && val.SameMultiset(got.Rows, fresh.Rows)) {
			c.Violate("reexec-stale", fmt.Sprintf("execution %d of the same Query (min = %v) returned %s, a fresh query returns %s", i+1, min, short(fmt.Sprint(got.Describe()), 200), short(val.Canon(fresh.Rows), 200)), det)
			return
		}
	}
	c.Sample(map[string]any{"sql": sql, "mins": mins})
	c.Nontrivial(sql + val.Canon(t.Array()))
}
