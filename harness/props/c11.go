package props

import (
	"fmt"
	"strings"

	"verifharness/internal/fw"
	"verifharness/internal/gen"
	"verifharness/internal/val"
)

func init() {
	floor := []string{"wrapped", "unwrapped", "outcome.error", "outcome.rows", "mode.error", "mode.panic(error)", "mode.panic(string)", "mode.panic(runtime error)", "async", "mutated", "typeerr"}
	for _, n := range richFormNames(false) {
		floor = append(floor, "form."+n)
	}
	fw.Register(&fw.Prop{
		ID:    "C11",
		Title: "Queries never modify the caller's input document",
		Level: "fault_enumeration",
		Rule: "a cycle-safe structural snapshot (key sets of every object, length and elements of every array, map/slice identities) of the caller's document is taken immediately before New and compared after New+Exec returned and background calls quiesced - on success and on error, with and without Wrapped(). " +
			"phase 'plain': every query form of the rich grammar (filters, row-scoped and root-scoped subqueries, EXISTS, CTEs and CTE chains, joins incl. PARALLEL, ORDER BY, aggregates, GROUP BY with *, DISTINCT, UNION, multi-dimensional FROM, FUSE, ASYNC calls), token-mutated variants and type-error queries; " +
			"phase 'faults' (the crash-point quantifier): for every query with VFAIL in a clause position a fault-free run counts N invocations, then the query is re-run for EVERY k in 1..N with the fault at invocation k as an error, and - for a rotating choice per k - as panic(error), panic(string) and a runtime panic; the snapshot must be unchanged after each. " +
			"Non-trivial = a query that returned rows or failed part-way (N >= 2 fault points); distinct = distinct (document, SQL, options).",
		Assumptions: []string{
			"documents are JSON-shaped trees; a result that aliases the input is not a violation (the property is about the input's state, not about sharing)",
		},
		Floor:         floor,
		MinNontrivial: 50,
		Phases: []fw.Phase{
			{Name: "plain", N: func(t fw.Tier) int { return pick(t, 10000, 300000) }, Run: c11Plain},
			{Name: "faults", N: func(t fw.Tier) int { return pick(t, 2000, 60000) }, Run: c11Faults},
		},
		Witness: sqlWitness,
	})
}

func snapCheck(c *fw.Case, before val.Snapshot, doc map[string]any, what string, det map[string]any) bool {
	if d := before.Diff(val.Snap(doc), 6); len(d) > 0 {
		det["diff"] = d
		c.Violate("input-modified", fmt.Sprintf("%s: the caller's document changed: %s", what, strings.Join(d, "; ")), det)
		return false
	}
	return true
}

// c11Row is a row type an application may declare for itself.
type c11Row map[string]any

func c11Plain(c *fw.Case) {
	d := newRichDoc(c)
	f := richForms[c.Idx%len(richForms)]
	vf := "VFAIL"
	feats := []string{"form." + f.name}
	if (f.name == "select" || f.name == "subq.select" || f.name == "cte" || f.name == "derived") && c.Chance(0.3) {
		vf = "ASYNC.VBG"
		feats = append(feats, "async")
	}
	sql := f.build(c, d, vf)
	switch c.Intn(6) {
	case 0:
		sql = mutateSQL(c, sql)
		feats = append(feats, "mutated")
	case 1:
		sql = typeErrorQueries[c.Intn(len(typeErrorQueries))].sql
		feats = append(feats, "typeerr")
	}
	wrapped := c.Chance(0.5)
	var o OptSet
	if wrapped {
		o.Wrapped = true
		sql = wrapSQL(sql)
		feats = append(feats, "wrapped")
	} else {
		feats = append(feats, "unwrapped")
	}
	armFault(0, faultNone)
	doc := d.fresh()
	if c.Idx%20 == 7 || c.Chance(0.06) {
		// a document built by Go code: rows of map types of their own among the rows
		doc["t3"] = []any{map[string]string{"a": "x", "s1": "p"}, map[string]any{"a": 2.0, "s1": "q"}, c11Row{"a": 1.0, "s1": "p"}, map[string]float64{"a": 1.5}, nil, map[string]any{"a": "x"}}
		sql = gen.Pick(c.R, []string{"SELECT * FROM t3", "SELECT a, s1 FROM t3 x WHERE a IS NOT NULL", "SELECT COUNT(*) AS n FROM t3", "SELECT x.rid, (SELECT COUNT(*) FROM `<-t3`) AS n FROM t1 x",
			"SELECT * FROM t1 x JOIN t3 y ON x.s1 = y.s1", "SELECT a FROM t3 UNION SELECT s1 FROM t1", "SELECT DISTINCT a FROM t3 ORDER BY a"})
		if wrapped {
			sql = wrapSQL(sql)
		}
		feats = append(feats, "rows.foreign-map-types")
	}
	before := val.Snap(doc)
	out := Run(doc, sql, o.Options()...)
	waitBackground()
	c.Feature(feats...)
	if out.Err != nil || out.Panic != nil {
		c.Feature("outcome.error")
	} else {
		c.Feature("outcome.rows")
	}
	c.Sample(map[string]any{"sql": short(sql, 300), "wrapped": wrapped, "outcome": short(fmt.Sprint(out.Describe()), 120)})
	det := map[string]any{"sql": sql, "doc": d.doc, "options": o.Names(), "observed": out.Describe()}
	if !snapCheck(c, before, doc, "after New+Exec", det) {
		return
	}
	// a second query on the same input object must still see pristine data
	if c.Chance(0.3) {
		again := Run(doc, sql, o.Options()...)
		waitBackground()
		c.Evals(1)
		if !snapCheck(c, before, doc, "after running the query twice", det) {
			return
		}
		if out.OK() && again.OK() && !f.multiset && !strings.Contains(sql, "JOIN") && !val.SameSeq(out.Rows, again.Rows) && !containsStr(feats, "mutated") {
			det["second"] = again.Describe()
			c.Violate("second-run-differs", "the same query on the same input object returned something else the second time", det)
			return
		}
	}
	if out.OK() && len(out.Rows) > 0 || out.Err != nil && out.Stage == "exec" {
		c.Nontrivial(sql + fmt.Sprint(wrapped) + val.Canon(d.doc))
	}
}

func c11Faults(c *fw.Case) {
	forms := richFaultForms()
	f := forms[c.Idx%len(forms)]
	var d *richDoc
	var sql string
	wrapped := c.Chance(0.4)
	var o OptSet
	o.Wrapped = wrapped
	N := 0
	for try := 0; try < 6; try++ {
		d = newRichDoc(c)
		sql = f.build(c, d, "VFAIL")
		if wrapped {
			sql = wrapSQL(sql)
		}
		armFault(0, faultNone)
		doc := d.fresh()
		before := val.Snap(doc)
		out := Run(doc, sql, o.Options()...)
		if !out.OK() {
			c.Discard("fault-free run failed (C19 territory): " + short(fmt.Sprint(out.Describe()), 80))
			return
		}
		if !snapCheck(c, before, doc, "after the fault-free run", map[string]any{"sql": sql, "doc": d.doc}) {
			return
		}
		N = faultCount()
		if N >= 1 {
			break
		}
	}
	if N == 0 {
		c.Discard("no fault point (N = 0)")
		return
	}
	c.Feature("form." + f.name)
	if wrapped {
		c.Feature("wrapped")
	} else {
		c.Feature("unwrapped")
	}
	evals := 0
	for k := 1; k <= N; k++ {
		modes := []int32{faultError, int32(faultPanicErr + (k+c.Idx)%3)}
		for _, mode := range modes {
			doc := d.fresh()
			before := val.Snap(doc)
			armFault(k, mode)
			out := Run(doc, sql, o.Options()...)
			armFault(0, faultNone)
			evals++
			c.Feature("mode." + faultModeNames[mode])
			if out.Err != nil || out.Panic != nil {
				c.Feature("outcome.error")
			} else {
				c.Feature("outcome.rows")
			}
			det := map[string]any{"sql": sql, "doc": d.doc, "options": o.Names(), "fault_at_invocation": k, "invocations_fault_free": N, "fault_mode": faultModeNames[mode], "observed": out.Describe()}
			if !snapCheck(c, before, doc, fmt.Sprintf("after a %s at invocation %d of %d (position %s)", faultModeNames[mode], k, N, f.name), det) {
				return
			}
		}
	}
	c.Evals(evals)
	c.Count("fault_points_enumerated", N)
	c.Sample(map[string]any{"sql": sql, "fault_points": N, "wrapped": wrapped, "modes_per_point": 2})
	if N >= 2 {
		c.Nontrivial(sql + fmt.Sprint(wrapped) + val.Canon(d.doc))
	}
}
