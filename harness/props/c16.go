package props

import (
	"fmt"
	"math"
	"runtime/debug"
	"strings"
	"unicode/utf8"

	"github.com/vedadiyan/genql"
	sanitize "github.com/vedadiyan/genql/sanitizer"
	"github.com/vedadiyan/sqlparser/v2"

	"verifharness/internal/fw"
	"verifharness/internal/gen"
	"verifharness/internal/val"
)

var c16Floor = []string{"tpl.echo", "tpl.where", "tpl.in", "tpl.between", "tpl.func", "tpl.limit", "tpl.adjacent", "tpl.repeat", "tpl.protected.single", "tpl.protected.double", "tpl.protected.backtick", "tpl.protected.backtick-backslash", "tpl.protected.comment", "tpl.pg-ident", "tpl.idiomatic-array", "comment.tab", "comment.backslash-eol", "arg.float.huge", "err.missing.huge", "comment.hash", "comment.block-not-nested", "comment.minus-minus", "comment.banner", "str.bad-utf8", "tpl.pg-ident.backslash-end", "tpl.pg-ident.minus-negative", "tpl.badutf8", "tpl.protected.backslash", "err.nan",
	"arg.string", "arg.int", "arg.int.native", "arg.float.native", "arg.negint", "arg.float", "arg.bool", "arg.nil", "str.quote", "str.backslash", "str.comment", "str.control", "str.keyword", "str.multibyte", "err.missing", "err.unused", "err.dollar0", "prepared", "concurrent"}

func init() {
	fw.Register(&fw.Prop{
		ID:    "C16",
		Title: "Sanitized parameters are injection-safe for the library's own parser",
		Level: "exploration",
		Rule: "a negative argument behind a minus sign in front of double-quoted identifiers. string arguments that are not valid UTF-8; block comments ending in several stars. integer and float arguments of every Go type; templates with array literals under IdomaticArrays, a back-ticked identifier ending in a backslash, block comments that look nested, two minus signs that are no comment. arguments include doubles at and beyond 2^63 and int64 extremes; missing-argument templates include placeholder numbers at the width of an int. templates include `--` comments followed by TAB / CR / nothing and ending in a backslash, and `tpl.pg-ident`: the sanitized text evaluated under PostgresEscapingDialect with double-quoted identifiers. each case = a template with 1..5 placeholders in literal positions (echo, WHERE =/!=, IN lists, BETWEEN, function arguments, LIMIT/OFFSET, placeholders adjacent to operators, repeated placeholders, `$n` inside '...', \"...\", `...`, -- and /* */) " +
			"x arguments: strings of length 0..24 over an alphabet of quotes, backslashes, comment introducers, NUL/LF/CR/TAB, `$`, `%`, `_`, multi-byte runes and SQL keyword fragments; int64 (incl. negative); finite float64; booleans; nil. " +
			"Oracle: (1) the sanitized text parses with the library's own parser to the same AST shape (every literal replaced by ?) as the template with one sentinel literal per placeholder; (2) `SELECT $1 AS v FROM dual` echoes exactly the argument; " +
			"(3) `WHERE name = $1` over a table returns exactly the rows whose name equals the argument; (4) static template text ($n inside literals, quoted identifiers, comments) survives verbatim and is echoed untouched; (5) missing / unused arguments and $0 give an error, never a panic. " +
			"Non-trivial = a string argument containing at least one of ' \" ` \\ - / * # ; NUL, or an error case; distinct = distinct (template, arguments).",
		Assumptions: []string{
			"string arguments are valid UTF-8; floats are finite; integers within +-2^53 for the exact echo (the engine evaluates numbers as doubles)",
			"comments are what the parser reads as comments: /* */ (not nested), -- before white space, # and //",
		},
		Floor:         c16Floor,
		MinNontrivial: 200,
		Phases: []fw.Phase{
			{Name: "inject", N: func(t fw.Tier) int { return pick(t, 60000, 2500000) }, Run: c16Run},
			{Name: "concurrent", N: func(t fw.Tier) int { return pick(t, 300, 6000) }, Run: c16Concurrent, Batch: 20},
		},
		Witness: c16Witness,
	})
}

var c16Atoms = []string{"'", "''", "\"", "`", "\\", "\\'", "\\\\", "-", "--", "-- ", "/", "*", "/*", "*/", "#", ";", "\x00", "\n", "\r", "\t", " ", "$", "$1", "$2", "%", "_", "0", "1", "a", "B", "x",
	"é", "日", "€", " ", " OR 1=1 -- ", "' OR ''='", "' UNION SELECT ", "\\' OR 1=1 -- ", "NULL", "true", ")", "(", ",", "e'", "E'", "\\Z", "\\0", "\\n", "\\%", " ", "\xe9", "\xff", "\xc3", "caf\xe9", "\xf0\x9f", "\x80'"}

func c16String(c *fw.Case, feats *[]string) string {
	n := c.Intn(8)
	var b strings.Builder
	for i := 0; i < n && b.Len() < 24; i++ {
		b.WriteString(gen.Pick(c.R, c16Atoms))
	}
	s := b.String()
	if strings.ContainsAny(s, "'\"`") {
		*feats = append(*feats, "str.quote")
	}
	if strings.Contains(s, "\\") {
		*feats = append(*feats, "str.backslash")
	}
	if strings.Contains(s, "--") || strings.Contains(s, "/*") || strings.Contains(s, "#") {
		*feats = append(*feats, "str.comment")
	}
	if strings.ContainsAny(s, "\x00\n\r\t") {
		*feats = append(*feats, "str.control")
	}
	if strings.Contains(s, "OR") || strings.Contains(s, "UNION") {
		*feats = append(*feats, "str.keyword")
	}
	for _, r := range s {
		if r > 127 {
			*feats = append(*feats, "str.multibyte")
			break
		}
	}
	if !utf8.ValidString(s) {
		*feats = append(*feats, "str.bad-utf8")
	}
	return s
}

func c16Arg(c *fw.Case, kind string, feats *[]string) any {
	if kind == "" {
		kind = gen.Pick(c.R, []string{"string", "string", "string", "int", "negint", "float", "bool", "nil"})
	}
	*feats = append(*feats, "arg."+kind)
	switch kind {
	case "string":
		return c16String(c, feats)
	case "int":
		if c.Chance(0.05) {
			return gen.Pick(c.R, []int64{math.MaxInt64, math.MaxInt64 - 1, 1 << 53, 1<<53 + 1})
		}
		if c.Chance(0.04) {
			// unsigned integers beyond the int64 range
			*feats = append(*feats, "arg.uint.huge")
			return gen.Pick(c.R, []any{uint64(math.MaxUint64), uint64(1) << 63, uint64(1)<<63 + 2048, uint(math.MaxUint64), uint64(math.MaxInt64) + 1, uint64(18446744073709549568)})
		}
		if c.Chance(0.25) {
			// an integer is an integer whatever Go type the caller holds it in
			n := c.Intn(1000000)
			*feats = append(*feats, "arg.int.native")
			return gen.Pick(c.R, []any{int(n), int32(n), int16(n % 30000), int8(n % 120), uint(n), uint64(n), uint32(n), uint16(n % 60000), uint8(n % 250), -int(n), int32(-n)})
		}
		return int64(c.Intn(1000000))
	case "negint":
		if c.Chance(0.05) {
			return gen.Pick(c.R, []int64{math.MinInt64, math.MinInt64 + 1, -(1 << 53) - 1})
		}
		return -int64(1 + c.Intn(1000000))
	case "posint":
		return int64(c.Intn(6))
	case "float":
		f := float64(c.Intn(2000001)-1000000) / 64
		if c.Chance(0.2) {
			f = math.Ldexp(float64(1+c.Intn(1000)), c.Intn(60)-30)
		}
		if c.Chance(0.1) {
			*feats = append(*feats, "arg.float.native")
			return float32(c.Intn(2001)-1000) / 8
		}
		if c.Chance(0.08) {
			// whole doubles beyond the int64 range and at its edges
			f = gen.Pick(c.R, []float64{1e19, 1e21, -1e19, 9223372036854775808, -9223372036854775808, 18446744073709551616, math.MaxFloat64, -math.MaxFloat64, 1e300, 4611686018427387904})
			*feats = append(*feats, "arg.float.huge")
		}
		return f
	case "bool":
		return c.Chance(0.5)
	}
	return nil
}

func sentinelFor(a any) string {
	switch a.(type) {
	case string:
		return "'S'"
	case int64, int, int32, int16, int8, uint, uint64, uint32, uint16, uint8:
		return "7"
	case float64, float32:
		return "7.5"
	case bool:
		return "true"
	}
	return "NULL"
}

// shape prints the AST with every literal (and a unary minus applied to a
// literal, NULL, booleans) replaced by ?.
func shape(sql string) (string, error) {
	stmt, err := genql.Parse(sql)
	if err != nil {
		return "", err
	}
	q := sqlparser.NewStrLiteral("?")
	out := sqlparser.Rewrite(stmt, func(cur *sqlparser.Cursor) bool {
		switch n := cur.Node().(type) {
		case *sqlparser.Literal:
			if n != q {
				cur.Replace(q)
			}
			return false
		case *sqlparser.NullVal:
			cur.Replace(q)
			return false
		case sqlparser.BoolVal:
			cur.Replace(q)
			return false
		case *sqlparser.UnaryExpr:
			if n.Operator == sqlparser.UMinusOp {
				if _, ok := n.Expr.(*sqlparser.Literal); ok {
					cur.Replace(q)
					return false
				}
			}
		}
		return true
	}, nil)
	return sqlparser.String(out), nil
}

func sanitizeSafe(tpl string, args []any) (s string, err error, pan any, stack string) {
	defer func() {
		if r := recover(); r != nil {
			pan = r
			stack = string(debug.Stack())
		}
	}()
	s, err = sanitize.SanitizeSQL(tpl, args...)
	return
}

type c16Tpl struct {
	pieces []string // static text around placeholders: pieces[0] $i pieces[1] ...
	slots  []int    // argument index (0-based) of each placeholder occurrence
	args   []any
	kind   string
	note   string // variant marker for the expectation
}

func (t c16Tpl) text() string {
	var b strings.Builder
	for i, p := range t.pieces {
		b.WriteString(p)
		if i < len(t.slots) {
			fmt.Fprintf(&b, "$%d", t.slots[i]+1)
		}
	}
	return b.String()
}

func (t c16Tpl) withSentinels() string {
	var b strings.Builder
	for i, p := range t.pieces {
		b.WriteString(p)
		if i < len(t.slots) {
			b.WriteString(sentinelFor(t.args[t.slots[i]]))
		}
	}
	return b.String()
}

// piecesSurvive: the sanitized text must consist of the static pieces in
// order with something in between (backtracking search).
func piecesSurvive(out string, pieces []string) bool {
	if !strings.HasPrefix(out, pieces[0]) {
		return false
	}
	var rec func(pos, i int) bool
	rec = func(pos, i int) bool {
		if i == len(pieces)-1 {
			return len(out)-len(pieces[i]) >= pos && strings.HasSuffix(out, pieces[i])
		}
		p := pieces[i]
		for from := pos; ; {
			j := strings.Index(out[from:], p)
			if j < 0 {
				return false
			}
			if rec(from+j+len(p), i+1) {
				return true
			}
			from = from + j + 1
			if from > len(out) {
				return false
			}
		}
	}
	if len(pieces) == 1 {
		return out == pieces[0]
	}
	return rec(len(pieces[0]), 1)
}

func c16Run(c *fw.Case) {
	force := ""
	if c.Idx < 3*len(c16Floor) {
		force = c16Floor[c.Idx%len(c16Floor)]
	}
	var feats []string
	kinds := []string{"tpl.echo", "tpl.where", "tpl.in", "tpl.between", "tpl.func", "tpl.limit", "tpl.adjacent", "tpl.repeat", "tpl.protected.single", "tpl.protected.double", "tpl.protected.backtick", "tpl.protected.comment", "tpl.pg-ident", "tpl.idiomatic-array"}
	kind := gen.Pick(c.R, kinds)
	if strings.HasPrefix(force, "tpl.") {
		kind = force
	}
	variant := -1
	switch force {
	case "tpl.badutf8":
		kind, variant = "tpl.protected.comment", 5
	case "comment.hash":
		kind, variant = "tpl.protected.comment", 4
	case "comment.tab":
		kind, variant = "tpl.protected.comment", 1
	case "comment.backslash-eol":
		kind, variant = "tpl.protected.comment", 3
	case "tpl.protected.backslash":
		kind, variant = "tpl.protected.single", 0
	case "tpl.protected.backtick-backslash":
		kind, variant = "tpl.protected.backtick", 7
	case "comment.block-not-nested":
		kind, variant = "tpl.protected.comment", 7
	case "comment.minus-minus":
		kind, variant = "tpl.protected.comment", 8
	case "comment.banner":
		kind, variant = "tpl.protected.comment", 6
	case "tpl.pg-ident.backslash-end":
		kind, variant = "tpl.pg-ident", 1
	case "tpl.pg-ident.minus-negative":
		kind, variant = "tpl.pg-ident", 2
	}
	if force == "concurrent" {
		force = ""
	}
	if strings.HasPrefix(force, "err.") {
		c16Errors(c, force)
		return
	}
	if force == "" && c.Chance(0.03) {
		c16Errors(c, gen.Pick(c.R, []string{"err.missing", "err.unused", "err.dollar0", "err.nan"}))
		return
	}
	argKind := ""
	if strings.HasPrefix(force, "arg.") {
		argKind = strings.TrimPrefix(force, "arg.")
	}
	if strings.HasPrefix(force, "str.") {
		argKind = "string"
	}
	feats = append(feats, kind)
	var t c16Tpl
	t.kind = kind
	A := func(k string) int {
		if k == "" {
			k = argKind
		}
		t.args = append(t.args, c16Arg(c, k, &feats))
		return len(t.args) - 1
	}
	tbl := gen.RandTable(c.R, gen.TableSpec{Name: "t", MaxRows: 6, NumCols: 1, StrCols: 1, StrStyle: gen.Hostile})
	switch kind {
	case "tpl.echo":
		t.pieces, t.slots = []string{"SELECT ", " AS v FROM dual"}, []int{A("")}
	case "tpl.where":
		a := A("string")
		// make the argument match some row
		if s, ok := t.args[a].(string); ok && len(tbl.Rows) > 0 && c.Chance(0.7) {
			tbl.Rows[c.Intn(len(tbl.Rows))]["s1"] = s
		}
		op := gen.Pick(c.R, []string{"=", "!="})
		t.pieces, t.slots = []string{"SELECT rid FROM t WHERE s1 " + op + " ", ""}, []int{a}
		if c.Chance(0.4) {
			t.pieces = []string{"SELECT rid FROM t WHERE s1 " + op + " ", " AND n1 > ", ""}
			t.slots = []int{a, A("float")}
		}
	case "tpl.in":
		n := 1 + c.Intn(4)
		t.pieces = []string{"SELECT rid FROM t WHERE s1 IN ("}
		for i := 0; i < n; i++ {
			t.slots = append(t.slots, A(""))
			if i < n-1 {
				t.pieces = append(t.pieces, ", ")
			}
		}
		t.pieces = append(t.pieces, ")")
	case "tpl.between":
		t.pieces, t.slots = []string{"SELECT rid FROM t WHERE n1 BETWEEN ", " AND ", ""}, []int{A("float"), A("int")}
	case "tpl.func":
		t.pieces, t.slots = []string{"SELECT CONCAT(", ", ", ") AS v, ARRAY(", ") AS w FROM dual"}, []int{A(""), A(""), A("")}
	case "tpl.limit":
		t.pieces, t.slots = []string{"SELECT rid FROM t LIMIT ", " OFFSET ", ""}, []int{A("posint"), A("posint")}
	case "tpl.adjacent":
		t.pieces, t.slots = []string{"SELECT (5 -", ") AS v, (2*", ") AS w FROM dual"}, []int{A(gen.Pick(c.R, []string{"int", "negint", "float"})), A(gen.Pick(c.R, []string{"int", "negint", "float"}))}
	case "tpl.repeat":
		a, b := A(""), A("")
		t.pieces, t.slots = []string{"SELECT ", " AS a, ", " AS b, ", " AS c FROM dual"}, []int{a, b, a}
	case "tpl.protected.single":
		t.pieces, t.slots = []string{"SELECT '$2 $1 it''s' AS a, ", " AS v FROM dual"}, []int{A("")}
		if variant == 0 || c.Chance(0.4) {
			// a backslash-escaped quote does not close the literal
			t.pieces = []string{"SELECT '$2 it\\'s $1 \\\\' AS a, ", " AS v FROM dual"}
			t.note = "backslash"
			feats = append(feats, "tpl.protected.backslash")
		}
	case "tpl.protected.double":
		t.pieces, t.slots = []string{"SELECT \"$3 $1\" AS a, ", " AS v FROM dual"}, []int{A("")}
	case "tpl.protected.backtick":
		if variant == 7 || variant < 0 && c.Chance(0.4) {
			// a back-ticked identifier that ends in a backslash (the parser
			// reads no escapes there), a placeholder after it and `$n` inside a later one
			t.pieces, t.slots = []string{"SELECT ", " AS `dir\\`, ", " AS `w$2` FROM dual"}, []int{A(""), A("")}
			t.note = "backtick-backslash"
			feats = append(feats, "tpl.protected.backtick-backslash")
		} else {
			t.pieces, t.slots = []string{"SELECT ", " AS `v$2` FROM dual"}, []int{A("")}
		}
	case "tpl.protected.comment":
		t.pieces, t.slots = []string{"SELECT /* $2 ' */ ", " AS v FROM dual -- $3 '"}, []int{A("")}
		v := c.Intn(9)
		if variant >= 0 {
			v = variant
		}
		switch v {
		case 0:
			t.pieces = []string{"SELECT ", " AS v -- $2 \" \n FROM dual /* $9 */"}
		case 1:
			// the comment introducer followed by a TAB / CR / nothing at all
			t.pieces = []string{"SELECT ", " AS v\n--\tWHERE x = $2 '\nFROM dual --\t$3"}
			feats = append(feats, "comment.tab")
		case 2:
			t.pieces = []string{"SELECT ", " AS v --\r$2\n FROM dual --"}
			feats = append(feats, "comment.tab")
		case 4:
			// the parser's other line comments: # ... and // ...
			t.pieces = []string{"SELECT ", " AS v # $2 ' requested by $3\nFROM dual // $4 \" \n WHERE 1 = 1 # $9"}
			feats = append(feats, "comment.hash")
		case 5:
			// a byte that is not valid UTF-8 in the static text: nothing after it is lost
			t.pieces = []string{"SELECT /* caf\xe9 $2 */ ", " AS v FROM dual WHERE 'na\xefve' = 'na\xefve' -- \xff $3"}
			feats = append(feats, "tpl.badutf8")
		case 7:
			// a block comment ends at the first */ (the parser does not nest them):
			// the placeholder after it is a placeholder
			t.pieces, t.slots = []string{"SELECT /* files: data/*.json $9 */ ", " AS v, /* /* */ ", " AS w FROM dual"}, []int{0, A("")}
			feats = append(feats, "comment.block-not-nested")
		case 8:
			// two minus signs that are not a comment (no white space behind them)
			t.pieces, t.slots = []string{"SELECT ", " AS v, (0--", ") AS w FROM dual"}, []int{0, A("posint")}
			if n, ok := t.args[1].(int64); ok && n < 0 {
				t.args[1] = -n
			}
			t.note = "minus-minus"
			feats = append(feats, "comment.minus-minus")
		case 6:
			// block comments that end in more than one star (banners, doc comments)
			t.pieces = gen.Pick(c.R, [][]string{
				{"SELECT /**** banner $9 ****/ ", " AS v /** $8 **/ FROM dual /*****/"},
				{"/********\n * report $9\n ********/ SELECT ", " AS v FROM dual"},
				{"SELECT /** note **/ ", " AS v FROM dual WHERE '$9 */' != '/* $8'"},
				{"SELECT /***/ ", " AS v /* ** $7 ***/ FROM dual"},
			})
			feats = append(feats, "comment.banner")
		case 3:
			// a backslash at the end of a line comment hides nothing: the
			// placeholder on the next line is a placeholder
			t.pieces, t.slots = []string{"SELECT ", " AS v -- $9 \\\n, ", " AS w FROM dual"}, []int{0, A("")}
			feats = append(feats, "comment.backslash-eol")
		}
	case "tpl.pg-ident":
		// evaluated under PostgresEscapingDialect: double-quoted identifiers of the
		// template stay identifiers whatever the arguments hold
		a, b := A("string"), A("string")
		if c.Chance(0.6) {
			t.args[a] = gen.Pick(c.R, []string{"C:\\tmp\\", "\\", "it\\'", "a\\\\", "x\\"}) + ""
			t.args[b] = gen.Pick(c.R, []string{"say \"hi\"", "\"", "a \"quoted\" word", "`\"`"})
		}
		t.pieces, t.slots = []string{"SELECT ", " AS a, ", " AS b, \"s1\" AS n, \"rid\" FROM t"}, []int{a, b}
		if variant == 1 || c.Chance(0.4) {
			// a double-quoted identifier that ends in a backslash, a placeholder
			// behind it: the sanitizer and the dialect rewrite agree on where it ends
			t.pieces[1] = " AS \"a\\\\\", "
			t.note = "pg-backslash-alias"
			feats = append(feats, "tpl.pg-ident.backslash-end")
		} else if variant == 2 || c.Chance(0.4) {
			// a negative number right behind a minus sign: two minus signs that
			// are no comment, in front of double-quoted identifiers
			m := A("negint")
			if n, ok := t.args[m].(int64); ok && n > 0 {
				t.args[m] = -n
			}
			t.pieces, t.slots = []string{"SELECT ", " AS a, ", " AS b, 10-", " AS m, \"s1\" AS n, \"rid\" FROM t"}, []int{a, b, m}
			t.note = "pg-minus"
			feats = append(feats, "tpl.pg-ident.minus-negative")
		}
	case "tpl.idiomatic-array":
		// evaluated under IdomaticArrays: the array literals of the template
		// stay what they are whatever the arguments in front of or inside them hold
		a, b := A("string"), A("string")
		if c.Chance(0.5) {
			t.args[a] = gen.Pick(c.R, []string{"Zoë", "日本語", "naïve [x] ' \\ --", "€", "[", "]", "a]b[c", "é\"[1]"})
			t.args[b] = gen.Pick(c.R, []string{"ü", "日本", "]", "[é", "'[", "x"})
		}
		t.pieces, t.slots = []string{"SELECT ", " AS a, [1, 2] AS tags, [", ", 'z'] AS v FROM dual"}, []int{a, b}
	}
	tpl := t.text()
	c.Feature(feats...)
	nontrivial := false
	for _, a := range t.args {
		if s, ok := a.(string); ok && strings.ContainsAny(s, "'\"`\\-/*#;\x00") {
			nontrivial = true
		}
	}
	showArgs := make([]any, len(t.args))
	for i, a := range t.args {
		if s, ok := a.(string); ok {
			showArgs[i] = fmt.Sprintf("%q", s)
		} else {
			showArgs[i] = fmt.Sprintf("%T(%v)", a, a)
		}
	}
	out, err, pan, stack := sanitizeSafe(tpl, t.args)
	c.Sample(map[string]any{"template": tpl, "args": showArgs, "sanitized": out})
	det := map[string]any{"template": tpl, "args": showArgs, "sanitized": out, "sanitized_quoted": fmt.Sprintf("%q", out)}
	if pan != nil {
		det["stack"] = firstN(stack, 25)
		c.Violate("panic", fmt.Sprintf("SanitizeSQL panicked: %v", pan), det)
		return
	}
	if err != nil {
		c.Violate("error", fmt.Sprintf("SanitizeSQL failed on a well-formed template: %v", err), det)
		return
	}
	// prepared commands: two parsed templates alive at the same time must not
	// influence each other (NewQuery + Command.Sanitize is the same machinery
	// SanitizeSQL uses in one step)
	if force == "prepared" || c.Chance(0.25) {
		c.Feature("prepared")
		otherTpl := "SELECT $2 AS zz /* other $9 */ FROM t WHERE s1 = $1 -- tail"
		var fs []string
		otherArgs := []any{c16Arg(c, "string", &fs), c16Arg(c, "", &fs)}
		otherWant, _, _, _ := sanitizeSafe(otherTpl, otherArgs)
		cmdA, errA := sanitize.NewQuery(tpl)
		cmdB, errB := sanitize.NewQuery(otherTpl)
		if errA != nil || errB != nil {
			c.Violate("error", fmt.Sprintf("NewQuery failed: %v %v", errA, errB), det)
			return
		}
		outB, eB := cmdB.Sanitize(otherArgs...)
		outA, eA := cmdA.Sanitize(t.args...)
		if eA != nil || eB != nil || outA != out || outB != otherWant {
			det["prepared_a"], det["prepared_b"], det["expected_b"] = outA, outB, otherWant
			c.Violate("prepared-interference", fmt.Sprintf("two prepared commands alive at once interfere: %q (want %q) / %q (want %q), errors %v %v", short(outA, 120), short(out, 120), short(outB, 120), short(otherWant, 120), eA, eB), det)
			return
		}
	}
	// (4) static text survives verbatim
	if !piecesSurvive(out, t.pieces) {
		c.Violate("static-text-altered", "the template's static text (incl. $n inside literals / identifiers / comments) did not survive verbatim", det)
		return
	}
	// (1) shape
	parsed := func(sql string) (string, error) {
		if kind == "tpl.idiomatic-array" {
			// the statement is what the option's rewrite makes of the text
			fixed, err := genql.FixIdiomaticArray(sql)
			if err != nil {
				return "", err
			}
			sql = fixed
		}
		return shape(sql)
	}
	want, werr := parsed(t.withSentinels())
	if werr != nil {
		c.Discard("template with sentinels does not parse: " + werr.Error())
		return
	}
	got, gerr := parsed(out)
	det["shape_expected"], det["shape_observed"] = want, got
	if gerr != nil {
		c.Violate("unparsable", fmt.Sprintf("the sanitized text does not parse: %v", gerr), det)
		return
	}
	if got != want {
		c.Violate("shape", fmt.Sprintf("argument content changed the statement shape: %s vs %s", short(got, 200), short(want, 200)), det)
		return
	}
	c.Evals(1)
	// (2)/(3)/(4) end to end
	doc := DocOf(tbl)
	exact := func(a any) any {
		if val.IsNumber(a) {
			f, _ := val.Rat(a).Float64()
			return f
		}
		return a
	}
	switch kind {
	case "tpl.echo", "tpl.repeat", "tpl.protected.single", "tpl.protected.double", "tpl.protected.backtick", "tpl.protected.comment":
		o := Run(doc, out)
		c.Evals(1)
		det["observed"] = o.Describe()
		if !o.OK() {
			c.Violate("exec", fmt.Sprintf("the sanitized echo query failed: %v", o.Describe()), det)
			return
		}
		if len(o.Rows) == 0 {
			c.Violate("echo", "the sanitized echo query returned no row", det)
			return
		}
		row, _ := o.Rows[0].(map[string]any)
		expect := map[string]any{}
		switch kind {
		case "tpl.echo", "tpl.protected.comment":
			expect["v"] = exact(t.args[0])
			if len(t.args) == 2 {
				expect["w"] = exact(t.args[1])
			}
			if t.note == "minus-minus" {
				// 0 - (-n)
				expect["w"] = float64(t.args[1].(int64))
			}
		case "tpl.repeat":
			expect["a"], expect["b"], expect["c"] = exact(t.args[0]), exact(t.args[1]), exact(t.args[0])
		case "tpl.protected.single":
			expect["a"], expect["v"] = "$2 $1 it's", exact(t.args[0])
			if t.note == "backslash" {
				expect["a"] = "$2 it's $1 \\"
			}
		case "tpl.protected.double":
			expect["a"], expect["v"] = "$3 $1", exact(t.args[0])
		case "tpl.protected.backtick":
			expect["v$2"] = exact(t.args[0])
			if t.note == "backtick-backslash" {
				expect = map[string]any{"dir\\": exact(t.args[0]), "w$2": exact(t.args[1])}
			}
		}
		det["expected"] = val.Show(expect)
		if !val.Equal(row, expect) {
			c.Violate("echo", fmt.Sprintf("echo returned %s, expected %s", short(val.Canon(row), 200), short(val.Canon(expect), 200)), det)
			return
		}
	case "tpl.idiomatic-array":
		o := Run(doc, out, genql.IdomaticArrays())
		c.Evals(1)
		det["observed"] = o.Describe()
		if !o.OK() {
			c.Violate("exec", fmt.Sprintf("the sanitized query failed under IdomaticArrays: %v", o.Describe()), det)
			return
		}
		want := []any{map[string]any{"a": t.args[0], "tags": []any{1.0, 2.0}, "v": []any{t.args[1], "z"}}}
		det["expected"] = val.Show(want)
		if !val.SameSeq(o.Rows, want) {
			c.Violate("echo", fmt.Sprintf("under IdomaticArrays the query returned %s, expected %s", short(val.Canon(o.Rows), 300), short(val.Canon(want), 300)), det)
			return
		}
	case "tpl.pg-ident":
		o := Run(doc, out, genql.PostgresEscapingDialect())
		c.Evals(1)
		det["observed"], det["doc"] = o.Describe(), doc
		if !o.OK() {
			c.Violate("exec", fmt.Sprintf("the sanitized query failed under PostgresEscapingDialect: %v", o.Describe()), det)
			return
		}
		var want []any
		for _, r := range tbl.Rows {
			first := "a"
			if t.note == "pg-backslash-alias" {
				first = "a\\"
			}
			row := map[string]any{first: t.args[0], "b": t.args[1], "n": r["s1"], "rid": r["rid"]}
			if t.note == "pg-minus" {
				if n, ok := t.args[2].(int64); ok {
					row["m"] = 10 - float64(n)
				}
			}
			want = append(want, row)
		}
		det["expected"] = val.Show(want)
		if !(len(want) == 0 && len(o.Rows) == 0) && !val.SameSeq(o.Rows, want) {
			c.Violate("echo", fmt.Sprintf("under PostgresEscapingDialect the query returned %s, expected %s", short(val.Canon(o.Rows), 300), short(val.Canon(want), 300)), det)
			return
		}
	case "tpl.where":
		if len(t.pieces) == 2 {
			o := Run(doc, out)
			c.Evals(1)
			det["observed"] = o.Describe()
			det["doc"] = doc
			if !o.OK() {
				c.Violate("exec", fmt.Sprintf("the sanitized filter query failed: %v", o.Describe()), det)
				return
			}
			var want []any
			neg := strings.Contains(t.pieces[0], "!=")
			for _, r := range tbl.Rows {
				if (r["s1"] == t.args[0]) != neg {
					want = append(want, r["rid"])
				}
			}
			if !val.SameSeq(Rids(o.Rows), want) {
				c.Violate("filter", fmt.Sprintf("WHERE s1 %s $1 returned rids %v, exactly %v carry that value", map[bool]string{true: "!=", false: "="}[neg], Rids(o.Rows), want), det)
				return
			}
		}
	case "tpl.adjacent":
		o := Run(doc, out)
		c.Evals(1)
		det["observed"] = o.Describe()
		if !o.OK() {
			c.Violate("exec", fmt.Sprintf("the sanitized query failed: %v", o.Describe()), det)
			return
		}
		f := func(a any) float64 {
			if val.IsNumber(a) {
				x, _ := val.Rat(a).Float64()
				return x
			}
			return 0
		}
		expect := map[string]any{"v": 5 - f(t.args[0]), "w": 2 * f(t.args[1])}
		if !val.Equal(o.Rows[0], expect) {
			c.Violate("echo", fmt.Sprintf("adjacent-operator template returned %s, expected %s", short(val.Canon(o.Rows[0]), 200), short(val.Canon(expect), 200)), det)
			return
		}
	}
	if nontrivial {
		c.Nontrivial(tpl + "|" + fmt.Sprint(showArgs))
	}
}

func c16Errors(c *fw.Case, force string) {
	var tpl string
	var args []any
	var fs []string
	switch force {
	case "err.missing":
		tpl = "SELECT $1 AS a, $2 AS b, $" + fmt.Sprint(3+c.Intn(5)) + " AS c FROM dual"
		if c.Chance(0.4) {
			// placeholder numbers at and beyond the width of an int name no argument
			tpl = "SELECT $1 AS a, $2 AS b, $" + gen.Pick(c.R, []string{"9223372036854775807", "9223372036854775808", "18446744073709551615", "18446744073709551616", "18446744073709551617", "18446744073709551618",
				"99999999999999999999", "36893488147419103233", "000000000000000000003"}) + " AS c FROM dual"
			c.Feature("err.missing.huge")
		}
		args = []any{c16Arg(c, "", &fs), c16Arg(c, "", &fs)}
	case "err.nan":
		// NaN and the infinities have no literal
		tpl = "SELECT $1 AS a, $2 AS b FROM dual"
		args = []any{gen.Pick(c.R, []float64{math.NaN(), math.Inf(1), math.Inf(-1)}), c16Arg(c, "", &fs)}
		if c.Chance(0.5) {
			args[0], args[1] = args[1], args[0]
		}
	case "err.unused":
		tpl = "SELECT $1 AS a FROM dual"
		args = []any{c16Arg(c, "", &fs), c16Arg(c, "", &fs)}
		if c.Chance(0.5) {
			tpl = "SELECT $2 AS a FROM dual"
		}
	default:
		tpl = "SELECT $0 AS a FROM dual"
		args = []any{c16Arg(c, "", &fs)}
		if c.Chance(0.5) {
			tpl = "SELECT $1 AS a, $0 AS b FROM dual"
		}
		if c.Chance(0.3) {
			args = nil
			tpl = "SELECT $0 AS b FROM dual"
		}
	}
	c.Feature(force)
	out, err, pan, stack := sanitizeSafe(tpl, args)
	c.Sample(map[string]any{"template": tpl, "nargs": len(args), "error": fmt.Sprint(err)})
	det := map[string]any{"template": tpl, "nargs": len(args), "sanitized": out}
	if pan != nil {
		det["stack"] = firstN(stack, 25)
		c.Violate("panic", fmt.Sprintf("SanitizeSQL(%q) panicked: %v", tpl, pan), det)
		return
	}
	if err == nil {
		c.Violate("no-error", fmt.Sprintf("SanitizeSQL(%q) with %d arguments must report an error, returned %q", tpl, len(args), out), det)
		return
	}
	c.Nontrivial(force + tpl + fmt.Sprint(len(args)))
}

func c16Witness(c *fw.Case, w *fw.Finding) {
	if w.Kind != "sanitize-echo" && w.Kind != "sanitize-error" {
		sqlWitness(c, w)
		return
	}
	var args []any
	if a, ok := w.Expect.([]any); ok {
		args = a
	}
	out, err, pan, _ := sanitizeSafe(w.SQL, args)
	c.Nontrivial("witness:" + w.ID)
	det := map[string]any{"template": w.SQL, "args": val.Show(args), "sanitized": out, "error": fmt.Sprint(err)}
	c.Sample(det)
	if pan != nil {
		c.Violate("panic", fmt.Sprintf("witness %s: SanitizeSQL panicked: %v", w.ID, pan), det)
		return
	}
	if w.Kind == "sanitize-error" {
		if err == nil {
			c.Violate("no-error", fmt.Sprintf("witness %s: expected an error", w.ID), det)
		}
		return
	}
	if err != nil {
		c.Violate("error", fmt.Sprintf("witness %s: %v", w.ID, err), det)
		return
	}
	o := Run(map[string]any{}, out)
	det["observed"] = o.Describe()
	if !o.OK() {
		c.Violate("exec", fmt.Sprintf("witness %s: sanitized query failed: %v", w.ID, o.Describe()), det)
		return
	}
	expect := w.Extra["echo"]
	if !val.Equal(o.Rows[0], expect) {
		c.Violate("echo", fmt.Sprintf("witness %s: echo %s, expected %s", w.ID, val.Canon(o.Rows[0]), val.Canon(expect)), det)
	}
}

// c16Concurrent: SanitizeSQL called from several goroutines at once must
// return what it returns when called alone (no shared lexer / buffer state).
func c16Concurrent(c *fw.Case) {
	type job struct {
		tpl  string
		args []any
		want string
		werr bool
		got  string
		gerr bool
		pan  any
	}
	G := 2 + c.Intn(7)
	jobs := make([][]*job, G)
	tpls := []string{"SELECT $1 AS v FROM dual", "SELECT rid FROM t WHERE s1 = $1 AND n1 > $2", "SELECT $1 AS a, $2 AS b, $1 AS c FROM dual /* $3 */", "SELECT rid FROM t WHERE s1 IN ($1, $2, $3) -- $4",
		"SELECT '$2' AS x, $1 AS v FROM `t$3`", "SELECT $2 AS a FROM dual", "SELECT $0 AS a FROM dual"}
	var fs []string
	for g := range jobs {
		for i := 0; i < 12; i++ {
			tpl := gen.Pick(c.R, tpls)
			n := strings.Count(tpl, "$1") + strings.Count(tpl, "$2") + strings.Count(tpl, "$3")
			nargs := 1
			if strings.Contains(tpl, " $2") || strings.Contains(tpl, "($1, $2") {
				nargs = 2
			}
			if strings.Contains(tpl, ", $3)") {
				nargs = 3
			}
			_ = n
			args := make([]any, nargs)
			for k := range args {
				args[k] = c16Arg(c, "", &fs)
			}
			j := &job{tpl: tpl, args: args}
			w, err, pan, _ := sanitizeSafe(tpl, args)
			if pan != nil {
				c.Violate("panic", fmt.Sprintf("SanitizeSQL panicked: %v", pan), map[string]any{"template": tpl})
				return
			}
			j.want, j.werr = w, err != nil
			jobs[g] = append(jobs[g], j)
		}
	}
	done := make(chan struct{}, G)
	start := make(chan struct{})
	for g := range jobs {
		go func(js []*job) {
			<-start
			for rep := 0; rep < 4; rep++ {
				for _, j := range js {
					out, err, pan, _ := sanitizeSafe(j.tpl, j.args)
					if pan != nil || (err != nil) != j.werr || out != j.want {
						j.got, j.gerr, j.pan = out, err != nil, pan
						if j.pan == nil && j.got == "" && !j.gerr {
							j.got = "(empty)"
						}
					}
				}
			}
			done <- struct{}{}
		}(jobs[g])
	}
	close(start)
	for range jobs {
		<-done
	}
	c.Feature("concurrent")
	total := 0
	for g, js := range jobs {
		for _, j := range js {
			total++
			if j.pan != nil || j.got != "" || j.gerr != j.werr && j.got != "" {
				c.Violate("concurrent-interference", fmt.Sprintf("goroutine %d: SanitizeSQL(%q) under concurrency returned %q (error=%v, panic=%v), alone it returns %q (error=%v)", g, j.tpl, short(j.got, 160), j.gerr, j.pan, short(j.want, 160), j.werr),
					map[string]any{"template": j.tpl, "alone": j.want, "concurrent": j.got})
				return
			}
		}
	}
	c.Evals(total * 4)
	c.Sample(map[string]any{"goroutines": G, "calls": total * 4, "example_template": jobs[0][0].tpl})
	c.Nontrivial(fmt.Sprint("concurrent", c.Idx))
}
