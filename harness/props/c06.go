package props

import (
	"fmt"
	"math"
	"strings"

	"verifharness/internal/fw"
	"verifharness/internal/gen"
	"verifharness/internal/val"
)

var c06Floor = []string{"distinct", "distinct.star", "distinct.multi", "distinct.dups", "distinct.lookalike", "distinct.grouped", "distinct.derived", "distinct.cte", "union.all", "union.distinct", "union.mixed", "chain.2", "chain.3", "chain.4", "union.limit", "union.limit.offset", "union.dups", "table.large", "reexec", "union.async", "union.limit.all-from", "distinct.window", "where", "badutf8", "union.cte", "union.cte.chain3", "branch.window", "distinct.fused", "distinct.ordered", "union.ordered", "close-doubles"}

func init() {
	fw.Register(&fw.Prop{
		ID:    "C06",
		Title: "DISTINCT removes exactly the duplicates; UNION [ALL] concatenates [and dedups]",
		Level: "exploration",
		Rule: "dISTINCT and UNION under an ORDER BY (same multiset); doubles that differ in their last digits only. DISTINCT over FUSE(obj) (columns the select list does not name). tables of 250..1050 rows; statements built once and executed three times; union branches that select background calls; windows over DISTINCT / UNION incl. the all-rows-from-m idiom; 0 and -0. chains may contain parenthesised branches with their own LIMIT/OFFSET (plain, DISTINCT, or a nested union). value pools include strings that are not valid UTF-8; union chains may read their tables through CTEs of the statement. each case = duplication-heavy tables whose values include look-alikes under textual fingerprints (\"1\" vs 1, \"x b:y\" vs two columns, \"<nil>\" vs NULL, \"[1 2]\" vs an array) x either SELECT DISTINCT over 1..3 columns or * (with optional WHERE), " +
			"or a chain of 2..4 branches with every mix of UNION / UNION ALL and an optional trailing LIMIT [OFFSET]. Oracle (metamorphic over real executions): DISTINCT output = first-occurrence subsequence of the non-DISTINCT output under deep typed equality; " +
			"a chain = left-associated fold of the branches' standalone outputs (concatenate; dedup after each plain UNION); LIMIT applies to the combined sequence. Non-trivial = the dedup removes at least one row and keeps at least two, or a chain whose combined result has >= 3 rows; distinct = distinct (tables, SQL).",
		Assumptions: []string{
			"documents are JSON-shaped (numbers are float64), so typed equality is unambiguous; branches are plain filter/projection SELECTs with deterministic order",
			"UNION-distinct order is first occurrence (in line with the DISTINCT sentence of the property); nil and [] both count as empty",
		},
		Floor:         c06Floor,
		MinNontrivial: 50,
		Phases: []fw.Phase{
			{Name: "dedup", N: func(t fw.Tier) int { return pick(t, 10000, 300000) }, Run: c06Run},
		},
		Witness: sqlWitness,
	})
}

var c06Values = []any{0.0, math.Copysign(0, -1), 1.0, "1", 2.0, "2", "x", "x b:y", "y", "a:1", "map[a:1]", "[1 2]", "<nil>", nil, true, "true", "", " ", "1 1", 1.5, "1.5"}

// strings that are not valid UTF-8 and differ only in their invalid bytes
var c06BadUTF8 = []any{"caf\xe9", "caf\xe8", "caf\xc3", "\xff", "\xfe", "caf\ufffd"}

func c06Table(c *fw.Case, name string) *gen.Table {
	t := &gen.Table{Name: name}
	pool := append([]any{}, c06Values...)
	c.R.Shuffle(len(pool), func(i, j int) { pool[i], pool[j] = pool[j], pool[i] })
	pool = pool[:2+c.Intn(4)]
	if c.Chance(0.15) {
		pool = append(pool[:1], c06BadUTF8[:2+c.Intn(len(c06BadUTF8)-1)]...)
		c.Feature("badutf8")
	} else if c.Chance(0.12) {
		// doubles that differ in their last digits only (long ids decoded from JSON, 0.1 + 0.2 next to 0.3)
		pool = append(pool[:1], []any{0.1 + 0.2, 0.3, 1e18, 1e18 + 256, 1234567890123456768.0, 1234567890123457024.0, 0.7, 0.7000000000000001}[:2+c.Intn(7)]...)
		c.Feature("close-doubles")
	}
	n := c.Intn(pick(c.Tier, 11, 30))
	if name == "t1" && (c.Idx%40 == 13 || c.Chance(0.004)) {
		// a large table (the engine may treat large inputs differently), of
		// any size modulo small worker counts, mostly distinct rows with
		// repeats of earlier rows anywhere, the last rows included
		n = 250 + c.Intn(800)
		pool = nil
		for i, k := 0, n/2+c.Intn(n); i < k; i++ {
			pool = append(pool, float64(i))
		}
		c.Feature("table.large")
	}
	for i := 0; i < n; i++ {
		row := map[string]any{"a": gen.Pick(c.R, pool), "b": gen.Pick(c.R, pool)}
		switch c.Intn(5) {
		case 0:
			row["c"] = []any{1.0, 2.0}
		case 1:
			row["c"] = map[string]any{"a": 1.0}
		case 2:
			row["c"] = gen.Pick(c.R, pool)
		case 3:
			// missing
		default:
			row["c"] = "[1 2]"
		}
		t.Rows = append(t.Rows, row)
	}
	return t
}

func dedupFirst(rows []any) []any {
	seen := map[string]bool{}
	var out []any
	for _, r := range rows {
		k := val.Canon(r)
		if !seen[k] {
			seen[k] = true
			out = append(out, r)
		}
	}
	return out
}

func c06Run(c *fw.Case) {
	force := ""
	if c.Idx < 3*len(c06Floor) {
		force = c06Floor[c.Idx%len(c06Floor)]
	}
	t1, t2 := c06Table(c, "t1"), c06Table(c, "t2")
	doc := func() map[string]any { return DocOf(t1, t2) }
	var feats []string
	colsets := [][]string{{"a"}, {"b"}, {"a", "b"}, {"a", "c"}, {"a", "b", "c"}, {"c"}}
	cols := gen.Pick(c.R, colsets)
	if force == "distinct.multi" {
		cols = []string{"a", "b"}
	}
	sel := strings.Join(cols, ", ")
	whereOf := func() string {
		if force == "where" || c.Chance(0.3) {
			feats = append(feats, "where")
			v := gen.Pick(c.R, []any{1.0, "1", "x", 2.0})
			op := gen.Pick(c.R, []string{"=", "!="})
			return " WHERE a " + op + " " + gen.SQLLit(v, 0)
		}
		return ""
	}
	isDistinct := strings.HasPrefix(force, "distinct") || (force == "" || force == "where") && c.Chance(0.4)
	if isDistinct {
		if force == "distinct.star" || c.Chance(0.2) {
			sel = "*"
			feats = append(feats, "distinct.star")
		} else if len(cols) > 1 {
			feats = append(feats, "distinct.multi")
		}
		w := whereOf()
		plain := "SELECT " + sel + " FROM t1" + w
		dsql := "SELECT DISTINCT " + sel + " FROM t1" + w
		// DISTINCT is a property of the output rows whatever produced them:
		// grouped, derived, CTE and ordered sources
		shape := ""
		switch {
		case strings.HasPrefix(force, "distinct.") && force != "distinct.star" && force != "distinct.multi" && force != "distinct.dups" && force != "distinct.lookalike":
			shape = strings.TrimPrefix(force, "distinct.")
		case force == "" && c.Chance(0.35):
			shape = gen.Pick(c.R, []string{"grouped", "derived", "cte", "fused"})
		}
		switch shape {
		case "fused":
			// columns the select list does not name: they come out of an object
			// of the row, and rows may differ in them only
			for _, r := range t1.Rows {
				r["o"] = map[string]any{"p": gen.Pick(c.R, []any{1.0, 2.0, "1"}), "q": gen.Pick(c.R, []any{"x", "y"})}
			}
			body := gen.Pick(c.R, []string{"FUSE(o)", "a, FUSE(o)", "FUSE(o), b", "FUSE(o) AS f"}) + " FROM t1" + w
			plain, dsql = "SELECT "+body, "SELECT DISTINCT "+body
		case "grouped":
			// the select list drops a grouping key, so different groups give equal rows
			body := gen.Pick(c.R, []string{"a FROM t1" + w + " GROUP BY a, b", "a, COUNT(*) AS n FROM t1" + w + " GROUP BY a, b", "b, COUNT(*) AS n FROM t1" + w + " GROUP BY b, a"})
			plain, dsql = "SELECT "+body, "SELECT DISTINCT "+body
		case "derived":
			plain = "SELECT q.a, q.b FROM (SELECT a, b, c FROM t1" + w + ") q"
			dsql = "SELECT DISTINCT q.a, q.b FROM (SELECT a, b, c FROM t1" + w + ") q"
		case "cte":
			plain = "WITH c1 AS (SELECT a, b FROM t1" + w + ") SELECT a FROM c1"
			dsql = "WITH c1 AS (SELECT a, b FROM t1" + w + ") SELECT DISTINCT a FROM c1"
		}
		if shape != "" {
			feats = append(feats, "distinct."+shape)
		}
		// a window over the distinct rows, also "all rows from m on"
		dOff, dLim := 0, -1
		if shape == "" && (force == "distinct.window" || (force == "" && c.Chance(0.2))) {
			dOff = c.Intn(4)
			dLim = c.Intn(5)
			limText := fmt.Sprint(dLim)
			if c.Chance(0.5) {
				dLim = math.MaxInt64
				limText = gen.Pick(c.R, []string{"18446744073709551615", "9223372036854775807"})
			}
			dsql += fmt.Sprintf(" LIMIT %d, %s", dOff, limText)
			feats = append(feats, "distinct.window")
		}
		p := Run(doc(), plain)
		d := Run(doc(), dsql)
		feats = append(feats, "distinct")
		c.Evals(2)
		if !p.OK() || !d.OK() {
			c.Feature(feats...)
			c.Violate("error", fmt.Sprintf("query failed: plain=%v distinct=%v", p.Describe(), d.Describe()), map[string]any{"sql": dsql, "doc": doc()})
			return
		}
		want := dedupFirst(p.Rows)
		if len(want) < len(p.Rows) {
			feats = append(feats, "distinct.dups")
		}
		if dLim >= 0 {
			if dOff >= len(want) {
				want = nil
			} else {
				want = want[dOff:]
				if dLim < len(want) {
					want = want[:dLim]
				}
			}
		}
		// look-alikes: two rows that differ under typed equality but print alike under %v
		seenV := map[string]string{}
		for _, r := range p.Rows {
			pv := fmt.Sprintf("%v", r)
			if prev, ok := seenV[pv]; ok && prev != val.Canon(r) {
				feats = append(feats, "distinct.lookalike")
			}
			seenV[pv] = val.Canon(r)
		}
		c.Feature(feats...)
		c.Sample(map[string]any{"sql": dsql, "rows": len(p.Rows), "distinct_rows": len(want)})
		if !val.SameSeq(d.Rows, want) {
			c.Violate("wrong-distinct", fmt.Sprintf("DISTINCT returned %d rows, first-occurrence dedup of the plain result has %d: got %s want %s", len(d.Rows), len(want), short(val.Canon(d.Rows), 300), short(val.Canon(want), 300)),
				map[string]any{"sql": dsql, "doc": doc(), "plain": val.Show(p.Rows), "observed": val.Show(d.Rows), "expected": val.Show(want)})
			return
		}
		if len(want) < len(p.Rows) && len(want) >= 2 {
			c.Nontrivial(dsql + "|" + val.Canon(t1.Array()))
		}
		// sorted by one of its columns the distinct result is still the same set of rows
		if dLim < 0 && shape != "fused" && shape != "cte" && shape != "derived" && shape != "grouped" && (force == "distinct.ordered" || c.Chance(0.25)) {
			key := gen.Pick(c.R, []string{"a", "b", "c"})
			if sel != "*" {
				key = gen.Pick(c.R, cols)
			}
			osql := dsql + " ORDER BY " + key + gen.Pick(c.R, []string{"", " DESC"})
			o := Run(doc(), osql)
			c.Evals(1)
			c.Feature("distinct.ordered")
			if !o.OK() || !val.SameMultiset(o.Rows, want) {
				c.Violate("wrong-distinct", fmt.Sprintf("DISTINCT ... ORDER BY %s returned %d rows, the distinct rows are %d: got %s want (any order) %s", key, len(o.Rows), len(want), short(val.Canon(o.Rows), 300), short(val.Canon(want), 300)),
					map[string]any{"sql": osql, "doc": doc(), "observed": o.Describe(), "expected_any_order": val.Show(want)})
				return
			}
		}
		c06Again(c, doc(), dsql, want)
		return
	}
	// union chain
	k := 2 + c.Intn(3)
	switch force {
	case "chain.2":
		k = 2
	case "chain.3":
		k = 3
	case "chain.4":
		k = 4
	case "union.mixed":
		k = 3 + c.Intn(2)
	}
	if force == "union.async" || (force == "" && c.Chance(0.08)) {
		// the branches' columns are background calls: rows are compared by
		// the values the calls return
		parts := make([]string, len(cols))
		for i, col := range cols {
			parts[i] = "ASYNC.VBG(" + col + ") AS " + col
		}
		sel = strings.Join(parts, ", ")
		feats = append(feats, "union.async")
	}
	var branches []string
	var conns []bool // true = ALL
	// the branches may read the tables through CTEs of the statement
	overCTE := force == "union.cte" || force == "union.cte.chain3" || force == "" && c.Chance(0.3)
	if force == "union.cte.chain3" {
		k = 3 + c.Intn(2)
	}
	cteOf := map[string]string{"t1": "x1", "t2": "y2"}
	var standalone []string
	for i := 0; i < k; i++ {
		tb := gen.Pick(c.R, []string{"t1", "t2"})
		w := whereOf()
		// a parenthesised branch with its own window: a plain or DISTINCT select,
		// or a union of two selects; its standalone output is that text run alone
		if !overCTE && (force == "branch.window" || force == "" && c.Chance(0.15)) {
			inner := "SELECT " + gen.Pick(c.R, []string{"", "DISTINCT "}) + sel + " FROM " + tb + w
			if c.Chance(0.5) {
				inner = "SELECT " + sel + " FROM " + tb + w + gen.Pick(c.R, []string{" UNION ", " UNION ", " UNION ALL "}) + "SELECT " + sel + " FROM " + gen.Pick(c.R, []string{"t1", "t2"})
			}
			inner += fmt.Sprintf(" LIMIT %d", 1+c.Intn(4))
			if c.Chance(0.4) {
				inner += fmt.Sprintf(" OFFSET %d", c.Intn(3))
			}
			standalone = append(standalone, inner)
			branches = append(branches, "("+inner+")")
			feats = append(feats, "branch.window")
			if i > 0 {
				all := c.Chance(0.4)
				conns = append(conns, all)
			}
			continue
		}
		standalone = append(standalone, "SELECT "+sel+" FROM "+tb+w)
		if overCTE && (i < 2 || c.Chance(0.7)) {
			tb = cteOf[tb]
		}
		branches = append(branches, "SELECT "+sel+" FROM "+tb+w)
		if i > 0 {
			all := c.Chance(0.5)
			switch force {
			case "union.all":
				all = true
			case "union.distinct":
				all = false
			case "union.mixed":
				all = i%2 == 1
			}
			conns = append(conns, all)
		}
	}
	feats = append(feats, fmt.Sprintf("chain.%d", k))
	nAll, nDis := 0, 0
	sql := branches[0]
	for i, all := range conns {
		if all {
			sql += " UNION ALL " + branches[i+1]
			nAll++
		} else {
			sql += " UNION " + branches[i+1]
			nDis++
		}
	}
	if nAll > 0 {
		feats = append(feats, "union.all")
	}
	if nDis > 0 {
		feats = append(feats, "union.distinct")
	}
	if nAll > 0 && nDis > 0 {
		feats = append(feats, "union.mixed")
	}
	if overCTE {
		sql = "WITH x1 AS (SELECT * FROM t1), y2 AS (SELECT * FROM t2) " + sql
		feats = append(feats, "union.cte")
		if k >= 3 {
			feats = append(feats, "union.cte.chain3")
		}
	}
	// fold of standalone outputs
	var acc []any
	evals := 0
	for i, b := range standalone {
		o := Run(doc(), b)
		evals++
		if !o.OK() {
			c.Feature(feats...)
			c.Violate("error", fmt.Sprintf("branch failed: %v", o.Describe()), map[string]any{"sql": b, "doc": doc()})
			return
		}
		before := len(acc) + len(o.Rows)
		acc = append(acc, o.Rows...)
		if i > 0 && !conns[i-1] {
			acc = dedupFirst(acc)
			if len(acc) < before {
				feats = append(feats, "union.dups")
			}
		}
	}
	lim, off := -1, 0
	if force == "union.limit" || force == "union.limit.offset" || c.Chance(0.3) {
		lim = c.Intn(len(acc) + 2)
		feats = append(feats, "union.limit")
		if force == "union.limit.all-from" || (force == "" && c.Chance(0.15)) {
			// "all rows from m on"
			off = c.Intn(len(acc) + 2)
			lim = math.MaxInt64
			sql += fmt.Sprintf(" LIMIT %d, %s", off, gen.Pick(c.R, []string{"18446744073709551615", "9223372036854775807", "9223372036854775806"}))
			feats = append(feats, "union.limit.all-from", "union.limit.offset")
		} else if force == "union.limit.offset" || c.Chance(0.5) {
			off = c.Intn(len(acc) + 2)
			sql += fmt.Sprintf(" LIMIT %d OFFSET %d", lim, off)
			feats = append(feats, "union.limit.offset")
		} else {
			sql += fmt.Sprintf(" LIMIT %d", lim)
		}
	}
	want := acc
	if lim >= 0 {
		if off >= len(want) {
			want = nil
		} else {
			want = want[off:]
			if lim < len(want) {
				want = want[:lim]
			}
		}
	}
	u := Run(doc(), sql)
	evals++
	c.Feature(feats...)
	c.Evals(evals)
	c.Sample(map[string]any{"sql": sql, "combined_rows": len(acc), "expected_rows": len(want)})
	if !u.OK() {
		c.Violate("error", fmt.Sprintf("union chain failed: %v", u.Describe()), map[string]any{"sql": sql, "doc": doc()})
		return
	}
	if !val.SameSeq(u.Rows, want) {
		c.Violate("wrong-union", fmt.Sprintf("union chain returned %d rows, the fold of its branches has %d: got %s want %s", len(u.Rows), len(want), short(val.Canon(u.Rows), 300), short(val.Canon(want), 300)),
			map[string]any{"sql": sql, "doc": doc(), "observed": val.Show(u.Rows), "expected": val.Show(want)})
		return
	}
	// sorted by one column the union is the same multiset of rows
	if lim < 0 && !overCTE && (force == "union.ordered" || c.Chance(0.25)) {
		osql := sql + " ORDER BY " + gen.Pick(c.R, cols) + gen.Pick(c.R, []string{"", " DESC"})
		o := Run(doc(), osql)
		c.Evals(1)
		c.Feature("union.ordered")
		if !o.OK() || !val.SameMultiset(o.Rows, want) {
			c.Violate("wrong-union", fmt.Sprintf("union chain ... ORDER BY returned %d rows, the fold of its branches has %d: got %s want (any order) %s", len(o.Rows), len(want), short(val.Canon(o.Rows), 300), short(val.Canon(want), 300)),
				map[string]any{"sql": osql, "doc": doc(), "observed": o.Describe(), "expected_any_order": val.Show(want)})
			return
		}
	}
	if len(acc) >= 3 {
		c.Nontrivial(sql + "|" + val.Canon(t1.Array()) + val.Canon(t2.Array()))
	}
	c06Again(c, doc(), sql, want)
}

// c06Again: in a share of the cases the statement is built once and executed
// three times; every execution returns what the first returned.
func c06Again(c *fw.Case, doc map[string]any, sql string, want []any) {
	if c.Idx%5 != 2 && !c.Chance(0.1) {
		return
	}
	q, nerr := newSafe(doc, sql)
	if q == nil {
		c.Violate("error", fmt.Sprintf("statement could not be built a second time: %v", nerr.Describe()), map[string]any{"sql": sql, "doc": doc})
		return
	}
	c.Feature("reexec")
	for i := 1; i <= 3; i++ {
		o := execBuilt(q)
		c.Evals(1)
		if !o.OK() || !(len(o.Rows) == 0 && len(want) == 0) && !val.SameSeq(o.Rows, want) {
			c.Violate("reexec", fmt.Sprintf("execution %d of the same Query returned %d rows, expected %d: got %s want %s", i, len(o.Rows), len(want), short(fmt.Sprint(o.Describe()), 300), short(val.Canon(want), 300)),
				map[string]any{"sql": sql, "doc": doc, "execution": i, "observed": o.Describe(), "expected": val.Show(want)})
			return
		}
	}
}
