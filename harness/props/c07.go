package props

import (
	"fmt"
	"strings"

	"verifharness/internal/fw"
	"verifharness/internal/gen"
	"verifharness/internal/ref"
	"verifharness/internal/val"
)

var c07Floor = []string{"cte.1", "cte.chain2", "cte.chain3", "cte.twice.join", "cte.twice.union", "cte.twice.insub", "cte.selector", "derived", "derived.where",
	"subq.nested", "subq.root", "subq.in", "subq.agg", "exists", "exists.outer", "subq.root-correlated", "derived.join", "subq.with", "agg.stages", "exists.dual", "inner.agg", "inner.order", "inner.filter", "cte.mixedcase", "exists.outer.marker", "exists.sparse", "subq.in.null-left", "exists.shadow", "exists.outer.marker-is", "cte.named-like-its-table", "cte.nested-with", "cte.nested-with.twice", "cte.union-chain3", "subq.in.qualified-item", "subq.notin", "exists.naming.table-qualified", "exists.naming.alias", "exists.naming.alias-unqualified", "cte.chain-named-like-tables", "exists.shadow.aliased", "exists.outer.alias-path", "exists.outer.table-qualified", "derived.order-ties", "exists.shadow.ragged", "exists.outer.alias-bare-nested", "subq.grouped-having-alias"}

func init() {
	fw.Register(&fw.Prop{
		ID:    "C07",
		Title: "CTEs, derived tables and subqueries equal staged evaluation",
		Level: "exploration",
		Rule: "with an aliased outer table the row's nested table named without the alias. derived tables whose ORDER BY shows through ties of the outer ORDER BY; ragged nested rows under an alias in EXISTS. chains of CTEs that all carry names of document tables; EXISTS with the outer row named through its alias (also as the path to the nested table) or its table's own name, and a same-named element column under an alias. nested WITH scopes (also reading an outer CTE twice); union chains of 3..4 branches over a CTE; IN / NOT IN subqueries with bare, qualified and aliased items; EXISTS over dual; the nested table's columns named by its own name, by an alias, or without the alias inside EXISTS. EXISTS: elements of one array may have different key sets (IS [NOT] NULL on the sparse key), a nested column may be named like an outer column (the name means the element's), the marker also under IS [NOT] NULL; IN (subquery) with a NULL left operand. CTE names are drawn in lower, mixed and upper case; EXISTS predicates name outer columns bare or through the `<-` marker (with a same-named decoy at the root). each case = a document x a pipeline. CTE / derived-table pipelines (chains of 1..3 CTEs, a CTE referenced twice through a join, a UNION ALL or an IN-subquery, a CTE read through a selector `c.col`, aliased derived tables with q.-qualified outer columns) are executed composed and staged: " +
			"the inner query is run alone by the real engine, its result is deep-copied into a fresh copy of the document under the CTE/derived name, and the outer query is run over that plain data; the two results must be equal (sequence; multiset for joins). " +
			"Row-scoped subqueries (select-list subquery over a nested array, over `<-table`, IN (subquery), aggregate subquery) must contribute, for every row, exactly what the subquery returns standalone on a deep copy of that row (or of the enclosing document after `<-`). " +
			"EXISTS is judged by the reference predicate evaluator: true iff some element of the row's nested array satisfies p(element, outer row). Non-trivial = the outer result has >= 2 rows (pipelines) / at least one row with a non-empty and one with an empty contribution (subqueries) / EXISTS true for some rows and false for others; distinct = distinct (document, SQL).",
		Assumptions: []string{
			"inner queries are order-deterministic (ORDER BY gets rid as last key); inner/outer column names are disjoint for EXISTS",
			"nil and [] both count as an empty array",
		},
		Floor:         c07Floor,
		MinNontrivial: 50,
		Phases: []fw.Phase{
			{Name: "staged", N: func(t fw.Tier) int { return pick(t, 8000, 200000) }, Run: c07Run},
		},
		Witness: sqlWitness,
	})
}

// tableFromRows infers a gen.Table (columns of one non-NULL scalar kind) from
// materialised result rows, so that outer predicates can be generated over it.
func tableFromRows(name string, rows []any) *gen.Table {
	t := &gen.Table{Name: name, Pools: map[string][]any{}}
	kinds := map[string]string{}
	for _, r := range rows {
		m, ok := r.(map[string]any)
		if !ok {
			return t
		}
		t.Rows = append(t.Rows, m)
	}
	if len(t.Rows) == 0 {
		return t
	}
	for k := range t.Rows[0] {
		kinds[k] = ""
	}
	for _, m := range t.Rows {
		for k := range kinds {
			v, ok := m[k]
			var kind string
			switch {
			case !ok || v == nil:
				kind = "bad"
			case val.IsNumber(v):
				kind = "num"
			default:
				switch v.(type) {
				case string:
					kind = "str"
				case bool:
					kind = "bool"
				default:
					kind = "bad"
				}
			}
			if kinds[k] == "" {
				kinds[k] = kind
			} else if kinds[k] != kind {
				kinds[k] = "bad"
			}
		}
	}
	for _, k := range keysOfAny(kinds) {
		var kind gen.Kind
		switch kinds[k] {
		case "num":
			kind = gen.KNum
		case "str":
			kind = gen.KStr
		case "bool":
			kind = gen.KBool
		default:
			continue
		}
		t.Cols = append(t.Cols, gen.Col{Name: k, Kind: kind})
		seen := map[string]bool{}
		for _, m := range t.Rows {
			v := m[k]
			if kind == gen.KNum {
				f, _ := val.Rat(v).Float64()
				v = f
			}
			if ck := val.Canon(v); !seen[ck] && len(t.Pools[k]) < 6 {
				seen[ck] = true
				t.Pools[k] = append(t.Pools[k], v)
			}
		}
	}
	return t
}

func keysOfAny(m map[string]string) []string {
	out := make([]string, 0, len(m))
	for k := range m {
		out = append(out, k)
	}
	sortStrings(out)
	return out
}

func sortStrings(s []string) {
	for i := 1; i < len(s); i++ {
		for j := i; j > 0 && s[j] < s[j-1]; j-- {
			s[j], s[j-1] = s[j-1], s[j]
		}
	}
}

// c07Doc: base table t1 with nested arrays, plus a second table u1.
func c07Doc(c *fw.Case) (map[string]any, *gen.Table, *gen.Table) {
	t := gen.RandTable(c.R, gen.TableSpec{Name: "t1", MaxRows: pick(c.Tier, 8, 20), NumCols: 2, StrCols: 1, BoolCols: 1, StrStyle: gen.Plain})
	for _, row := range t.Rows {
		n := c.Intn(4)
		arr := make([]any, n)
		for i := range arr {
			arr[i] = map[string]any{"e": float64(c.Intn(7)), "f": gen.Pick(c.R, []any{"p", "q", "r"})}
		}
		row["arr"] = arr
		row["obj"] = map[string]any{"k": float64(c.Intn(5)), "w": gen.Pick(c.R, []any{"p", "q"})}
	}
	u := gen.RandTable(c.R, gen.TableSpec{Name: "u1", MaxRows: 5, NumCols: 1, StrCols: 1, StrStyle: gen.Plain, ColPrefix: "u"})
	for _, row := range u.Rows {
		if c.Chance(0.7) && len(t.Pools["n1"]) > 0 {
			row["un1"] = gen.Pick(c.R, t.Pools["n1"])
		}
	}
	return DocOf(t, u), t, u
}

// c07Simple generates a deterministic filter/projection/aggregate/order query
// over a (materialised) table; qual is the alias prefix for column references.
func c07Simple(c *fw.Case, from string, t *gen.Table, qual string, allowAgg bool, feats *[]string, role string) string {
	ro := gen.RenderOpts{Qualifier: qual}
	pg := &gen.PredGen{R: c.R, T: t, MaxDepth: 2, Disable: map[string]bool{"in.subquery": true, "isnull": true, "isnotnull": true}}
	if len(t.ColsOf(gen.KBool)) == 0 {
		pg.Disable["istrue"], pg.Disable["isfalse"], pg.Disable["booleq"] = true, true, true
	}
	scal := t.ColsOf(gen.KNum, gen.KStr)
	where := ""
	if len(scal) > 0 && c.Chance(0.6) {
		where = " WHERE " + gen.RenderPred(pg.Gen(), ro)
		*feats = append(*feats, role+".filter")
	}
	alias := ""
	if qual != "" {
		alias = " " + qual
	}
	nums := t.ColsOf(gen.KNum)
	if allowAgg && len(scal) > 0 && len(nums) > 0 && c.Chance(0.3) {
		g := gen.Pick(c.R, scal).Name
		v := gen.Pick(c.R, nums).Name
		*feats = append(*feats, role+".agg")
		return fmt.Sprintf("SELECT %s, COUNT(*) AS cnt, SUM(%s) AS sm FROM %s%s%s GROUP BY %s", ro.Col(g), ro.Col(v), from, alias, where, ro.Col(g))
	}
	// projection: a subset of the columns, always keeping every column so that
	// later stages have something to work with when role == inner
	var items []string
	for _, col := range t.Cols {
		if role == "inner" || c.Chance(0.7) {
			items = append(items, ro.Col(col.Name))
		}
	}
	if len(nums) > 0 && c.Chance(0.4) {
		items = append(items, "("+ro.Col(gen.Pick(c.R, nums).Name)+" + 1) AS e1")
	}
	if len(items) == 0 {
		if len(t.Cols) > 0 {
			items = append(items, ro.Col(t.Cols[0].Name))
		} else {
			items = append(items, "*")
		}
	}
	sql := "SELECT " + strings.Join(items, ", ") + " FROM " + from + alias + where
	if len(scal) > 0 && c.Chance(0.3) && qual == "" {
		k := gen.Pick(c.R, scal).Name
		dir := gen.Pick(c.R, []string{"ASC", "DESC"})
		if hasCol(t, "rid") {
			sql += fmt.Sprintf(" ORDER BY %s %s, rid ASC", k, dir)
		} else {
			sql += fmt.Sprintf(" ORDER BY %s %s", k, dir)
		}
		*feats = append(*feats, role+".order")
		if c.Chance(0.4) {
			sql += fmt.Sprintf(" LIMIT %d", 1+c.Intn(4))
		}
	}
	return sql
}

func hasCol(t *gen.Table, name string) bool {
	for _, c := range t.Cols {
		if c.Name == name {
			return true
		}
	}
	return false
}

func c07Run(c *fw.Case) {
	kind := c07Floor[c.Idx%20] // the first 20 entries are pipeline kinds
	if c.Idx >= 3*20 {
		kind = c07Floor[c.Intn(20)]
	}
	doc, t, u := c07Doc(c)
	feats := []string{kind}
	defer func() { c.Feature(feats...) }()
	fresh := func() map[string]any { return val.CopyMap(doc) }
	stage := func(d map[string]any, sql string) ([]any, bool) {
		o := Run(d, sql)
		c.Evals(1)
		if !o.OK() {
			// a staged query failing is not a C07 matter unless the composed one succeeds; skip
			c.Discard("staged query failed: " + fmt.Sprint(o.Describe()) + " :: " + sql)
			return nil, false
		}
		return o.Rows, true
	}
	compare := func(sqlComposed string, composedDoc map[string]any, want []any, multiset bool, stagedDesc any) {
		o := Run(composedDoc, sqlComposed)
		c.Evals(1)
		c.Sample(map[string]any{"composed": sqlComposed, "staged": stagedDesc, "rows": len(want)})
		det := map[string]any{"sql": sqlComposed, "doc": doc, "staged": stagedDesc, "expected": val.Show(want), "observed": o.Describe()}
		if !o.OK() {
			c.Violate("error", fmt.Sprintf("composed query failed although the staged evaluation succeeds: %v", o.Describe()), det)
			return
		}
		same := val.SameSeq(o.Rows, want)
		if multiset {
			same = val.SameMultiset(o.Rows, want)
		}
		if len(o.Rows) == 0 && len(want) == 0 {
			same = true
		}
		if !same {
			c.Violate("composed-differs", fmt.Sprintf("composed result differs from staged evaluation: got %s want %s", short(val.Canon(o.Rows), 300), short(val.Canon(want), 300)), det)
			return
		}
		if len(want) >= 2 {
			c.Nontrivial(sqlComposed + "|" + val.Canon(doc))
		}
	}

	switch kind {
	case "cte.1", "cte.chain2", "cte.chain3", "cte.twice.join", "cte.twice.union", "cte.twice.insub", "cte.selector":
		n := 1
		if kind == "cte.chain2" {
			n = 2
		}
		if kind == "cte.chain3" {
			n = 3
		}
		staged := fresh()
		var withParts []string
		cur := t
		from := "t1"
		var stagedSQL []string
		// the name of an intermediate result does not matter: lower-case, mixed-case, upper-case
		nameFmt := gen.Pick(c.R, []string{"c%d", "c%d", "Big%d", "topC%d", "CT%d", "t%d", "t%d"})
		switch nameFmt {
		case "c%d":
		case "t%d":
			// the first CTE is named like the table it reads (WITH t1 AS (SELECT ... FROM t1 ...))
			feats = append(feats, "cte.named-like-its-table")
			if n >= 2 {
				// ... and so are the later ones: the document has tables t2 and t3 of its own
				doc["t2"] = []any{map[string]any{"rid": -1.0, "n1": -7.0, "s1": "decoy", "arr": []any{}, "obj": map[string]any{"k": -1.0, "w": "d"}}, map[string]any{"rid": -2.0, "n1": -8.0, "s1": "decoy"}}
				doc["t3"] = []any{map[string]any{"rid": -3.0, "n1": -9.0, "s1": "decoy3"}}
				staged = fresh()
				feats = append(feats, "cte.chain-named-like-tables")
			}
		default:
			feats = append(feats, "cte.mixedcase")
		}
		for i := 1; i <= n; i++ {
			name := fmt.Sprintf(nameFmt, i)
			var inner string
			if kind == "cte.selector" {
				inner = "SELECT rid, n1, arr, obj FROM t1"
				if c.Chance(0.5) {
					inner += " WHERE " + gen.RenderPred((&gen.PredGen{R: c.R, T: t, MaxDepth: 1, Disable: map[string]bool{"in.subquery": true, "isnull": true, "isnotnull": true}}).Gen(), gen.RenderOpts{})
				}
			} else if c.Chance(0.3) {
				// the body opens a WITH of its own (a scope inside the scope)
				wname := fmt.Sprintf("w%d", i)
				wsrc := "SELECT * FROM " + from
				if c.Chance(0.4) {
					// the inner scope reads the outer name twice
					wsrc += " UNION ALL SELECT * FROM " + from
					feats = append(feats, "cte.nested-with.twice")
				}
				wrows, ok := stage(staged, wsrc)
				if !ok {
					return
				}
				staged = val.CopyMap(staged)
				staged[wname] = val.Copy(wrows)
				body := c07Simple(c, wname, cur, "", i == n || c.Chance(0.3), &feats, "inner")
				rows, ok := stage(staged, body)
				if !ok {
					return
				}
				inner = "WITH " + wname + " AS (" + wsrc + ") " + body
				feats = append(feats, "cte.nested-with")
				stagedSQL = append(stagedSQL, wname+" := "+wsrc)
				staged = val.CopyMap(staged)
				staged[name] = val.Copy(rows)
				withParts = append(withParts, name+" AS ("+inner+")")
				stagedSQL = append(stagedSQL, name+" := "+body)
				cur = tableFromRows(name, rows)
				from = name
				continue
			} else {
				inner = c07Simple(c, from, cur, "", i == n || c.Chance(0.3), &feats, "inner")
			}
			rows, ok := stage(staged, inner)
			if !ok {
				return
			}
			staged = val.CopyMap(staged)
			staged[name] = val.Copy(rows)
			withParts = append(withParts, name+" AS ("+inner+")")
			stagedSQL = append(stagedSQL, name+" := "+inner)
			cur = tableFromRows(name, rows)
			from = name
		}
		with := "WITH " + strings.Join(withParts, ", ") + " "
		last := from
		var outer string
		multiset := false
		switch kind {
		case "cte.twice.join":
			nums := cur.ColsOf(gen.KNum, gen.KStr)
			if len(nums) == 0 {
				c.Discard("no join column")
				return
			}
			k := gen.Pick(c.R, nums).Name
			outer = fmt.Sprintf("SELECT * FROM %s x JOIN %s y ON x.%s = y.%s", last, last, k, k)
			multiset = true
		case "cte.twice.union":
			if len(cur.Cols) == 0 {
				c.Discard("no column")
				return
			}
			k := cur.Cols[0].Name
			outer = fmt.Sprintf("SELECT %s FROM %s UNION ALL SELECT %s FROM %s", k, last, k, last)
			// chains of three and four branches, every branch reading the CTE
			for extra := c.Intn(3); extra > 0; extra-- {
				outer += fmt.Sprintf(" %s SELECT %s FROM %s", gen.Pick(c.R, []string{"UNION ALL", "UNION ALL", "UNION"}), k, last)
				feats = append(feats, "cte.union-chain3")
			}
		case "cte.twice.insub":
			sc := cur.ColsOf(gen.KNum, gen.KStr)
			if len(sc) == 0 {
				c.Discard("no scalar column")
				return
			}
			k := gen.Pick(c.R, sc).Name
			outer = fmt.Sprintf("SELECT * FROM %s WHERE %s IN (SELECT %s FROM `<-%s`)", last, k, k, last)
		case "cte.selector":
			if c.Chance(0.5) {
				outer = "SELECT k, w FROM `" + last + ".obj`"
				if c.Chance(0.5) {
					outer += " WHERE k > 1"
				}
			} else {
				outer = "SELECT e FROM `mix=>" + last + ".arr`"
				if c.Chance(0.5) {
					outer += " WHERE e > 2"
				}
			}
		default:
			outer = c07Simple(c, last, cur, "", true, &feats, "outer")
		}
		want, ok := stage(staged, outer)
		if !ok {
			return
		}
		compare(with+outer, fresh(), want, multiset, map[string]any{"stages": stagedSQL, "outer": outer})

	case "derived", "derived.where":
		inner := c07Simple(c, "t1", t, "", true, &feats, "inner")
		rows, ok := stage(fresh(), inner)
		if !ok {
			return
		}
		staged := fresh()
		staged["dt"] = val.Copy(rows)
		cur := tableFromRows("dt", rows)
		if len(cur.Cols) == 0 && len(rows) > 0 {
			c.Discard("no usable column")
			return
		}
		var fs []string
		outerTail := c07Simple(c, "@FROM@", cur, "q", false, &fs, "outer")
		if kind == "derived" && c.Chance(0.3) {
			// both stages sort; the outer key ties, so the inner order shows
			// through it exactly as it does over the materialised rows
			inner = "SELECT rid, s1, n1 FROM t1 ORDER BY n1 " + gen.Pick(c.R, []string{"DESC", "ASC"}) + ", rid DESC"
			rows, ok = stage(fresh(), inner)
			if !ok {
				return
			}
			staged["dt"] = val.Copy(rows)
			outerTail = "SELECT q.rid, q.s1 FROM @FROM@ q ORDER BY q.s1" + gen.Pick(c.R, []string{"", " DESC"})
			feats = append(feats, "derived.order-ties")
		}
		if kind == "derived.where" && !strings.Contains(outerTail, "WHERE") {
			sc := cur.ColsOf(gen.KNum, gen.KStr)
			if len(sc) == 0 {
				c.Discard("no scalar column for WHERE")
				return
			}
			col := gen.Pick(c.R, sc)
			outerTail += " WHERE q." + col.Name + " >= " + gen.SQLLit(gen.Pick(c.R, cur.Pools[col.Name]), 0)
		}
		composed := strings.Replace(outerTail, "@FROM@ q", "("+inner+") q", 1)
		stagedOuter := strings.Replace(outerTail, "@FROM@ q", "dt q", 1)
		want, ok := stage(staged, stagedOuter)
		if !ok {
			return
		}
		compare(composed, fresh(), want, false, map[string]any{"inner": inner, "outer": stagedOuter})

	case "subq.with":
		// a row-scoped subquery that carries its own WITH: evaluated per row
		sub := "WITH c AS (SELECT e, f FROM arr) SELECT e FROM c"
		if c.Chance(0.6) {
			sub += fmt.Sprintf(" WHERE e %s %d", gen.Pick(c.R, []string{">", "<", ">=", "!="}), c.Intn(6))
		}
		if c.Chance(0.3) {
			sub = "WITH c AS (SELECT e FROM arr WHERE e >= 1), d AS (SELECT COUNT(*) AS n FROM c) SELECT n FROM d"
		}
		composed := "SELECT rid, (" + sub + ") AS sub FROM t1"
		inForm := c.Chance(0.25)
		if inForm {
			composed = "SELECT rid FROM t1 WHERE n1 IN (WITH c AS (SELECT e FROM arr) SELECT e FROM c)"
			sub = "WITH c AS (SELECT e FROM arr) SELECT e FROM c"
		}
		o := Run(fresh(), composed)
		c.Evals(1)
		c.Sample(map[string]any{"composed": composed})
		det := map[string]any{"sql": composed, "doc": doc, "observed": o.Describe()}
		if !o.OK() {
			c.Violate("error", fmt.Sprintf("subquery with its own WITH failed: %v", o.Describe()), det)
			return
		}
		var wantIDs []any
		distinct := map[string]bool{}
		for i, row := range t.Rows {
			so := Run(val.CopyMap(row), sub)
			c.Evals(1)
			if !so.OK() {
				c.Discard("standalone failed")
				return
			}
			distinct[val.Canon(so.Rows)] = true
			if inForm {
				for _, r := range so.Rows {
					if val.Equal(r.(map[string]any)["e"], row["n1"]) {
						wantIDs = append(wantIDs, row["rid"])
						break
					}
				}
				continue
			}
			got, _ := o.Rows[i].(map[string]any)
			var ga []any
			switch x := got["sub"].(type) {
			case []any:
				ga = x
			case nil:
			default:
				ga = []any{x}
			}
			if !(len(ga) == 0 && len(so.Rows) == 0) && !val.SameSeq(ga, so.Rows) {
				det["row"] = row
				det["standalone_result"] = val.Show(so.Rows)
				c.Violate("subquery-differs", fmt.Sprintf("row %d: subquery with its own WITH contributed %s, standalone on that row returns %s", i, short(val.Canon(got["sub"]), 200), short(val.Canon(so.Rows), 200)), det)
				return
			}
		}
		if inForm && !val.SameSeq(Rids(o.Rows), wantIDs) {
			det["expected_rids"] = wantIDs
			c.Violate("in-subquery", fmt.Sprintf("IN (WITH … subquery) kept rids %v, row-by-row evaluation keeps %v", Rids(o.Rows), wantIDs), det)
			return
		}
		if len(distinct) >= 2 {
			c.Nontrivial(composed + "|" + val.Canon(doc))
		}

	case "agg.stages":
		// the same aggregate text in two stages: the outer one is computed over
		// the materialised inner result, not taken from the inner stage
		agg := gen.Pick(c.R, []string{"COUNT(*)", "SUM(n1)", "MAX(n1)", "MIN(n1)"})
		inner := "SELECT " + agg + " AS n1 FROM t1"
		if c.Chance(0.5) {
			inner = "SELECT n1 FROM t1 WHERE n1 >= " + gen.SQLLit(gen.Pick(c.R, append([]any{0.0}, t.Pools["n1"]...)), 0)
		}
		if c.Chance(0.3) {
			inner = "SELECT s1, " + agg + " AS n1 FROM t1 GROUP BY s1"
		}
		rows, ok := stage(fresh(), inner)
		if !ok {
			return
		}
		staged := fresh()
		staged["c1"] = val.Copy(rows)
		outer := "SELECT " + agg + " AS v FROM c1"
		want, ok := stage(staged, outer)
		if !ok {
			return
		}
		if c.Chance(0.5) {
			compare("WITH c1 AS ("+inner+") "+outer, fresh(), want, false, map[string]any{"inner": inner, "outer": outer})
		} else {
			// derived-table form: the outer aggregate is qualified by the alias on both sides
			qagg := strings.Replace(agg, "(n1)", "(q.n1)", 1)
			want, ok = stage(staged, "SELECT "+qagg+" AS v FROM c1 q")
			if !ok {
				return
			}
			compare("SELECT "+qagg+" AS v FROM ("+inner+") q", fresh(), want, false, map[string]any{"inner": inner, "outer": "SELECT " + qagg + " AS v FROM c1 q"})
		}
		c.Nontrivial(inner + outer + val.Canon(doc))

	case "derived.join":
		// two derived tables joined: must equal the join of the two materialised results
		in1 := "SELECT rid, n1, s1 FROM t1"
		if c.Chance(0.5) {
			in1 += " WHERE n1 >= " + gen.SQLLit(gen.Pick(c.R, append([]any{0.0}, t.Pools["n1"]...)), 0)
		}
		in2 := gen.Pick(c.R, []string{"SELECT un1, us1 FROM u1", "SELECT rid, n1 FROM t1", "SELECT un1 FROM u1 WHERE un1 >= 0"})
		key2 := "un1"
		if strings.Contains(in2, "FROM t1") {
			key2 = "n1"
		}
		jn := gen.Pick(c.R, []string{"JOIN", "LEFT JOIN", "RIGHT JOIN", "HASH_JOIN"})
		on := "x.n1 = y." + key2
		if c.Chance(0.3) {
			on = "x.n1 >= y." + key2
		}
		r1, ok := stage(fresh(), in1)
		if !ok {
			return
		}
		r2, ok := stage(fresh(), in2)
		if !ok {
			return
		}
		staged := fresh()
		staged["dt1"], staged["dt2"] = val.Copy(r1), val.Copy(r2)
		stagedSQL := "SELECT * FROM dt1 x " + jn + " dt2 y ON " + on
		want, ok := stage(staged, stagedSQL)
		if !ok {
			return
		}
		compare("SELECT * FROM ("+in1+") x "+jn+" ("+in2+") y ON "+on, fresh(), want, true, map[string]any{"dt1": in1, "dt2": in2, "outer": stagedSQL})

	case "subq.nested", "subq.root", "subq.agg":
		var sub, standalone string
		switch kind {
		case "subq.nested":
			sub = "SELECT e, f FROM arr"
			if c.Chance(0.7) {
				sub += fmt.Sprintf(" WHERE e %s %d", gen.Pick(c.R, []string{">", "<", "=", "!=", ">="}), c.Intn(7))
			}
			if c.Chance(0.25) {
				// a grouped subquery whose HAVING names an aggregate by its alias - an alias that is also the column it reads
				sub = fmt.Sprintf("SELECT f, SUM(e) AS e, COUNT(*) AS c FROM arr GROUP BY f HAVING e %s %d", gen.Pick(c.R, []string{">", ">=", "<", "!="}), c.Intn(9))
				if c.Chance(0.4) {
					sub += " AND c >= 1"
				}
				feats = append(feats, "subq.grouped-having-alias")
			}
			standalone = sub
		case "subq.agg":
			sub = "SELECT COUNT(*) AS n, SUM(e) AS s FROM arr"
			if c.Chance(0.5) {
				sub += fmt.Sprintf(" WHERE e > %d", c.Intn(6))
			}
			standalone = sub
		default:
			w := ""
			if c.Chance(0.6) && len(u.Pools["un1"]) > 0 {
				w = " WHERE un1 >= " + gen.SQLLit(gen.Pick(c.R, u.Pools["un1"]), 0)
			}
			sub = "SELECT un1, us1 FROM `<-u1`" + w
			standalone = "SELECT un1, us1 FROM u1" + w
		}
		composed := "SELECT rid, (" + sub + ") AS sub FROM t1"
		o := Run(fresh(), composed)
		c.Evals(1)
		det := map[string]any{"sql": composed, "doc": doc, "observed": o.Describe()}
		c.Sample(map[string]any{"composed": composed, "standalone": standalone})
		if !o.OK() {
			c.Violate("error", fmt.Sprintf("query with select-list subquery failed: %v", o.Describe()), det)
			return
		}
		if len(o.Rows) != len(t.Rows) {
			c.Violate("row-count", fmt.Sprintf("%d rows out, %d in", len(o.Rows), len(t.Rows)), det)
			return
		}
		empties, nonEmpties := 0, 0
		for i, row := range t.Rows {
			var sdoc map[string]any
			if kind == "subq.root" {
				sdoc = fresh()
			} else {
				sdoc = val.CopyMap(row)
			}
			so := Run(sdoc, standalone)
			c.Evals(1)
			if !so.OK() {
				c.Discard("standalone subquery failed")
				return
			}
			got, _ := o.Rows[i].(map[string]any)
			gv := got["sub"]
			var ga []any
			switch x := gv.(type) {
			case []any:
				ga = x
			case nil:
			default:
				ga = []any{x}
			}
			if len(so.Rows) == 0 {
				empties++
			} else {
				nonEmpties++
			}
			if !(len(ga) == 0 && len(so.Rows) == 0) && !val.SameSeq(ga, so.Rows) {
				det["row"] = row
				det["standalone_result"] = val.Show(so.Rows)
				c.Violate("subquery-differs", fmt.Sprintf("row %d: subquery contributed %s, standalone returns %s", i, short(val.Canon(gv), 200), short(val.Canon(so.Rows), 200)), det)
				return
			}
		}
		if nonEmpties > 0 && (empties > 0 || kind != "subq.nested") {
			c.Nontrivial(composed + "|" + val.Canon(doc))
		}

	case "subq.root-correlated":
		// rows come from the enclosing document, the predicate reaches back to
		// the current row: the contribution differs from row to row
		op := gen.Pick(c.R, []string{"=", ">=", "<", "!="})
		agg := c.Chance(0.3)
		sel := "un1, us1"
		if agg {
			sel = "COUNT(*) AS n"
		}
		inSub := c.Chance(0.3) && !agg
		var composed string
		if inSub {
			composed = "SELECT rid FROM t1 WHERE n2 IN (SELECT un1 FROM `<-u1` WHERE un1 " + op + " `<-n1`)"
		} else {
			composed = "SELECT rid, (SELECT " + sel + " FROM `<-u1` WHERE un1 " + op + " `<-n1`) AS sub FROM t1"
		}
		o := Run(fresh(), composed)
		c.Evals(1)
		c.Sample(map[string]any{"composed": composed})
		det := map[string]any{"sql": composed, "doc": doc, "observed": o.Describe()}
		if !o.OK() {
			c.Violate("error", fmt.Sprintf("root-sourced row-correlated subquery failed: %v", o.Describe()), det)
			return
		}
		var wantIDs []any
		distinct := map[string]bool{}
		for i, row := range t.Rows {
			standalone := "SELECT " + sel + " FROM u1 WHERE un1 " + op + " " + gen.SQLLit(row["n1"], 0)
			if inSub {
				standalone = "SELECT un1 FROM u1 WHERE un1 " + op + " " + gen.SQLLit(row["n1"], 0)
			}
			so := Run(fresh(), standalone)
			c.Evals(1)
			if !so.OK() {
				c.Discard("standalone failed")
				return
			}
			distinct[val.Canon(so.Rows)] = true
			if inSub {
				for _, r := range so.Rows {
					if val.Equal(r.(map[string]any)["un1"], row["n2"]) {
						wantIDs = append(wantIDs, row["rid"])
						break
					}
				}
				continue
			}
			if i >= len(o.Rows) {
				c.Violate("row-count", "fewer rows out than in", det)
				return
			}
			got, _ := o.Rows[i].(map[string]any)
			var ga []any
			switch x := got["sub"].(type) {
			case []any:
				ga = x
			case nil:
			default:
				ga = []any{x}
			}
			if !(len(ga) == 0 && len(so.Rows) == 0) && !val.SameSeq(ga, so.Rows) {
				det["row"] = row
				det["standalone"] = standalone
				det["standalone_result"] = val.Show(so.Rows)
				c.Violate("subquery-differs", fmt.Sprintf("row %d: subquery contributed %s, standalone on that row returns %s", i, short(val.Canon(got["sub"]), 200), short(val.Canon(so.Rows), 200)), det)
				return
			}
		}
		if inSub && !val.SameSeq(Rids(o.Rows), wantIDs) {
			det["expected_rids"] = wantIDs
			c.Violate("in-subquery", fmt.Sprintf("IN (root-sourced, row-correlated subquery) kept rids %v, row-by-row evaluation keeps %v", Rids(o.Rows), wantIDs), det)
			return
		}
		if len(distinct) >= 2 {
			c.Nontrivial(composed + "|" + val.Canon(doc))
		}

	case "subq.in":
		if c.Chance(0.3) {
			// a NULL (missing) left operand is a member of no list of non-NULL values
			for _, row := range t.Rows {
				if c.Chance(0.4) {
					delete(row, "n1")
				}
			}
			doc = DocOf(t, u)
			feats = append(feats, "subq.in.null-left")
		}
		nullLeft := containsStr(feats, "subq.in.null-left")
		// the subquery's one item may be spelled bare, qualified by the
		// subquery's table alias, or qualified and aliased
		spell := c.Intn(3)
		item := func(col, alias string) (string, string) {
			switch spell {
			case 1:
				feats = append(feats, "subq.in.qualified-item")
				return alias + "." + col, " " + alias
			case 2:
				feats = append(feats, "subq.in.qualified-item")
				return alias + "." + col + " AS " + col, " " + alias
			}
			return col, ""
		}
		neg := !nullLeft && c.Chance(0.3)
		in := " IN "
		if neg {
			in = " NOT IN "
			feats = append(feats, "subq.notin")
		}
		it, al := item("e", "a")
		composed := "SELECT rid FROM t1 WHERE n1" + in + "(SELECT " + it + " FROM arr" + al + ")"
		standalone := "SELECT " + it + " FROM arr" + al
		if c.Chance(0.5) {
			it, al = item("un1", "w")
			composed = "SELECT rid FROM t1 WHERE n1" + in + "(SELECT " + it + " FROM `<-u1`" + al + ")"
			standalone = ""
		}
		o := Run(fresh(), composed)
		c.Evals(1)
		c.Sample(map[string]any{"composed": composed})
		det := map[string]any{"sql": composed, "doc": doc, "observed": o.Describe()}
		if !o.OK() {
			c.Violate("error", fmt.Sprintf("IN (subquery) failed: %v", o.Describe()), det)
			return
		}
		var want []any
		for _, row := range t.Rows {
			var vals []any
			if standalone != "" {
				so := Run(val.CopyMap(row), standalone)
				if !so.OK() {
					c.Discard("standalone failed")
					return
				}
				for _, r := range so.Rows {
					vals = append(vals, r.(map[string]any)["e"])
				}
			} else {
				for _, ur := range u.Rows {
					vals = append(vals, ur["un1"])
				}
			}
			member := false
			for _, v := range vals {
				if val.Equal(v, row["n1"]) {
					member = true
					break
				}
			}
			if member != neg {
				want = append(want, row["rid"])
			}
		}
		det["expected_rids"] = want
		if !val.SameSeq(Rids(o.Rows), want) {
			c.Violate("in-subquery", fmt.Sprintf("IN (subquery) kept rids %v, row-by-row evaluation keeps %v", Rids(o.Rows), want), det)
			return
		}
		if len(want) > 0 && len(want) < len(t.Rows) {
			c.Nontrivial(composed + "|" + val.Canon(doc))
		}

	case "exists.dual":
		// EXISTS over the one-row source dual: true exactly when the outer row
		// satisfies the subquery's WHERE (the outer row's columns are visible)
		pg := &gen.PredGen{R: c.R, T: t, MaxDepth: 2, Disable: map[string]bool{"in.subquery": true}}
		p := pg.Gen()
		neg := c.Chance(0.3)
		sub := "SELECT 1 AS one FROM dual WHERE " + gen.RenderPred(p, gen.RenderOpts{})
		composed := "SELECT rid FROM t1 WHERE " + map[bool]string{true: "NOT ", false: ""}[neg] + "EXISTS (" + sub + ")"
		var want []any
		for _, row := range t.Rows {
			so := Run(val.CopyMap(row), sub)
			c.Evals(1)
			if !so.OK() {
				c.Discard("standalone failed")
				return
			}
			if (len(so.Rows) > 0) != neg {
				want = append(want, row["rid"])
			}
		}
		o := Run(fresh(), composed)
		c.Evals(1)
		c.Sample(map[string]any{"composed": composed})
		det := map[string]any{"sql": composed, "doc": doc, "observed": o.Describe(), "expected_rids": want}
		if !o.OK() {
			c.Violate("error", fmt.Sprintf("EXISTS over dual failed: %v", o.Describe()), det)
			return
		}
		if !val.SameSeq(Rids(o.Rows), want) {
			c.Violate("exists", fmt.Sprintf("EXISTS over dual kept rids %v, the subquery run on each row alone keeps %v", Rids(o.Rows), want), det)
			return
		}
		if len(want) > 0 && len(want) < len(t.Rows) {
			c.Nontrivial(composed + "|" + val.Canon(doc))
		}

	case "exists", "exists.outer":
		// predicate over inner columns e (num), f (str) and, for exists.outer, outer n1/s1
		inner := &gen.Table{Name: "arr", Cols: []gen.Col{{Name: "e", Kind: gen.KNum}, {Name: "f", Kind: gen.KStr}},
			Pools: map[string][]any{"e": {0.0, 2.0, 3.0, 5.0}, "f": {"p", "q", "r"}}}
		pg := &gen.PredGen{R: c.R, T: inner, MaxDepth: 2, Disable: map[string]bool{"in.subquery": true, "isnull": true, "isnotnull": true, "istrue": true, "isfalse": true, "booleq": true}}
		p := pg.Gen()
		if kind == "exists" && c.Chance(0.35) {
			// elements of one array with different key sets: p is judged on
			// each element alone, a key one element lacks is NULL for it
			for _, row := range t.Rows {
				for _, el := range row["arr"].([]any) {
					if c.Chance(0.5) {
						delete(el.(map[string]any), "f")
					}
				}
			}
			doc = DocOf(t, u)
			k := gen.NumLit{V: float64(c.Intn(6))}
			_ = k
			cmpE := gen.Cmp{L: gen.Operand{Col: "e", IsCol: true}, R: gen.Operand{Lit: float64(c.Intn(6))}, Op: gen.Pick(c.R, []string{">", ">=", "=", "<", "!="})}
			fNull := gen.IsNull{Col: "f", Neg: c.Chance(0.4)}
			switch c.Intn(4) {
			case 0:
				p = fNull
			case 1:
				p = gen.And{A: cmpE, B: fNull}
			case 2:
				p = gen.Or{A: fNull, B: cmpE}
			default:
				p = gen.And{A: gen.Not{A: gen.IsNull{Col: "f", Neg: !fNull.Neg}}, B: cmpE}
			}
			feats = append(feats, "exists.sparse")
		}
		if kind == "exists.outer" {
			op := gen.Pick(c.R, []string{"=", "<", ">", "<=", ">=", "!="})
			outerCmp := gen.Cmp{L: gen.Operand{Col: "e", IsCol: true}, R: gen.Operand{Col: "n1", IsCol: true}, Op: op}
			if c.Chance(0.5) {
				p = gen.And{A: p, B: outerCmp}
			} else {
				p = gen.Or{A: outerCmp, B: p}
			}
		}
		if c.Chance(0.3) && !containsStr(feats, "exists.sparse") {
			// a column of the nested elements named like a column of the outer
			// row: inside p the name means the element's
			ragged := c.Chance(0.5)
			for _, row := range t.Rows {
				for _, el := range row["arr"].([]any) {
					if ragged && c.Chance(0.4) {
						continue // this element has no such column: the name means the outer row's here
					}
					el.(map[string]any)["s1"] = gen.Pick(c.R, []any{"p", "q", "zz"})
				}
			}
			if ragged {
				feats = append(feats, "exists.shadow.ragged")
			}
			doc = DocOf(t, u)
			shadow := gen.Cmp{L: gen.Operand{Col: "s1", IsCol: true}, R: gen.Operand{Lit: gen.Pick(c.R, []any{"p", "q"})}, Op: gen.Pick(c.R, []string{"=", "!="})}
			if c.Chance(0.5) {
				p = gen.And{A: p, B: shadow}
			} else {
				p = shadow
			}
			feats = append(feats, "exists.shadow")
		}
		neg := c.Chance(0.25)
		selFrom := "SELECT rid FROM t1 WHERE "
		ro := gen.RenderOpts{}
		if kind == "exists.outer" && c.Chance(0.5) {
			// the outer column mentioned through the marker; the root document
			// carries a decoy of the same name with a value no row has
			ro.ColText = map[string]string{"n1": gen.Pick(c.R, []string{"`<-n1`", "`<-.n1`"})}
			doc["n1"] = 987654.0
			feats = append(feats, "exists.outer.marker")
			if c.Chance(0.5) {
				// the marker under IS [NOT] NULL: an outer column that some rows lack
				for _, row := range t.Rows {
					if c.Chance(0.4) {
						delete(row, "n2")
					}
				}
				doc = DocOf(t, u)
				doc["n1"], doc["n2"] = 987654.0, 5.0
				ro.ColText["n2"] = gen.Pick(c.R, []string{"`<-n2`", "`<-.n2`"})
				p = gen.And{A: p, B: gen.IsNull{Col: "n2", Neg: c.Chance(0.5)}}
				feats = append(feats, "exists.outer.marker-is")
			}
		}
		// the nested table's columns named with the table's own name, with an
		// alias of the nested table, or without that alias
		fromArr := "arr"
		if !containsStr(feats, "exists.shadow") {
			if ro.ColText == nil {
				ro.ColText = map[string]string{}
			}
			switch c.Intn(7) {
			case 0:
				ro.ColText["e"], ro.ColText["f"] = "arr.e", "arr.f"
				feats = append(feats, "exists.naming.table-qualified")
			case 1:
				fromArr = "arr a"
				ro.ColText["e"], ro.ColText["f"] = "a.e", "a.f"
				feats = append(feats, "exists.naming.alias")
			case 2:
				fromArr = "arr a"
				feats = append(feats, "exists.naming.alias-unqualified")
			}
		}
		if containsStr(feats, "exists.shadow") && (c.Chance(0.4) || containsStr(feats, "exists.shadow.ragged") && c.Chance(0.6)) {
			// under an alias of the nested table the bare name still means the element's column
			fromArr = "arr a"
			feats = append(feats, "exists.shadow.aliased")
		}
		if kind == "exists.outer" && !containsStr(feats, "exists.outer.marker") && !containsStr(feats, "exists.shadow") && fromArr == "arr" && ro.ColText["e"] == "" {
			// how the outer row's column is named: through the outer table's
			// alias (which also leads to the nested table), or with the outer
			// table's own name
			switch c.Intn(3) {
			case 0:
				selFrom, fromArr = "SELECT x.rid FROM t1 x WHERE ", "x.arr"
				ro.ColText["n1"] = "x.n1"
				feats = append(feats, "exists.outer.alias-path")
				if c.Chance(0.5) {
					// ... or the nested table named as it is without the alias
					fromArr = "arr"
					feats = append(feats, "exists.outer.alias-bare-nested")
				}
			case 1:
				ro.ColText["n1"] = "t1.n1"
				feats = append(feats, "exists.outer.table-qualified")
			}
		}
		composed := selFrom
		if neg {
			composed += "NOT "
		}
		composed += "EXISTS (SELECT e FROM " + fromArr + " WHERE " + gen.RenderPred(p, ro) + ")"
		var want []any
		trues := 0
		for _, row := range t.Rows {
			ex := false
			for _, el := range row["arr"].([]any) {
				env := map[string]any{}
				for k, v := range row {
					env[k] = v
				}
				for k, v := range el.(map[string]any) {
					env[k] = v
				}
				ok, err := ref.EvalPred(p, ref.Env{Row: env})
				if err != nil {
					c.Discard("reference: " + err.Error())
					return
				}
				if ok {
					ex = true
				}
			}
			if ex {
				trues++
			}
			if ex != neg {
				want = append(want, row["rid"])
			}
		}
		o := Run(fresh(), composed)
		c.Evals(1)
		c.Sample(map[string]any{"composed": composed, "expected_rids": want})
		det := map[string]any{"sql": composed, "doc": doc, "observed": o.Describe(), "expected_rids": want}
		if !o.OK() {
			c.Violate("error", fmt.Sprintf("EXISTS query failed: %v", o.Describe()), det)
			return
		}
		if !val.SameSeq(Rids(o.Rows), want) {
			c.Violate("exists", fmt.Sprintf("EXISTS kept rids %v, reference keeps %v", Rids(o.Rows), want), det)
			return
		}
		if trues > 0 && trues < len(t.Rows) {
			c.Nontrivial(composed + "|" + val.Canon(doc))
		}
	}
}
