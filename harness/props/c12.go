package props

import (
	"fmt"
	"math"
	"sort"
	"strings"

	"github.com/vedadiyan/genql"

	"verifharness/internal/fw"
	"verifharness/internal/gen"
	"verifharness/internal/val"
)

var c12Forms = []struct{ name, sql string }{
	{"col", "n1"}, {"col.missing", "nokey"}, {"path", "`obj.k`"}, {"path.array", "`arr[each].e`"}, {"lit.num", "3"}, {"lit.str", "'x'"}, {"lit.null", "NULL"}, {"lit.bool", "true"},
	{"arith", "(n1 + 1)"}, {"arith.nested", "((n1 * 2) - (n2 / 4))"}, {"arith.null", "(z1 + 1)"}, {"arith.divzero", "(n1 / 0)"}, {"arith.modzero", "(n1 % (n2 - n2))"}, {"arith.intdivzero", "(rid DIV (n1 - n1))"}, {"arith.zerozero", "((n1 - n1) / (n2 - n2))"}, {"unary.minus", "-(n1)"}, {"unary.tilde", "~(rid)"}, {"unary.bang", "!(b1 = true)"},
	{"cmp", "(n1 > 1)"}, {"in", "(n1 IN (1, 2, 3))"}, {"between", "(n1 BETWEEN 0 AND 3)"}, {"like", "(s1 LIKE 'a%')"}, {"is", "(b1 IS TRUE)"}, {"isnull", "(z1 IS NULL)"}, {"not", "(NOT (b1 = true))"}, {"andor", "(n1 > 0 AND (b1 = true OR n2 < 1))"},
	{"case.col", "CASE WHEN b1 = true THEN s1 ELSE 'z' END"}, {"case.lit", "CASE WHEN n1 > 1 THEN 'big' END"}, {"case.arith", "CASE WHEN n1 > 1 THEN (n1 * 2) ELSE (n2 - 1) END"},
	{"case.nested", "CASE WHEN n1 > 1 THEN CASE WHEN b1 = true THEN n2 ELSE s1 END ELSE NULL END"},
	{"if", "IF(b1, n1, s1)"}, {"if.arith", "IF(n1 > 1, (n1 + 1), -(n2))"}, {"array", "ARRAY(n1, 'a', NULL, (n2 + 1))"}, {"array.nested", "ARRAY(ARRAY(n1), ARRAY())"}, {"concat", "CONCAT(s1, 'x', n1)"},
	{"first", "FIRST(arr)"}, {"last", "LAST(arr)"}, {"elementat", "ELEMENTAT(ARRAY(n1, s1), 1)"}, {"unwind", "UNWIND(ARRAY(arr, ARRAY(n1)))"}, {"changetype", "CHANGETYPE(n1, 'string')"}, {"changetype.int", "CHANGETYPE('12', 'integer')"},
	{"upper", "TO_UPPER(s1)"}, {"hash", "HASH(s1, 'sha1')"}, {"encode", "ENCODE(n1, 'hex')"}, {"decode", "DECODE(ENCODE(s1, 'base64'), 'base64')"}, {"daterange", "DATERANGE('2020-01-01', s1)"}, {"constant", "CONSTANT('c1')"},
	{"getvar", "GETVAR('k')"}, {"getvar.unset", "GETVAR('never')"}, {"subquery", "(SELECT e, f FROM arr WHERE e > 1)"}, {"subquery.root", "(SELECT un1 FROM `<-u1`)"}, {"subquery.agg", "(SELECT COUNT(*) AS n, SUM(e) AS s FROM arr)"},
	{"exists", "EXISTS (SELECT e FROM arr WHERE e > 1)"}, {"tuple", "('a', 'b', n1, 2)"}, {"tuple.nested", "ARRAY(('x', s1), (n1, (n2 + 1)))"}, {"subquery.dual-star", "(SELECT * FROM dual)"}, {"marker.fuse", "FUSE(obj)"}, {"marker.setvar", "SETVAR('k', n1)"}, {"marker.spin", "SPIN.VBG(n1)"}, {"marker.spinasync", "SPINASYNC.VBG(s1)"}, {"marker.fuse.array", "ARRAY(FUSE(obj), SETVAR('k', 1), 2)"},
	{"fn.user", "VFAIL(n1)"}, {"fn.user.arith", "(VFAIL(n1) + 1)"}, {"fn.once", "ONCE.VBG(7)"}, {"fn.scoped", "SCOPED.VBG(s1)"}, {"defaultkey", "DEFAULTKEY(obj)"},
}

var c12Positions = []struct {
	name, tpl string
	multiset  bool
}{
	{"select.aliased", "SELECT rid, %E AS v FROM t1", false},
	{"select.bare", "SELECT rid, %E FROM t1", false},
	{"select.star", "SELECT *, %E AS v FROM t1", false},
	{"select.where", "SELECT rid, %E AS v FROM t1 WHERE n1 >= 0 AND EXISTS (SELECT e FROM arr)", false},
	{"fnarg", "SELECT rid, ARRAY(1, %E) AS v, CONCAT('p', %E) AS w FROM t1", false},
	{"case.branch", "SELECT rid, CASE WHEN n1 > 1 THEN %E ELSE %E END AS v FROM t1", false},
	{"if.branch", "SELECT rid, IF(b1, %E, 0) AS v FROM t1", false},
	{"subquery.select", "SELECT rid, (SELECT %E AS v FROM arr) AS sub FROM t1", false},
	{"grouped", "SELECT s1, COUNT(*) AS c, %E AS v FROM t1 GROUP BY s1", true},
	{"joined", "SELECT x.rid, %E AS v FROM t1 x JOIN u1 y ON x.n1 = y.un1", true},
	{"union.branch", "SELECT %E AS v FROM t1 UNION ALL SELECT %E AS v FROM t1", false},
	{"cte.body", "WITH c1 AS (SELECT rid, %E AS v FROM t1) SELECT * FROM c1", false},
	{"derived", "SELECT q.v FROM (SELECT %E AS v FROM t1) q", false},
	{"derived.star", "SELECT * FROM (SELECT rid, %E AS v FROM t1) q", false},
	{"dual", "SELECT %E AS v FROM dual", false},
	{"ordered", "SELECT rid, %E AS v FROM t1 ORDER BY rid DESC LIMIT 4", false},
	{"distinct", "SELECT DISTINCT %E AS v FROM t1", false},
	{"multidim", "SELECT a, %E AS v FROM mm", false},
}

func init() {
	floor := []string{"item.async", "item.async-union", "item.async-cte", "item.async-multidim", "item.once-multidim", "item.async-derived", "item.cte-dual-star", "item.fuse-dual-star", "item.fuse", "item.fuse-alias", "item.setvar", "item.async-derived-object", "item.async-derived-value", "item.agg-all-null", "item.option-flip", "item.mix-object", "item.async-join-operand", "item.cte-by-name", "item.fuse-async", "item.marker", "item.await-marker", "reexec.after-fault", "group.mixed-keys", "join.limit", "rich", "parjoin", "follow-up.whole-rows"}
	for _, f := range c12Forms {
		floor = append(floor, "form."+f.name)
	}
	for _, p := range c12Positions {
		floor = append(floor, "pos."+p.name)
	}
	fw.Register(&fw.Prop{
		ID:    "C12",
		Title: "Results are plain self-contained data and evaluation is deterministic",
		Level: "exploration",
		Rule: fmt.Sprintf("objects whose sibling sections flatten to one name under mix=> (24 evaluations). a later query showing whole rows of the same document object; stars over a scope with read and unread CTEs. special items also: async columns of derived tables / CTEs used by value, aggregates over all-NULL columns, the same text under another option set in between (with enough filler statements to turn over a bounded cache). phase 'joinlimit': a LIMIT [OFFSET] window over every join flavour repeated 8..20 times (equal multisets); marker forms (FUSE, SETVAR, SPIN, SPINASYNC) in every matrix position. phase 'groups': grouping / DISTINCT / UNION over look-alike keys (\"0\", -0.0, 0, ...) repeated 12..30 times; every query with a synchronous fault position is also made to fail and executed again on the same Query object; special items: derived rows with async items read as objects, async items in join operands, CTE read by name, fused async slots, the bare marker. phase 'matrix' enumerates the full (expression form x clause position) matrix - %d forms (column, nested path, literals, arithmetic, unary, comparison-as-value, IN/BETWEEN/LIKE/IS-as-value, CASE returning column / literal / arithmetic / nested CASE, IF, ARRAY, CONCAT, FIRST/LAST/ELEMENTAT, UNWIND, CHANGETYPE, HASH, ENCODE/DECODE, DATERANGE, CONSTANT, GETVAR, row- and root-scoped subqueries, EXISTS, sync / ONCE / SCOPED user functions) "+
			"x %d positions (aliased / bare / star select item, function argument, CASE branch, IF branch, inside a subquery's select, grouped, joined, union branch, CTE body, derived table, dual, ordered, DISTINCT, multi-dimensional) - over random documents, plus special select items (ASYNC call as a select item, FUSE with and without alias, SETVAR); phase 'rich' runs the shared rich query forms. "+
			"Every successful result goes through the type walk (only nil, bool, string, Go numeric kinds, maps with string keys and slices of those; no engine-internal named type, pointer, func, `<-` key or reference cycle), an encoding/json round trip, and is evaluated again (2 quick / 5 thorough times) on a deep-copied input with a fresh Query: equal multiset, identical sequence when no grouping/join is involved. "+
			"Non-trivial = a successful query with at least one non-NULL computed value; distinct = distinct (document, SQL).", len(c12Forms), len(c12Positions)),
		Assumptions: []string{
			"queries without TIMESTAMP(); division by zero excluded (±Inf is not JSON-representable); typed slices such as []string count as JSON arrays",
			"cells of the matrix that the engine rejects with an error (e.g. FIRST of a scalar) are counted as errors, not judged",
		},
		Floor:         floor,
		MinNontrivial: 200,
		Phases: []fw.Phase{
			{Name: "matrix", N: func(t fw.Tier) int {
				return pick(t, 6*len(c12Forms)*len(c12Positions), 80*len(c12Forms)*len(c12Positions))
			}, Run: c12Matrix},
			{Name: "rich", N: func(t fw.Tier) int { return pick(t, 10000, 200000) }, Run: c12Rich},
			{Name: "groups", N: func(t fw.Tier) int { return pick(t, 600, 12000) }, Run: c12Groups},
			{Name: "joinlimit", N: func(t fw.Tier) int { return pick(t, 200, 4000) }, Run: c12JoinLimit},
			{Name: "parjoin", N: func(t fw.Tier) int { return pick(t, 128, 2000) }, Run: c12ParJoin, Batch: 8},
		},
		Witness: sqlWitness,
	})
}

func c12Judge(c *fw.Case, d *richDoc, sql string, multiset bool, feats []string, opts func() []genql.QueryOption) {
	armFault(0, faultNone)
	used := d.fresh()
	o := Run(used, sql, opts()...)
	waitBackground()
	n0 := faultCount()
	c.Sample(map[string]any{"sql": sql, "outcome": short(fmt.Sprint(o.Describe()), 200)})
	det := map[string]any{"sql": sql, "doc": d.doc, "observed": o.Describe()}
	if o.Panic != nil {
		c.Feature(feats...)
		c.Violate("panic", fmt.Sprintf("panic escaped: %v", o.Panic), det)
		return
	}
	if o.Err != nil {
		c.Count("errors", 1)
		c.Discard("query rejected with an error (not judged)")
		return
	}
	c.Feature(feats...)
	if probs := val.PlainWalk(o.Rows, "<-"); len(probs) > 0 {
		det["problems"] = probs
		c.Violate("not-plain", fmt.Sprintf("the result is not plain data: %s", strings.Join(probs, "; ")), det)
		return
	}
	if err := val.JSONRoundTrip(o.Rows); err != nil {
		c.Violate("json", fmt.Sprintf("the result does not survive an encoding/json round trip: %v", err), det)
		return
	}
	// whole rows of the document the query has just read, shown by a later
	// query: what the first one may have left in them would surface here
	if _, ok := used["t1"]; ok && c.Chance(0.5) {
		fu := Run(used, gen.Pick(c.R, []string{"SELECT * FROM t1 u", "SELECT u AS whole FROM t1 u", "SELECT s1, * FROM t1 GROUP BY s1"}))
		waitBackground()
		if probs := val.PlainWalk(fu.Rows, "<-"); fu.OK() && len(probs) > 0 {
			det["problems"], det["follow_up"] = probs, fu.Describe()
			c.Violate("not-plain", fmt.Sprintf("a later query that shows whole rows of the same document is not plain data: %s", strings.Join(probs, "; ")), det)
			return
		}
		c.Feature("follow-up.whole-rows")
	}
	R := pick(c.Tier, 2, 5)
	if containsStr(feats, "item.mix-object") {
		// which of two colliding names wins must not be left to the iteration
		// order of a map: many evaluations
		R = 24
	}
	for rep := 0; rep < R; rep++ {
		again := Run(d.fresh(), sql, opts()...)
		waitBackground()
		if !again.OK() {
			det["repetition"] = again.Describe()
			c.Violate("nondeterministic", fmt.Sprintf("the same query on an equal input failed on repetition %d: %v", rep+1, again.Describe()), det)
			return
		}
		same := val.SameSeq(o.Rows, again.Rows)
		if multiset {
			same = val.SameMultiset(o.Rows, again.Rows)
		}
		if !same {
			det["repetition"] = again.Describe()
			c.Violate("nondeterministic", fmt.Sprintf("repetition %d returned a different result: %s vs %s", rep+1, short(val.Canon(again.Rows), 200), short(val.Canon(o.Rows), 200)), det)
			return
		}
		if probs := val.PlainWalk(again.Rows, "<-"); len(probs) > 0 {
			det["problems"] = probs
			c.Violate("not-plain", fmt.Sprintf("repetition %d is not plain data: %s", rep+1, strings.Join(probs, "; ")), det)
			return
		}
	}
	// the same Query object executed twice must also agree with itself
	if q, err := genql.New(d.fresh(), sql, opts()...); err == nil {
		r1 := execBuilt(q)
		waitBackground()
		r2 := execBuilt(q)
		waitBackground()
		if r1.OK() && !strings.Contains(sql, "SETVAR") {
			same := r2.OK() && (val.SameSeq(r1.Rows, r2.Rows) || multiset && val.SameMultiset(r1.Rows, r2.Rows))
			if !same {
				det["first_exec"], det["second_exec"] = r1.Describe(), r2.Describe()
				c.Violate("reexec-differs", fmt.Sprintf("executing the same Query object a second time returned something else: %s vs %s", short(fmt.Sprint(r2.Describe()), 200), short(fmt.Sprint(r1.Describe()), 200)), det)
				return
			}
			if probs := val.PlainWalk(r2.Rows, "<-"); len(probs) > 0 {
				det["problems"] = probs
				c.Violate("not-plain", fmt.Sprintf("second execution of the same Query object is not plain data: %s", strings.Join(probs, "; ")), det)
				return
			}
		}
	}
	// a Query object whose first execution failed part-way (a synchronous user
	// function returning an error at one of its invocations) and is executed
	// again: the second result is a repetition like any other
	if n0 >= 1 && strings.Contains(sql, "VFAIL(") && !strings.Contains(sql, "ONCE.") && !strings.Contains(sql, "ASYNC.VFAIL") && !strings.Contains(sql, "SPIN.VFAIL") && !strings.Contains(sql, "SETVAR") {
		// ASYNC calls of a derived table start in New and may not have begun when
		// New returns: the planned fault is kept away from them (a failed ASYNC
		// call is another matter), it is meant for a synchronous call of the execution
		fault.syncOnly.Store(true)
		defer func() { waitBackground(); fault.syncOnly.Store(false) }()
		q, nerr := newSafe(d.fresh(), sql, opts()...)
		if q != nil && nerr.Err == nil {
			armFault(1+c.Intn(n0), faultError)
			failed := execBuilt(q)
			armFault(0, faultNone)
			waitBackground()
			if failed.Err != nil {
				again := execBuilt(q)
				waitBackground()
				c.Feature("reexec.after-fault")
				same := again.OK() && (val.SameSeq(o.Rows, again.Rows) || multiset && val.SameMultiset(o.Rows, again.Rows))
				if !same {
					det["first_exec"], det["second_exec"] = failed.Describe(), again.Describe()
					c.Violate("reexec-differs", fmt.Sprintf("after an execution that failed part-way, executing the same Query object again returned %s instead of %s", short(fmt.Sprint(again.Describe()), 200), short(val.Canon(o.Rows), 200)), det)
					return
				}
				if probs := val.PlainWalk(again.Rows, "<-"); len(probs) > 0 {
					det["problems"] = probs
					c.Violate("not-plain", fmt.Sprintf("the execution after a failed one is not plain data: %s", strings.Join(probs, "; ")), det)
					return
				}
			}
		}
	}
	c.Evals(1 + R)
	// non-trivial: some non-NULL value besides rid
	nt := false
	var scan func(v any, key string)
	scan = func(v any, key string) {
		switch t := v.(type) {
		case map[string]any:
			for k, x := range t {
				scan(x, k)
			}
		case []any:
			for _, x := range t {
				scan(x, key)
			}
		case nil:
		default:
			if key != "rid" && key != "" {
				nt = true
			}
		}
	}
	scan(o.Rows, "")
	if nt {
		c.Nontrivial(sql + "|" + val.Canon(d.doc))
	}
}

func c12Opts() []genql.QueryOption {
	return []genql.QueryOption{genql.WithVars(map[string]any{"k": "kv"}), genql.WithConstants(map[string]any{"c1": []any{1.0, "two"}})}
}

func c12Matrix(c *fw.Case) {
	d := newRichDoc(c)
	for len(d.t.Rows) == 0 {
		d = newRichDoc(c)
	}
	nf, np := len(c12Forms), len(c12Positions)
	cell := c.Idx % (nf*np + 66)
	if cell >= nf*np {
		// special select items
		var sql string
		var feat string
		switch (cell - nf*np) % 33 {
		case 32:
			// a top-level function over an object whose flattened names collide
			sql, feat = gen.Pick(c.R, []string{"SELECT rid, `mix=>cfg` AS m FROM t1", "SELECT `mix=>cfg` AS m, `mix=>cfg.a` AS n FROM t1 WHERE n1 >= 0", "SELECT DISTINCT `mix=>cfg` AS m FROM t1"}), "item.mix-object"
		case 29:
			// aggregates over a column that is NULL or missing in every row
			sql, feat = gen.Pick(c.R, []string{"SELECT AVG(nokey) AS a, SUM(nokey) AS s, MIN(nokey) AS m, COUNT(*) AS n FROM t1", "SELECT s1, AVG(nokey) AS a, MAX(nokey) AS m FROM t1 GROUP BY s1",
				"SELECT AVG(y.nokey) AS a FROM t1 x LEFT JOIN u1 y ON x.n1 = y.un1", "SELECT b1, AVG(z1) AS a FROM t1 WHERE z1 IS NULL GROUP BY b1"}), "item.agg-all-null"
		case 30, 31:
			c12OptionFlip(c, d)
			return
		// a derived table's (or CTE's) async column used by value in the outer
		// query: as a function argument, in WHERE, as a grouping key, in arithmetic
		case 24:
			sql, feat = "SELECT x.rid, ARRAY(x.r) AS rs, CONCAT(x.r, '!') AS c FROM (SELECT rid, ASYNC.VBG(s1) AS r FROM t1) x", "item.async-derived-value"
		case 25:
			sql, feat = "SELECT x.rid, x.r FROM (SELECT rid, ASYNC.VBG(s1) AS r FROM t1) x WHERE x.r = "+gen.SQLLit(d.t.Rows[c.Intn(len(d.t.Rows))]["s1"], 0), "item.async-derived-value"
		case 26:
			sql, feat = "SELECT x.r AS k, COUNT(*) AS n FROM (SELECT rid, ASYNC.VBG(s1) AS r FROM t1) x GROUP BY x.r", "item.async-derived-value"
		case 27:
			sql, feat = "WITH q AS (SELECT rid, ASYNC.VBG(n1) AS r FROM t1) SELECT rid, (r + 1) AS r1, IF(r >= 0, 'y', 'n') AS s FROM q WHERE r >= 0", "item.async-derived-value"
		case 28:
			sql, feat = "SELECT x.rid, CASE WHEN x.r >= 1 THEN x.r ELSE 0 END AS v FROM (SELECT rid, ASYNC.VBG(n1) AS r FROM t1 WHERE n1 >= 0) x WHERE x.r IN (0, 1, 2, 3) OR x.r > 3", "item.async-derived-value"
		case 23:
			// AWAIT directly as a select item, over calls that yield a marker instead of a value
			sql, feat = "SELECT rid, AWAIT(FUSE(obj)) AS y, AWAIT(SPINASYNC.VBG(s1)) AS z, AWAIT(SETVAR('k', n1)) AS w FROM t1", "item.await-marker"
		case 20:
			sql, feat = "SELECT rid, (SELECT `<-` FROM dual) AS x, (SELECT `<-` AS up FROM dual) AS y FROM t1", "item.marker"
		case 21:
			sql, feat = "WITH a AS (SELECT rid, (SELECT `<-` AS up FROM dual) AS x, (SELECT (SELECT `<-.<-` AS up FROM dual) AS s2 FROM dual) AS g, (SELECT `'<-'` AS q FROM dual) AS y FROM t1) SELECT * FROM a", "item.marker"
		case 22:
			sql, feat = "WITH a AS (SELECT rid FROM t1), b AS (SELECT rid, (SELECT `<-` AS up FROM dual) AS x, `<-` FROM a) SELECT * FROM b", "item.marker"
		case 17:
			sql, feat = "WITH c AS (SELECT rid, n1 FROM t1) SELECT c FROM dual", "item.cte-by-name"
		case 18:
			sql, feat = "WITH c AS (SELECT rid FROM t1), d AS (SELECT 1 AS x FROM dual), o AS (SELECT 2 AS y FROM dual) SELECT c AS v, ARRAY(d, c) AS a, FUSE(d), `{o, d, t1}` AS p FROM dual", "item.cte-by-name"
		case 19:
			sql, feat = "SELECT rid, FUSE((SELECT ASYNC.VBG(n1) AS z, AWAIT(ASYNC.VBG(s1)) AS zz FROM dual)), FUSE((SELECT ASYNC.VBG(rid) AS y FROM dual)) AS p FROM t1", "item.fuse-async"
		case 15:
			sql, feat = "SELECT * FROM (SELECT rid, ASYNC.VBG(n1) AS y FROM t1) l JOIN t1 r ON l.rid = r.rid", "item.async-join-operand"
		case 16:
			sql, feat = "SELECT l AS item, r.z FROM t1 x LEFT JOIN (SELECT rid, AWAIT(ASYNC.VBG(s1)) AS z, ASYNC.VBG(n1) AS y FROM t1) r ON x.rid = r.rid JOIN (SELECT rid, ASYNC.VBG(n2) AS w FROM t1) l ON l.rid = x.rid", "item.async-join-operand"
		case 12:
			sql, feat = "SELECT q, VFAIL(q.rid) AS c FROM (SELECT rid, ASYNC.VBG(n1) AS y FROM t1) q", "item.async-derived-object"
		case 13:
			sql, feat = "SELECT *, VFAIL(1) AS c FROM (SELECT rid, AWAIT(ASYNC.VBG(s1)) AS y FROM t1) q", "item.async-derived-object"
		case 14:
			sql, feat = "SELECT q AS item, VFAIL(q.rid) AS c FROM (SELECT rid, ASYNC.VBG(n1) AS y, AWAIT(ASYNC.VBG(s1)) AS z FROM t1 WHERE n1 >= 0) q", "item.async-derived-object"
		case 10:
			// the star over the scope: neither a CTE that nobody has read nor one that has been read is a column
			sql, feat = gen.Pick(c.R, []string{"WITH c AS (SELECT rid FROM t1) SELECT * FROM dual", "WITH o AS (SELECT rid FROM t1) SELECT *, (SELECT COUNT(*) AS c FROM o) AS n FROM dual",
				"WITH o AS (SELECT rid FROM t1) SELECT (SELECT COUNT(*) AS c FROM o) AS n, * FROM dual", "SELECT q.x FROM (WITH c AS (SELECT rid FROM t1) SELECT *, 1 AS x FROM dual) q",
				"WITH c AS (SELECT rid FROM t1), d AS (SELECT * FROM dual) SELECT * FROM d"}), "item.cte-dual-star"
		case 11:
			sql, feat = "SELECT rid, FUSE((SELECT * FROM dual)) FROM t1", "item.fuse-dual-star"
		case 8:
			sql, feat = "SELECT q.v, q.rid FROM (SELECT rid, ASYNC.VBG(n1) AS v FROM t1) q", "item.async-derived"
		case 9:
			sql, feat = "SELECT q.v AS a, (q.rid + 1) AS b FROM (SELECT rid, ASYNC.VBG(s1) AS v FROM t1 WHERE n1 >= 0) q", "item.async-derived"
		case 6:
			sql, feat = "SELECT a, ASYNC.VBG(a) AS v, SPINASYNC.VBG(b) FROM mm WHERE a >= 0", "item.async-multidim"
		case 7:
			sql, feat = "SELECT a, ONCE.VBG(7) AS o FROM mm", "item.once-multidim"
		case 4:
			sql, feat = "SELECT rid, ASYNC.VBG(n1) AS v FROM t1 UNION ALL SELECT rid, ASYNC.VBG(s1) AS v FROM t1 WHERE n1 >= 0", "item.async-union"
		case 5:
			sql, feat = "WITH c1 AS (SELECT rid, ASYNC.VBG(n1) AS v, s1 FROM t1) SELECT * FROM c1", "item.async-cte"
		case 0:
			sql, feat = "SELECT rid, ASYNC.VBG(n1) AS v, ASYNC.VBG(s1) AS w FROM t1", "item.async"
		case 1:
			sql, feat = "SELECT rid, FUSE(obj) FROM t1", "item.fuse"
		case 2:
			sql, feat = "SELECT rid, FUSE(obj) AS o FROM t1", "item.fuse-alias"
		default:
			sql, feat = "SELECT rid, SETVAR('k', n1), GETVAR('k') AS g FROM t1", "item.setvar"
		}
		c12Judge(c, d, sql, strings.Contains(sql, "JOIN"), []string{feat}, c12Opts)
		return
	}
	f, p := c12Forms[cell%nf], c12Positions[cell/nf]
	sql := strings.ReplaceAll(p.tpl, "%E", f.sql)
	c12Judge(c, d, sql, p.multiset, []string{"form." + f.name, "pos." + p.name, "cell." + f.name + "@" + p.name}, c12Opts)
}

func c12Rich(c *fw.Case) {
	d := newRichDoc(c)
	f := richForms[c.Idx%len(richForms)]
	sql := f.build(c, d, "VFAIL")
	c12Judge(c, d, sql, f.multiset || strings.Contains(sql, "GROUP BY"), []string{"rich", "rich." + f.name}, c12Opts)
}

// c12ParJoin: determinism of the library's own parallelism. A PARALLEL join
// over many key groups with large match sets is evaluated repeatedly; every
// run must return the same multiset (and the exact number of pairs).
func c12ParJoin(c *fw.Case) {
	keys := 20 + c.Intn(pick(c.Tier, 30, 60))
	dupL, dupR := 4+c.Intn(12), 4+c.Intn(12)
	var l, r []any
	for k := 0; k < keys; k++ {
		for i := 0; i < dupL; i++ {
			l = append(l, map[string]any{"k": float64(k), "i": float64(i)})
		}
		for i := 0; i < dupR; i++ {
			r = append(r, map[string]any{"k": float64(k), "j": float64(i)})
		}
	}
	doc := map[string]any{"l": l, "r": r}
	jn := []string{"PARALLEL JOIN", "PARALLEL HASH_JOIN", "PARALLEL LEFT JOIN", "PARALLEL STRAIGHT_JOIN", "PARALLEL RIGHT HASH_JOIN"}[c.Idx%5]
	sql := "SELECT x.k, x.i, y.j FROM l x " + jn + " r y ON x.k = y.k"
	wantN := keys * dupL * dupR
	c.Feature("parjoin")
	c.Sample(map[string]any{"sql": sql, "key_groups": keys, "pairs": wantN})
	R := pick(c.Tier, 6, 12)
	var first []string
	for rep := 0; rep < R; rep++ {
		o := Run(val.CopyMap(doc), sql)
		det := map[string]any{"sql": sql, "key_groups": keys, "left_dups": dupL, "right_dups": dupR, "repetition": rep}
		if !o.OK() {
			c.Violate("error", fmt.Sprintf("PARALLEL join failed: %v", short(fmt.Sprint(o.Describe()), 200)), det)
			return
		}
		if len(o.Rows) != wantN {
			c.Violate("nondeterministic", fmt.Sprintf("repetition %d of `%s` returned %d rows, the join has %d pairs", rep, sql, len(o.Rows), wantN), det)
			return
		}
		cs := val.CanonSeq(o.Rows)
		sortStrings2(cs)
		if rep == 0 {
			first = cs
			continue
		}
		for i := range cs {
			if cs[i] != first[i] {
				c.Violate("nondeterministic", fmt.Sprintf("repetition %d of `%s` returned a different multiset", rep, sql), det)
				return
			}
		}
	}
	c.Evals(R)
	c.Nontrivial(sql + fmt.Sprint(keys, dupL, dupR))
}

func sortStrings2(s []string) { sort.Strings(s) }

// c12Groups: grouping over a key column that mixes kinds whose values look
// alike ("0", -0.0, 0, "1", 1, true, NULL) is evaluated repeatedly on equal
// inputs; every evaluation must return the same multiset of rows.
func c12Groups(c *fw.Case) {
	negZero := math.Copysign(0, -1)
	pool := []any{"0", negZero, 0.0, "-0", "1", 1.0, "1.0", true, "true", nil, 2.0}
	c.R.Shuffle(len(pool), func(i, j int) { pool[i], pool[j] = pool[j], pool[i] })
	pool = pool[:3+c.Intn(4)]
	if c.Idx%3 == 0 {
		pool = []any{"0", negZero, 0.0}
	}
	n := 3 + c.Intn(10)
	rows := make([]any, n)
	for i := range rows {
		rows[i] = map[string]any{"k": pool[i%len(pool)], "v": float64(1 + c.Intn(5)), "j": gen.Pick(c.R, pool)}
		if i >= len(pool) {
			rows[i].(map[string]any)["k"] = gen.Pick(c.R, pool)
		}
	}
	doc := map[string]any{"g": rows}
	sql := gen.Pick(c.R, []string{"SELECT k, COUNT(*) AS n, SUM(v) AS s FROM g GROUP BY k", "SELECT k, j, COUNT(*) AS n FROM g GROUP BY k, j", "SELECT k, MAX(v) AS m, COUNT(*) AS n FROM g GROUP BY k HAVING COUNT(*) >= 1",
		"SELECT DISTINCT k FROM g", "SELECT k FROM g UNION SELECT j AS k FROM g"})
	c.Feature("group.mixed-keys")
	first := Run(val.CopyMap(doc), sql)
	det := map[string]any{"sql": sql, "doc": doc, "observed": first.Describe()}
	c.Sample(map[string]any{"sql": sql, "keys": val.Show(pool)})
	if first.Panic != nil {
		c.Violate("panic", fmt.Sprintf("panic escaped: %v", first.Panic), det)
		return
	}
	if first.Err != nil {
		c.Discard("query rejected with an error (not judged)")
		return
	}
	R := pick(c.Tier, 12, 30)
	for rep := 1; rep <= R; rep++ {
		again := Run(val.CopyMap(doc), sql)
		if !again.OK() || !val.SameMultiset(first.Rows, again.Rows) {
			det["repetition"] = again.Describe()
			c.Violate("nondeterministic", fmt.Sprintf("evaluation %d of the same query on an equal document differs: %s vs %s", rep+1, short(fmt.Sprint(again.Describe()), 200), short(val.Canon(first.Rows), 200)), det)
			return
		}
	}
	c.Evals(1 + R)
	if len(first.Rows) >= 2 {
		c.Nontrivial(sql + "|" + val.Canon(doc))
	}
}


// c12JoinLimit: a LIMIT [OFFSET] window over a join (no ORDER BY) is evaluated
// repeatedly on equal inputs; every evaluation must return the same multiset
// of rows - whatever order the join produces, it is the same order every time.
func c12JoinLimit(c *fw.Case) {
	keys := 8 + c.Intn(30)
	var l, r []any
	for i := 0; i < keys*2; i++ {
		l = append(l, map[string]any{"id": float64(i), "k": float64(c.Intn(keys))})
	}
	for i := 0; i < keys*2; i++ {
		r = append(r, map[string]any{"id": float64(i), "k": float64(c.Intn(keys + 3))})
	}
	doc := map[string]any{"l": l, "r": r}
	jn := gen.Pick(c.R, []string{"JOIN", "LEFT JOIN", "RIGHT JOIN", "HASH_JOIN", "STRAIGHT_JOIN", "PARALLEL JOIN", "PARALLEL LEFT JOIN", "PARALLEL HASH_JOIN"})
	on := gen.Pick(c.R, []string{"x.k = y.k", "x.k = y.k", "x.k >= y.k AND x.k <= y.k", "x.k = y.k OR x.id = y.id"})
	sql := fmt.Sprintf("SELECT x.id AS a, y.id AS b FROM l x %s r y ON %s LIMIT %d", jn, on, 1+c.Intn(6))
	if c.Chance(0.4) {
		sql += fmt.Sprintf(" OFFSET %d", c.Intn(5))
	}
	c.Feature("join.limit")
	first := Run(val.CopyMap(doc), sql)
	c.Sample(map[string]any{"sql": sql, "key_groups": keys})
	det := map[string]any{"sql": sql, "doc": doc, "observed": first.Describe()}
	if first.Panic != nil {
		c.Violate("panic", fmt.Sprintf("panic escaped: %v", first.Panic), det)
		return
	}
	if first.Err != nil {
		c.Discard("query rejected with an error (not judged)")
		return
	}
	R := pick(c.Tier, 8, 20)
	for rep := 1; rep <= R; rep++ {
		again := Run(val.CopyMap(doc), sql)
		if !again.OK() || !val.SameMultiset(first.Rows, again.Rows) {
			det["repetition"] = again.Describe()
			c.Violate("nondeterministic", fmt.Sprintf("evaluation %d of the same join with a LIMIT window returned other rows: %s vs %s", rep+1, short(fmt.Sprint(again.Describe()), 200), short(val.Canon(first.Rows), 200)), det)
			return
		}
	}
	c.Evals(1 + R)
	if len(first.Rows) >= 1 {
		c.Nontrivial(sql + "|" + val.Canon(doc))
	}
}


// c12OptionFlip: the same query text evaluated under an option set, then under
// another (which gives the text another meaning, or makes it an error), then
// under the first again - with many other statements in between: evaluating
// the same query again on an equal input yields equal rows whatever the
// process evaluated meanwhile.
func c12OptionFlip(c *fw.Case, d *richDoc) {
	sql := gen.Pick(c.R, []string{"SELECT \"s1\" AS a, rid FROM t1", "SELECT rid, [1, 2] AS b FROM t1 WHERE n1 >= 0", "SELECT \"rid\" AS r, [\"s1\", 'x'] AS b FROM t1", "SELECT rid FROM t1 WHERE \"s1\" != 'zz'"})
	with := OptSet{PG: strings.Contains(sql, "\""), Idiomatic: strings.Contains(sql, "[")}
	other := OptSet{PG: !with.PG && c.Chance(0.5), Idiomatic: with.PG && with.Idiomatic && c.Chance(0.5)}
	first := Run(d.fresh(), sql, with.Options()...)
	c.Feature("item.option-flip")
	if !first.OK() {
		c.Discard("query rejected under its own options")
		return
	}
	// enough distinct statements, before or after the other reading, to turn
	// over any bounded cache of statements
	filler := func(n int) {
		for i := 0; i < n; i++ {
			_ = Run(map[string]any{"t1": []any{}}, fmt.Sprintf("SELECT %d AS x, %d AS y FROM t1", i, c.Idx))
		}
	}
	filler(gen.Pick(c.R, []int{0, 600, 600, 1100}))
	_ = Run(d.fresh(), sql, other.Options()...)
	filler(gen.Pick(c.R, []int{0, 0, 3, 600}))
	again := Run(d.fresh(), sql, with.Options()...)
	c.Evals(3)
	c.Sample(map[string]any{"sql": sql, "options": with.Names(), "other_options": other.Names()})
	if !again.OK() || !val.SameSeq(first.Rows, again.Rows) {
		c.Violate("nondeterministic", fmt.Sprintf("the same text under the same options returned %s, then - after the text had been evaluated under %v - %s", short(val.Canon(first.Rows), 200), other.Names(), short(fmt.Sprint(again.Describe()), 200)),
			map[string]any{"sql": sql, "options": with.Names(), "other_options": other.Names(), "doc": d.doc, "first": first.Describe(), "again": again.Describe()})
		return
	}
	if len(first.Rows) > 0 {
		c.Nontrivial(sql + val.Canon(d.doc))
	}
}
